"""Translation validation with symbolic inputs: one template program -> real compiler -> emitted Lua executed
symbolically (E-LUA) against the reference semantics (E-SY), for ALL values of the holes, on all uncut paths.
The deciding step is the z3 query  pc_ref ∧ pc_lua ∧ trace_ref ≠ trace_lua  per pair of feasible paths."""
import time
import z3
from vlib import common
from vlib.sym import (SInt, SFloat, SBool, SStr, Forker, Cut, Undecided, is_sym, is_int, is_float, is_str, iterm, fterm, bterm,
                      rope_eq, concrete_str, fp_const_value, F64)
from luasym.luaparse import parse, LuaSyntaxError
from luasym import runner
from luasym.interp import Interp, LuaError, Unsupported, classify_error
from syltsem import ast as A
from syltsem.ref import Ref, RefStuck, Failure

INT_LO, INT_HI = 0, 2**31 - 1


def hole_terms(holes, domains=None):
    """z3 constants and base constraints for the holes of a template"""
    terms = {}; base = []; vals = {}
    domains = domains or {}
    for name in holes.order:
        k, ty = holes.by_name[name]
        if ty == "int":
            t = z3.Int("h_" + name); terms[name] = t; vals[name] = SInt(t)
            lo, hi = domains.get(name, (INT_LO, INT_HI))
            base += [t >= lo, t <= hi]
        elif ty == "str":
            t = z3.String("h_" + name); terms[name] = t; vals[name] = SStr([("s", t)])
            # literal strings the compiler can carry: no double quote, no backslash, no newline (see C06), short
            base += [z3.Length(t) <= 3, z3.InRe(t, z3.Star(z3.Union(z3.Range("a", "z"), z3.Range("0", "9"), z3.Re(" "))))]
        elif ty == "float":
            t = z3.FP("h_" + name, F64); terms[name] = t; vals[name] = SFloat(t)
            base += [z3.Not(z3.fpIsNaN(t)), z3.Not(z3.fpIsInf(t)), z3.fpGEQ(t, z3.FPVal(0.0, F64)), z3.fpLEQ(t, z3.FPVal(1e6, F64))]
    return terms, vals, base


def substitute_placeholders(ast, holes, vals):
    """replace placeholder literals in the parsed Lua by the hole values"""
    by_int = {}; by_str = {}; by_float = {}
    for name in holes.order:
        k, ty = holes.by_name[name]
        if ty == "int": by_int[A.HOLE_INT_BASE + k] = vals[name]
        elif ty == "str": by_str[A.HOLE_STR_FMT % k] = vals[name]
        else: by_float[float(A.HOLE_FLOAT_BASE + k) + 0.5] = vals[name]
    seen = set()
    def walk(n):
        if isinstance(n, tuple):
            if n and n[0] == "const" and len(n) == 2:
                v = n[1]
                if isinstance(v, int) and not isinstance(v, bool) and v in by_int: seen.add(v); return ("const", by_int[v])
                if isinstance(v, str) and v in by_str: seen.add(v); return ("const", by_str[v])
                if isinstance(v, float) and v in by_float: seen.add(v); return ("const", by_float[v])
                return n
            return tuple(walk(x) for x in n)
        if isinstance(n, list): return [walk(x) for x in n]
        return n
    return walk(ast), seen


# ------------------------------------------------------------------ trace comparison
def snap_eq(a, b):
    """python bool or z3 Bool: structural equality of two snapshots (E-SY vs E-LUA abstraction)"""
    if a[0] != b[0]:
        return False
    k = a[0]
    if k in ("nil", "luanil", "fn", "deep"): return True
    if k == "int":
        x, y = a[1], b[1]
        if not (is_sym(x) or is_sym(y)): return x == y
        return iterm(x) == iterm(y)
    if k == "float":
        x, y = a[1], b[1]
        if not (is_sym(x) or is_sym(y)): return x == y or (x != x and y != y)
        return fterm(x) == fterm(y)
    if k == "bool":
        x, y = a[1], b[1]
        if isinstance(x, bool) and isinstance(y, bool): return x == y
        return bterm(x) == bterm(y)
    if k == "str": return rope_eq(a[1], b[1])
    if k in ("tuple", "list"):
        if len(a[1]) != len(b[1]): return False
        return conj([snap_eq(x, y) for x, y in zip(a[1], b[1])])
    if k == "blob":
        if set(a[1]) != set(b[1]): return False
        return conj([snap_eq(a[1][f], b[1][f]) for f in a[1]])
    if k == "variant":
        n = rope_eq(a[1], b[1]) if is_str(a[1]) and is_str(b[1]) else (a[1] == b[1])
        return conj([n, snap_eq(a[2], b[2])])
    return a == b


def conj(cs):
    ts = []
    for c in cs:
        if c is False: return False
        if c is True: continue
        ts.append(c)
    if not ts: return True
    return z3.And(ts)


def outcome_class(o):
    return o[0]


def traces_differ(ref_events, ref_out, lua_events, lua_out):
    """python bool or z3 Bool which is true iff the two traces differ"""
    lp = [e for e in lua_events if e[0] == "print"]
    rp = [e for e in ref_events if e[0] == "print"]
    if outcome_class(ref_out) != outcome_class(lua_out): return True
    if len(lp) != len(rp): return True
    eqs = [snap_eq(r[1], l[1]) for r, l in zip(rp, lp)]
    c = conj(eqs)
    if c is True: return False
    if c is False: return True
    return z3.Not(c)


def concretize_snap(s, model):
    k = s[0]
    ev = lambda t: model.eval(t, model_completion=True)
    if k == "int": return ("int", s[1] if not is_sym(s[1]) else ev(s[1].t).as_long())
    if k == "float": return ("float", s[1] if not is_sym(s[1]) else fp_const_value(ev(s[1].t)))
    if k == "bool": return ("bool", s[1] if isinstance(s[1], bool) else z3.is_true(ev(s[1].t)))
    if k == "str": return ("str", concrete_str(s[1], model))
    if k in ("tuple", "list"): return (k, [concretize_snap(x, model) for x in s[1]])
    if k == "blob": return (k, {f: concretize_snap(x, model) for f, x in s[1].items()})
    if k == "variant": return (k, s[1] if isinstance(s[1], str) else concrete_str(s[1], model), concretize_snap(s[2], model))
    return s


def show_trace(events, out, model=None):
    items = []
    for e in events:
        if e[0] == "print": items.append(concretize_snap(e[1], model) if model is not None else e[1])
    return {"prints": items, "outcome": list(out)}


# ------------------------------------------------------------------ one template
class Bounds:
    def __init__(self, tier):
        q = tier == "quick"
        self.loop = 4 if q else 8; self.depth = 6 if q else 10
        self.paths = 256 if q else 4096; self.timeout_ms = 5000 if q else 20000


class Template:
    """a program with typed holes: text (Sylt + ?markers) and its reference AST"""
    def __init__(self, name, text=None, prog=None, domains=None, role=None, extra_files=None):
        from syltsem import parse as SP
        self.name = name; self.role = role or name; self.domains = domains or {}; self.extra_files = extra_files
        if text is None: text = A.to_text(prog)
        self.text = text
        self.prog = SP.strip_parens(SP.parse_program(text)) if prog is None else prog


def compile_template(sylt, tpl, concrete=None, extra_files=None):
    src, holes = A.render(tpl.text, concrete)
    extra_files = extra_files or tpl.extra_files
    files = {"main.sy": src}
    if extra_files:
        for rel, text in extra_files.items(): files[rel] = A.render(text, concrete, holes)[0]
    rc, lua, out = common.compile_sy(sylt, files)
    return src, holes, rc, lua, out


def run_ref_paths(prog, vals, base, bounds, stats):
    fk = Forker(base, stats, bounds.timeout_ms, bounds.paths)
    def thunk():
        r = Ref(fk, vals, loop_bound=bounds.loop, call_depth=bounds.depth)
        out = r.run_program(prog)
        return {"events": r.events, "outcome": out}
    return fk.explore(thunk), fk


SPLIT_MAX = 512


def check_template(sylt, tpl, bounds, stats, oracle="equiv", _pin=None):
    """returns a dict: status in {rejected, load_error, ok, diff, undecided, stuck}, details, counters.
    When the solver answers `unknown` somewhere (non-linear terms) and every hole is an integer with a small domain, the
    question is case-split over the hole values (each case re-explored with the holes pinned, so its queries are ground)."""
    t0 = time.time()
    res = {"status": "ok", "paths_ref": 0, "paths_lua": 0, "cut": 0, "undecided": 0, "queries": 0, "diffs": []}
    prog = tpl.prog; domains = tpl.domains
    src, holes, rc, lua, out = compile_template(sylt, tpl)
    res["source"] = src
    if rc != 0 or lua is None:
        res["status"] = "rejected"; res["compiler_output"] = out[-600:]; return res
    try: ast = parse(lua)
    except LuaSyntaxError as e:
        res["status"] = "load_error"; res["load_error"] = str(e); res["lua"] = lua; return res
    terms, vals, base = hole_terms(holes, domains)
    if _pin:
        base = base + [terms[n] == v for n, v in _pin.items()]
        vals = dict(_pin)              # ground instance: both interpreters compute with the concrete values
    ast, seen = substitute_placeholders(ast, holes, vals)
    try:
        ref_paths, rfk = run_ref_paths(prog, vals, base, bounds, stats)
    except RefStuck as e:
        res["status"] = "stuck"; res["why"] = str(e); return res
    res["paths_ref"] = len(ref_paths); res["cut"] += rfk.cut_paths; res["undecided"] += rfk.undecided
    for pc_r, kind_r, val_r in ref_paths:
        if kind_r != "ok": continue
        paths, fk = runner.run_symbolic(ast, base + pc_r, loop_bound=bounds.loop + 1, call_depth=2 * bounds.depth + 8, max_paths=bounds.paths,
                                        timeout_ms=bounds.timeout_ms, stats=stats)
        res["cut"] += fk.cut_paths; res["undecided"] += fk.undecided
        for p in paths:
            res["paths_lua"] += 1
            if p["kind"] == "undecided": res.setdefault("undecided_why", {}); res["undecided_why"][p.get("why", "")[:120]] = res["undecided_why"].get(p.get("why", "")[:120], 0) + 1
            if p["kind"] != "ok": continue
            if p["outcome"][0] == "cut":
                # the Lua path ran into a bound; the reference finished: the events before the cut must be a prefix of the reference's events
                k = len(p["events"])
                if k == 0: continue
                if k > len(val_r["events"]): d = True
                else: d = traces_differ(val_r["events"][:k], ("ok",), p["events"], ("ok",))
            elif oracle == "equiv":
                d = traces_differ(val_r["events"], val_r["outcome"], p["events"], p["outcome"])
            else:
                d = oracle(val_r, p)
            if d is False: continue
            s = z3.Solver(); s.set("timeout", bounds.timeout_ms)
            s.add(base); s.add(pc_r); s.add(p["pc"])
            if d is not True: s.add(d)
            r = stats.check(s) if stats is not None else s.check()
            res["queries"] += 1
            if r == z3.unsat: continue
            if r != z3.sat:
                res["undecided"] += 1; continue
            m = s.model()
            cvals = {}
            for name, t in terms.items():
                v = m.eval(t, model_completion=True)
                ty = holes.by_name[name][1]
                cvals[name] = v.as_long() if ty == "int" else (v.as_string() if ty == "str" else fp_const_value(v))
            res["diffs"].append({"holes": cvals, "ref": show_trace(val_r["events"], val_r["outcome"], m), "lua": show_trace(p["events"], p["outcome"], m),
                                 "undeclared": p.get("undeclared", [])[:5], "global_writes": sorted(p.get("global_writes", {}))[:8]})
            if len(res["diffs"]) >= 3: break
        if len(res["diffs"]) >= 3: break
    if res["diffs"]: res["status"] = "diff"
    elif res["undecided"]: res["status"] = "undecided"
    if res["status"] == "undecided" and _pin is None and holes.order and all(holes.by_name[n][1] == "int" and n in domains for n in holes.order):
        import itertools
        rngs = [range(domains[n][0], domains[n][1] + 1) for n in holes.order]
        size = 1
        for r_ in rngs: size *= len(r_)
        if size <= SPLIT_MAX:
            und = 0
            for combo in itertools.product(*rngs):
                sub = check_template(sylt, tpl, bounds, stats, oracle, _pin=dict(zip(holes.order, combo)))
                for k in ("paths_lua", "queries", "cut"): res[k] += sub.get(k, 0)
                if sub["status"] == "diff": res["diffs"] += sub["diffs"][:1]
                elif sub["status"] != "ok": und += 1
                if len(res["diffs"]) >= 3: break
            res["case_split"] = size
            if res["diffs"]: res["status"] = "diff"
            elif und == 0: res["status"] = "ok"; res["undecided_before_split"] = res["undecided"]; res["undecided"] = 0
    res["lua"] = lua
    res["wall_s"] = round(time.time() - t0, 3)
    return res


def replay_concrete(sylt, tpl, cvals, max_steps=2_000_000):
    """REPLAY: the concretised program is recompiled by the real compiler, its chunk executed concretely, and the
    reference semantics executed concretely. Returns (differs: bool, info)"""
    prog = tpl.prog
    src, holes, rc, lua, out = compile_template(sylt, tpl, concrete=cvals)
    if rc != 0 or lua is None: return None, {"why": "concretised program rejected", "out": out[-400:], "source": src}
    try: ast = parse(lua)
    except LuaSyntaxError as e: return None, {"why": "concretised chunk does not load: %s" % e, "source": src, "lua": lua}
    events, outcome, it = runner.run_concrete(ast, max_steps)
    r = Ref(None, cvals, max_steps=max_steps)
    try: rout = r.run_program(prog)
    except RefStuck as e: return None, {"why": "reference stuck: %s" % e, "source": src}
    d = traces_differ(r.events, rout, events, outcome)
    info = {"source": src, "lua": lua, "ref": show_trace(r.events, rout), "lua_trace": show_trace(events, outcome),
            "undeclared_reads": it.undeclared_reads[:10], "global_writes": sorted(it.global_writes)[:10]}
    return bool(d), info


# ------------------------------------------------------------------ C02: no dynamic type errors in accepted programs
BAD_OUTCOMES = ("dynamic_type_error",)


def soundness_violation(p):
    """a path of the emitted chunk violates type soundness when it ends in a dynamic type error, or reads an
    undeclared V<n> (what real Lua turns into a silent nil: an uninitialised / out-of-scope variable)"""
    if p["outcome"][0] in BAD_OUTCOMES: return "dynamic_type_error: " + str(p["outcome"][1])[:120]
    if p.get("undeclared"): return "read of undeclared variable " + p["undeclared"][0]
    for e in p["events"]:
        if e[0] == "print" and _has_luanil(e[1]): return "printed value contains an uninitialised (Lua nil) slot"
    return None


def _has_luanil(s):
    if s[0] == "luanil": return True
    if s[0] in ("tuple", "list"): return any(_has_luanil(x) for x in s[1])
    if s[0] == "blob": return any(_has_luanil(x) for x in s[1].values())
    return False


def check_soundness(sylt, tpl, bounds, stats):
    t0 = time.time()
    res = {"status": "ok", "paths_ref": 0, "paths_lua": 0, "cut": 0, "undecided": 0, "queries": 0, "diffs": []}
    src, holes, rc, lua, out = compile_template(sylt, tpl)
    res["source"] = src
    if rc != 0 or lua is None:
        res["status"] = "rejected"; res["compiler_output"] = out[-600:]; return res
    try: ast = parse(lua)
    except LuaSyntaxError as e:
        res["status"] = "load_error"; res["load_error"] = str(e); res["lua"] = lua; return res
    terms, vals, base = hole_terms(holes, tpl.domains)
    ast, seen = substitute_placeholders(ast, holes, vals)
    paths, fk = runner.run_symbolic(ast, base, loop_bound=bounds.loop + 1, call_depth=2 * bounds.depth + 8, max_paths=bounds.paths,
                                    timeout_ms=bounds.timeout_ms, stats=stats)
    res["cut"] += fk.cut_paths; res["undecided"] += fk.undecided
    for p in paths:
        res["paths_lua"] += 1
        if p["kind"] != "ok": continue
        why = soundness_violation(p)           # (a path cut by a bound has outcome "cut": only its undeclared reads count)
        if why is None: continue
        s = z3.Solver(); s.set("timeout", bounds.timeout_ms); s.add(base); s.add(p["pc"])
        r = stats.check(s); res["queries"] += 1
        if r != z3.sat:
            if r != z3.unsat: res["undecided"] += 1
            continue
        m = s.model(); cvals = {}
        for name, t in terms.items():
            v = m.eval(t, model_completion=True); ty = holes.by_name[name][1]
            cvals[name] = v.as_long() if ty == "int" else (v.as_string() if ty == "str" else fp_const_value(v))
        res["diffs"].append({"holes": cvals, "why": why, "ref": None, "lua": show_trace(p["events"], p["outcome"], m)})
        break
    if res["diffs"]: res["status"] = "diff"
    elif res["undecided"]: res["status"] = "undecided"
    res["lua"] = lua; res["wall_s"] = round(time.time() - t0, 3)
    return res


def replay_soundness(sylt, tpl, cvals, max_steps=2_000_000):
    src, holes, rc, lua, out = compile_template(sylt, tpl, concrete=cvals)
    if rc != 0 or lua is None: return None, {"why": "concretised program rejected", "source": src}
    try: ast = parse(lua)
    except LuaSyntaxError as e: return None, {"why": "concretised chunk does not load: %s" % e, "source": src, "lua": lua}
    events, outcome, it = runner.run_concrete(ast, max_steps)
    p = {"outcome": outcome, "undeclared": it.undeclared_reads, "events": events}
    why = soundness_violation(p)
    return (why is not None), {"source": src, "lua": lua, "ref": {"expected": "no dynamic type error"}, "lua_trace": dict(show_trace(events, outcome), why=why)}
