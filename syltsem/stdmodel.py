"""Plain models of the standard library containers and helpers (C18), installed into the reference semantics.
Lists are Python lists, dicts/sets insertion-ordered association lists with structural key equality, Maybe is the
enum of std/maybe.sy (Just v | None). Nothing here is taken from preamble.lua."""
import z3
from vlib.sym import SInt, SFloat, SBool, is_sym, is_int, is_float, is_num, iterm, fterm, mk_int, mk_bool, to_float, FFLOOR
from syltsem.ref import RList, RTuple, RVariant, RBuiltin, RClosure, RefStuck, NIL, Failure


class RDict:
    __slots__ = ("items",)
    def __init__(self): self.items = []          # list of [key, value]
class RSet:
    __slots__ = ("items",)
    def __init__(self): self.items = []


def just(v): return RVariant("Maybe", "Just", v)
def none(): return RVariant("Maybe", "None", NIL)


def install(ref):
    B = lambda name, f: RBuiltin(name, f)
    br = ref.branch

    def idx_in_range(l, i):
        """python int index or None (out of range); forks on symbolic i"""
        n = len(l.items)
        if is_sym(i):
            opts = [(j, i.t == j) for j in range(n)] + [("oob", z3.Or(i.t < 0, i.t >= n))]
            ch = ref.fk.decide(opts)
            return None if ch == "oob" else ch
        return i if 0 <= i < n else None

    # ---- lists
    def l_push(l, v): l.items.append(v); return NIL
    def l_prepend(l, v): l.items.insert(0, v); return NIL
    def l_pop(l):
        if not l.items: return none()
        return just(l.items.pop())
    def l_get(l, i):
        j = idx_in_range(l, i); return none() if j is None else just(l.items[j])
    def l_set(l, i, v):
        j = idx_in_range(l, i)
        if j is not None: l.items[j] = v
        return NIL
    def l_len(l):
        if isinstance(l, (RList,)): return len(l.items)
        if isinstance(l, (RDict, RSet)): return len(l.items)
        raise RefStuck("len")
    def l_map(l, f): return RList([ref.call(f, [x]) for x in list(l.items)])
    def l_filter(l, f): return RList([x for x in list(l.items) if br(ref.call(f, [x]))])
    def l_fold(l, a, f):
        for x in list(l.items): a = ref.call(f, [x, a])
        return a
    def l_for_each(l, f):
        for x in list(l.items): ref.call(f, [x])
        return NIL
    def l_find(l, p):
        for x in list(l.items):
            if br(ref.call(p, [x])): return just(x)
        return none()
    def l_contains(l, v):
        for x in list(l.items):
            if br(ref.equal(x, v)): return True
        return False
    def l_last(l): return just(l.items[-1]) if l.items else none()
    lst = {"push": l_push, "prepend": l_prepend, "pop": l_pop, "get": l_get, "set": l_set, "len": l_len, "map": l_map, "filter": l_filter,
           "fold": l_fold, "for_each": l_for_each, "find": l_find, "contains": l_contains, "last": l_last}

    # ---- dicts
    def d_find(d, k):
        for e in d.items:
            if br(ref.equal(e[0], k)): return e
        return None
    def d_new(): return RDict()
    def d_update(d, k, v):
        e = d_find(d, k)
        if e is None: d.items.append([k, v])
        else: e[1] = v
        return NIL
    def d_from_list(l):
        d = RDict()
        for t in l.items: d_update(d, t.items[0], t.items[1])
        return d
    def d_get(d, k):
        e = d_find(d, k); return none() if e is None else just(e[1])
    def d_remove(d, k):
        e = d_find(d, k)
        if e is not None: d.items.remove(e)
        return NIL
    def d_contains_key(d, k): return d_find(d, k) is not None
    dct = {"new": d_new, "update": d_update, "from_list": d_from_list, "get": d_get, "remove": d_remove, "len": l_len, "contains_key": d_contains_key}

    # ---- sets
    def s_find(s, k):
        for i, e in enumerate(s.items):
            if br(ref.equal(e, k)): return i
        return None
    def s_new(): return RSet()
    def s_add(s, k):
        if s_find(s, k) is None: s.items.append(k)
        return NIL
    def s_from_list(l):
        s = RSet()
        for x in l.items: s_add(s, x)
        return s
    def s_contains(s, k): return s_find(s, k) is not None
    def s_remove(s, k):
        i = s_find(s, k)
        if i is not None: del s.items[i]
        return NIL
    def s_map(s, f):
        out = RSet()
        for x in list(s.items): s_add(out, ref.call(f, [x]))
        return out
    def s_for_each(s, f):
        for x in list(s.items): ref.call(f, [x])
        return NIL
    st = {"new": s_new, "add": s_add, "from_list": s_from_list, "contains": s_contains, "remove": s_remove, "len": l_len, "map": s_map, "for_each": s_for_each}

    # ---- maybe
    def is_just(m): return m.name == "Just"
    def m_or_default(m, a): return m.payload if m.name == "Just" else a
    def m_map(m, f): return just(ref.call(f, [m.payload])) if m.name == "Just" else none()
    def m_and_then(m, f): return ref.call(f, [m.payload]) if m.name == "Just" else none()
    def m_flatten(m): return m.payload if m.name == "Just" else none()
    mb = {"isJust": is_just, "isNone": lambda m: not is_just(m), "orDefault": m_or_default, "map": m_map, "andThen": m_and_then, "flatten": m_flatten}

    # ---- math
    def lt(a, b): return br(ref.less(a, b, True))
    def m_min(a, b): return a if lt(a, b) else b
    def m_max(a, b): return a if lt(b, a) else b
    def m_abs(n): return ref.negate(n) if lt(n, 0 if is_int(n) else 0.0) else n
    def m_clamp(x, lo, hi): return m_min(hi, m_max(x, lo))
    def m_sign(x):
        zero = 0 if is_int(x) else 0.0
        if lt(zero, x): return 1
        if lt(x, zero): return -1
        return 0
    def m_div(a, b):
        if br(ref.equal(b, 0)): raise RefStuck("div by zero is outside the modelled contract")
        if not (is_sym(a) or is_sym(b)): return a // b
        x, y = iterm(a), iterm(b)
        return mk_int(z3.If(y > 0, x / y, (-x) / (-y)))
    def m_floor(x):
        if is_int(x): return x
        if isinstance(x, SFloat): return SInt(FFLOOR(x.t))
        import math
        return math.floor(x)
    mth = {"min": m_min, "max": m_max, "abs": m_abs, "clamp": m_clamp, "sign": m_sign, "div": m_div, "floor": m_floor}

    mods = {"list": lst, "dict": dct, "set": st, "maybe": mb, "math": mth}
    for m, fs in mods.items():
        ref.modules[m] = {n: B("%s.%s" % (m, n), f) for n, f in fs.items()}
    # names the preamble imports unqualified
    g = ref.globals.vars
    from syltsem.ref import Cell
    for n in ("for_each", "map", "fold", "filter"): g[n] = Cell(ref.modules["list"][n], True)
    for n in ("abs", "min", "max", "clamp", "sign", "div", "floor"): g[n] = Cell(ref.modules["math"][n], True)
    ref.enums["Maybe"] = ["Just", "None"]
