"""Sylt programs as plain tuples (the E-SY AST), and a printer to Sylt surface syntax.

expressions                                   statements
 ("int", n) ("float", x) ("str", s)            ("def", name, kind, type|None, e)      kind: ":=" | "::"
 ("bool", b) ("nil",)                          ("assign", target, op, e)               op: "=" "+=" "-=" "*=" "/="
 ("hole", name, ty)   ty: int|str|float        ("expr", e)
 ("var", name)                                 ("loop", cond|None, [stmts])
 ("bin", op, a, b)                             ("break",) ("continue",)
 ("assert_eq", a, b)                           ("ret", e|None)
 ("neg", a) ("not", a)                         ("unreachable",)
 ("call", f, [args])                           ("block", [stmts])
 ("tuple", [es]) ("list", [es])                ("blobdef", Name, [(field, type)])
 ("index", a, i) ("field", a, name)            ("enumdef", Name, [(Variant, type|None)])
 ("blob", Name, [(field, e)])                  ("use", text)                            raw import line
 ("variant", Enum, Variant, e|None)
 ("fn", [(param, type|None)], ret|None, [stmts], pure=False)
 ("if", [(cond|None, [stmts])])
 ("case", e, [(Variant, bind|None, [stmts])], else_body|None)
 ("paren", e)                                  explicit redundant parentheses (C14)
A program is a list of top-level statements. Holes are printed as unique placeholder literals."""

BINPREC = {"or": 1, "and": 2, "==": 3, "!=": 3, "<": 3, "<=": 3, ">": 3, ">=": 3, "+": 4, "-": 4, "*": 5, "/": 5}

HOLE_INT_BASE = 770000       # hole k of type int is printed as 77000k
HOLE_STR_FMT = "qH%dq"
HOLE_FLOAT_BASE = 880000     # printed as 88000k.5


class Holes:
    """registry of holes in one template: name -> (index, type)"""
    def __init__(self):
        self.by_name = {}; self.order = []
    def get(self, name, ty):
        if name not in self.by_name:
            self.by_name[name] = (len(self.order) + 1, ty); self.order.append(name)
        return self.by_name[name]
    def literal(self, name, ty, concrete=None):
        k, ty = self.get(name, ty)
        if concrete is not None and name in concrete:
            v = concrete[name]
            if ty == "int": return str(v) if v >= 0 else "(0 - %d)" % (-v)
            if ty == "str": return '"%s"' % v
            if ty == "float": return float_text(float(v)) if v >= 0 else "(0.0 - %s)" % float_text(-float(v))
        if ty == "int": return str(HOLE_INT_BASE + k)
        if ty == "str": return '"' + HOLE_STR_FMT % k + '"'
        if ty == "float": return "%d.5" % (HOLE_FLOAT_BASE + k)
        raise ValueError(ty)


def show_program(prog, holes=None, concrete=None):
    holes = holes if holes is not None else Holes()
    out = []
    for st in prog:
        out.extend(show_stmt(st, 0, holes, concrete))
        out.append("")
    return "\n".join(out) + "\n", holes


def ind(n): return "    " * n


def show_block(stmts, lvl, holes, concrete):
    out = []
    for s in stmts: out.extend(show_stmt(s, lvl, holes, concrete))
    return out


def show_stmt(s, lvl, holes, concrete):
    k = s[0]; I = ind(lvl)
    E = lambda e, p=0: show_expr(e, lvl, holes, concrete, p)
    if k == "def":
        _, name, kind, ty, e = s
        if ty is None: return [I + "%s %s %s" % (name, kind, E(e))]
        return [I + "%s: %s %s %s" % (name, ty, "=" if kind == ":=" else ":", E(e))]
    if k == "assign": return [I + "%s %s %s" % (E(s[1], 9), s[2], E(s[3]))]
    if k == "expr": return [I + E(s[1])]
    if k == "loop":
        head = I + ("loop %s do" % E(s[1]) if s[1] is not None else "loop do")
        return [head] + show_block(s[2], lvl + 1, holes, concrete) + [I + "end"]
    if k == "break": return [I + "break"]
    if k == "continue": return [I + "continue"]
    if k == "ret": return [I + ("ret " + E(s[1]) if s[1] is not None else "ret")]
    if k == "unreachable": return [I + "<!>"]
    if k == "block": return [I + "do"] + show_block(s[1], lvl + 1, holes, concrete) + [I + "end"]
    if k == "blobdef":
        return [I + "%s :: blob {" % s[1]] + [ind(lvl + 1) + "%s: %s," % (f, t) for f, t in s[2]] + [I + "}"]
    if k == "enumdef":
        return [I + "%s :: enum" % s[1]] + [ind(lvl + 1) + (v if t is None else "%s %s" % (v, t)) + "," for v, t in s[2]] + [I + "end"]
    if k == "use": return [I + s[1]]
    if k == "raw": return [I + s[1]]
    raise ValueError("stmt " + repr(s))


def float_text(v):
    """exact decimal spelling X.Y of a finite non-negative double (the tokenizer has no X.YeZ form); str::parse::<f64> is correctly rounded, so it reads back the same double"""
    import decimal
    t = format(decimal.Decimal(float(v)), "f")
    return t if "." in t else t + ".0"


def show_expr(e, lvl, holes, concrete, prec=0):
    k = e[0]
    E = lambda x, p=0: show_expr(x, lvl, holes, concrete, p)
    def wrap(txt, myprec): return "(" + txt + ")" if myprec < prec else txt
    if k == "int": return str(e[1]) if e[1] >= 0 else wrap("-%d" % -e[1], 6)
    if k == "float":
        if e[1] != e[1]: raise ValueError("float literal not printable: nan")
        if e[1] in (float("inf"), float("-inf")): return "1e999" if e[1] > 0 else wrap("-1e999", 6)      # the only spelling of an infinity: a literal out of range
        return float_text(e[1]) if e[1] >= 0 else wrap("-" + float_text(-float(e[1])), 6)
    if k == "str": return '"%s"' % e[1]
    if k == "bool": return "true" if e[1] else "false"
    if k == "nil": return "nil"
    if k == "hole": return "?%s" % e[1] if e[2] == "int" else "?%s:%s" % (e[1], e[2])
    if k == "var": return e[1]
    if k == "paren": return "(" + E(e[1]) + ")"
    if k == "bin":
        p = BINPREC[e[1]]
        return wrap("%s %s %s" % (E(e[2], p), e[1], E(e[3], p + 1)), p)
    if k == "assert_eq": return wrap("%s <=> %s" % (E(e[1], 1), E(e[2], 1)), 0)
    if k == "neg": return wrap("-" + E(e[1], 7), 6)
    if k == "not": return wrap("not " + E(e[1], 7), 6)
    if k == "call": return "%s(%s)" % (E(e[1], 9), ", ".join(E(a) for a in e[2]))
    if k == "tuple":
        if len(e[1]) == 1: return "(%s,)" % E(e[1][0])
        return "(%s)" % ", ".join(E(a) for a in e[1])
    if k == "list": return "[%s]" % ", ".join(E(a) for a in e[1])
    if k == "index": return "%s[%s]" % (E(e[1], 9), E(e[2]))
    if k == "field": return "%s.%s" % (E(e[1], 9), e[2])
    if k == "blob": return "%s { %s }" % (e[1], ", ".join("%s: %s" % (f, E(x)) for f, x in e[2]))
    if k == "variant":
        if e[3] is None: return "%s.%s" % (e[1], e[2])
        return wrap("%s.%s %s" % (e[1], e[2], E(e[3], 9)), 8)
    if k == "fn":
        params = ", ".join(p if t is None else "%s: %s" % (p, t) for p, t in e[1])
        pure = len(e) > 4 and e[4]
        head = ("pu" if pure else "fn") + (" " + params if params else "")
        if e[2] == "->": head += " ->"            # inferred return type
        elif e[2] is not None: head += " -> " + e[2] + " do"
        else: head += " do"
        body = show_block(e[3], lvl + 1, holes, concrete)
        return head + "\n" + "\n".join(body) + ("\n" if body else "") + ind(lvl) + "end"
    if k == "if":
        out = []
        for i, (c, b) in enumerate(e[1]):
            if i == 0: out.append("if %s do" % E(c))
            elif c is not None: out.append(ind(lvl) + "elif %s do" % E(c))
            else: out.append(ind(lvl) + "else")
            out.extend(show_block(b, lvl + 1, holes, concrete))
        out.append(ind(lvl) + "end")
        return "(" + "\n".join(out) + ")" if prec > 0 else "\n".join(out)
    if k == "case":
        out = ["case %s do" % E(e[1])]
        for v, bind, b in e[2]:
            out.append(ind(lvl + 1) + (v if bind is None else v + " " + bind) + " ->")
            out.extend(show_block(b, lvl + 2, holes, concrete))
            out.append(ind(lvl + 1) + "end")
        if e[3] is not None:
            out.append(ind(lvl + 1) + "else")
            out.extend(show_block(e[3], lvl + 2, holes, concrete))
            out.append(ind(lvl + 1) + "end")
        out.append(ind(lvl) + "end")
        return "(" + "\n".join(out) + ")" if prec > 0 else "\n".join(out)
    raise ValueError("expr " + repr(e))


# ------------------------------------------------------------------ small constructors
def I(n): return ("int", n)
def S(s): return ("str", s)
def B(b): return ("bool", b)
def V(n): return ("var", n)
def H(name, ty="int"): return ("hole", name, ty)
def bin_(op, a, b): return ("bin", op, a, b)
def call(f, *args): return ("call", V(f) if isinstance(f, str) else f, list(args))
def defn(name, e, kind=":=", ty=None): return ("def", name, kind, ty, e)
def fn(params, body, ret=None, pure=False):
    ps = [(p, None) if isinstance(p, str) else p for p in params]
    return ("fn", ps, ret, body, pure)
def pr(e): return ("expr", call("print", e))
def ife(*arms): return ("if", list(arms))
def ex(e): return ("expr", e)
def asg(t, e, op="="): return ("assign", t, op, e)


import re as _re
_HOLE = _re.compile(r"\?([a-z_][a-z0-9_]*)(?::(str|float|int))?")


def render(text, concrete=None, holes=None):
    """template text with ?hole markers -> (Sylt source with placeholder or concrete literals, Holes)"""
    holes = holes if holes is not None else Holes()
    def sub(m):
        return holes.literal(m.group(1), m.group(2) or "int", concrete)
    # comments may not contain markers
    return _HOLE.sub(sub, text), holes


def to_text(prog):
    """AST -> template text (holes as markers)"""
    return show_program(prog)[0]
