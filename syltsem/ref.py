"""E-SY: reference semantics of the Sylt core language over the shared symbolic value layer.
Written from the property statements, the language guide and the expectations embedded in tests/**/*.sy.
Nothing is taken from intermediate.rs / lua.rs.

 * strict left-to-right evaluation of operands, callee-then-arguments, tuple/list/blob fields
 * short-circuit `and` / `or`
 * `if` / `case` are expressions: value of the trailing expression of the taken branch (nil when none)
 * `loop` with `break` / `continue`; a variable declared in a loop body is fresh per iteration
 * `ret` and trailing-expression return
 * closures capture variables (cells) by reference; parameters and `::` definitions are constants
 * blob instantiation binds `self`; blobs and lists are mutable objects with identity, tuples and variants values
 * `+` concatenates strings, arithmetic on tuples is element-wise, `/` always yields a float
 * `<=>` records assert_failed on structural inequality, `<!>` records crash
 * globals: functions first (mutually visible), other globals on demand before their first read (any order
   that respects data dependencies is equivalent for initialisers without effects)
 * integers are mathematical (holes are bounded so that nothing leaves the i64 range)"""
import z3
from vlib.sym import (SInt, SFloat, SBool, SStr, is_int, is_float, is_num, is_str, is_sym, iterm, fterm, bterm, mk_int, mk_bool,
                      to_float, rope_eq, rope_term, norm_rope, Cut, RNE)


_ESC = {"n": "\n", "t": "\t", "r": "\r", "a": "\a", "b": "\b", "f": "\f", "v": "\v", "\\": "\\", "'": "'"}
def sylt_string_value(text):
    """the value a string literal denotes: a backslash followed by one of n t r a b f v \\ ' is that escape, every other backslash is a backslash"""
    if not isinstance(text, str) or "\\" not in text: return text
    out = []; i = 0
    while i < len(text):
        c = text[i]
        if c == "\\" and i + 1 < len(text) and text[i + 1] in _ESC: out.append(_ESC[text[i + 1]]); i += 2
        else: out.append(c); i += 1
    return "".join(out)


class RefStuck(Exception):
    """the reference semantics has no rule: the template is ill-typed or outside the modelled core"""


class Cell:
    __slots__ = ("v", "const", "init")
    def __init__(self, v, const=False): self.v = v; self.const = const; self.init = True
class RTuple:
    __slots__ = ("items",)
    def __init__(self, items): self.items = items
class RList:
    __slots__ = ("items",)
    def __init__(self, items): self.items = items
class RBlob:
    __slots__ = ("name", "fields")
    def __init__(self, name, fields): self.name = name; self.fields = fields
class RVariant:
    __slots__ = ("enum", "name", "payload")
    def __init__(self, enum, name, payload): self.enum, self.name, self.payload = enum, name, payload
class RClosure:
    __slots__ = ("params", "body", "env", "name")
    def __init__(self, params, body, env, name="lambda"): self.params, self.body, self.env, self.name = params, body, env, name
class RBuiltin:
    __slots__ = ("name", "f")
    def __init__(self, name, f): self.name, self.f = name, f
class RNil:
    def __repr__(self): return "nil"
NIL = RNil()


class BreakEx(Exception): pass
class ContinueEx(Exception): pass
class ReturnEx(Exception):
    def __init__(self, v): self.v = v
class Failure(Exception):
    """assert_failed / crash / runtime_assert"""
    def __init__(self, outcome): self.outcome = outcome


class Env:
    __slots__ = ("vars", "up")
    def __init__(self, up): self.vars = {}; self.up = up
    def find(self, n):
        e = self
        while e is not None:
            if n in e.vars: return e.vars[n]
            e = e.up
        return None


class Ref:
    def __init__(self, forker=None, hole_values=None, loop_bound=None, call_depth=None, max_steps=200000):
        self.fk = forker; self.holes = hole_values or {}
        self.events = []; self.loop_bound = loop_bound; self.call_depth = call_depth; self.depth = 0
        self.steps = 0; self.max_steps = max_steps
        self.globals = Env(None); self.pending = {}; self.forcing = set()
        self.enums = {}; self.blobs = {}
        self.install()
        from syltsem import stdmodel
        stdmodel.install(self)

    def branch(self, c):
        if isinstance(c, bool): return c
        if isinstance(c, SBool): return self.fk.branch(c)
        raise RefStuck("condition is not a bool: %r" % (c,))

    # ------------------------------------------------------------------ library (the std subset templates may use)
    def install(self):
        g = self.globals.vars
        def b(name, f): g[name] = Cell(RBuiltin(name, f), True)
        b("print", lambda v: (self.events.append(("print", self.snapshot(v))), NIL)[1])
        def as_str(v):
            if isinstance(v, int) and not isinstance(v, bool): return str(v)
            if isinstance(v, SInt): return SStr([("i", v.t)])
            if isinstance(v, SFloat): return SStr([("f", v.t)])
            if isinstance(v, float):
                from vlib.sym import fmt_float
                return fmt_float(v)
            if is_str(v): return v
            if isinstance(v, bool): return "true" if v else "false"
            if isinstance(v, SBool): return "true" if self.fk.branch(v) else "false"
            raise RefStuck("as_str of a composite value is implementation defined")
        b("as_str", as_str)
        def push(l, v):
            if not isinstance(l, RList): raise RefStuck("push on non-list")
            l.items.append(v); return NIL
        def length(l):
            if isinstance(l, RList): return len(l.items)
            raise RefStuck("len of %r" % (l,))
        self.modules = {"list": {"push": RBuiltin("list.push", push), "len": RBuiltin("list.len", length)}}
        b("as_float", lambda v: to_float(v))
        def for_each(l, f):
            for x in list(l.items): self.call(f, [x])
            return NIL
        b("for_each", for_each)
        b("map", lambda l, f: RList([self.call(f, [x]) for x in list(l.items)]))
        def fold(l, a, f):
            for x in list(l.items): a = self.call(f, [x, a])
            return a
        b("fold", fold)
        def filt(l, f):
            out = []
            for x in list(l.items):
                if self.branch(self.call(f, [x])): out.append(x)
            return RList(out)
        b("filter", filt)

    # ------------------------------------------------------------------ snapshots (what `print` shows, structurally)
    def snapshot(self, v, depth=0):
        if depth > 8: return ("deep",)
        if v is NIL or v is None: return ("nil",)
        if isinstance(v, (bool, SBool)): return ("bool", v)
        if is_int(v): return ("int", v)
        if is_float(v): return ("float", v)
        if is_str(v): return ("str", v)
        if isinstance(v, RTuple): return ("tuple", [self.snapshot(x, depth + 1) for x in v.items])
        if isinstance(v, RList): return ("list", [self.snapshot(x, depth + 1) for x in v.items])
        if isinstance(v, RBlob): return ("blob", {k: self.snapshot(c.v, depth + 1) for k, c in v.fields.items() if not isinstance(c.v, (RClosure, RBuiltin))})
        if isinstance(v, RVariant): return ("variant", v.name, self.snapshot(v.payload, depth + 1))
        if isinstance(v, (RClosure, RBuiltin)): return ("fn",)
        if type(v).__name__ == "RSet": return ("set", sorted(repr(self.snapshot(x, depth + 1)) for x in v.items))
        if type(v).__name__ == "RDict": return ("dict", sorted(repr(("tuple", [self.snapshot(e[0], depth + 1), self.snapshot(e[1], depth + 1)])) for e in v.items))
        raise RefStuck("snapshot of %r" % (v,))

    # ------------------------------------------------------------------ equality / order / arithmetic
    def equal(self, a, b):
        """python bool | SBool ; structural"""
        if a is NIL or b is NIL: return a is b
        if isinstance(a, (bool, SBool)) and isinstance(b, (bool, SBool)):
            if isinstance(a, bool) and isinstance(b, bool): return a == b
            return mk_bool(bterm(a) == bterm(b))
        if is_int(a) and is_int(b):
            if not (is_sym(a) or is_sym(b)): return a == b
            return mk_bool(iterm(a) == iterm(b))
        if is_float(a) and is_float(b):
            if not (is_sym(a) or is_sym(b)): return a == b
            return mk_bool(z3.fpEQ(fterm(a), fterm(b)))
        if is_num(a) and is_num(b): raise RefStuck("int == float is a type error")
        if is_str(a) and is_str(b):
            r = rope_eq(a, b); return r if isinstance(r, bool) else mk_bool(r)
        if isinstance(a, (RTuple, RList)) and type(a) is type(b):
            if len(a.items) != len(b.items): return False
            return self.conj([self.equal(x, y) for x, y in zip(a.items, b.items)])
        if isinstance(a, RBlob) and isinstance(b, RBlob):
            if a is b: return True
            if set(a.fields) != set(b.fields): return False
            return self.conj([self.equal(a.fields[k].v, b.fields[k].v) for k in a.fields])
        if isinstance(a, RVariant) and isinstance(b, RVariant):
            if a.name != b.name: return False
            return self.equal(a.payload, b.payload)
        if isinstance(a, (RClosure, RBuiltin)) and isinstance(b, (RClosure, RBuiltin)): return a is b
        if type(a).__name__ == "RSet" and type(b).__name__ == "RSet":          # std sets (stdmodel): same elements
            if len(a.items) != len(b.items): return False
            for x in a.items:
                if not any(self.branch(self.equal(x, y)) for y in b.items): return False
            return True
        raise RefStuck("== on %r and %r" % (type(a).__name__, type(b).__name__))
    @staticmethod
    def conj(cs):
        ts = []
        for c in cs:
            if c is False: return False
            if c is True: continue
            ts.append(c.t)
        if not ts: return True
        return mk_bool(z3.And(ts))
    def less(self, a, b, strict=True):
        if is_num(a) and is_num(b):
            if not (is_sym(a) or is_sym(b)): return (a < b) if strict else (a <= b)
            if is_int(a) and is_int(b): return mk_bool(iterm(a) < iterm(b) if strict else iterm(a) <= iterm(b))
            x, y = fterm(to_float(a)), fterm(to_float(b))
            return mk_bool(z3.fpLT(x, y) if strict else z3.fpLEQ(x, y))
        if is_str(a) and is_str(b):
            if isinstance(a, str) and isinstance(b, str):
                ab, bb = a.encode(), b.encode(); return (ab < bb) if strict else (ab <= bb)
            x, y = rope_term(a), rope_term(b); return mk_bool(x < y if strict else x <= y)
        if isinstance(a, RTuple) and isinstance(b, RTuple) and len(a.items) == len(b.items):
            # lexicographic: the first differing position decides
            for x, y in zip(a.items, b.items):
                if not self.branch(self.equal(x, y)): return self.less(x, y, True)
            return not strict
        raise RefStuck("order on %r and %r" % (type(a).__name__, type(b).__name__))
    def arith(self, op, a, b):
        if isinstance(a, RTuple) and isinstance(b, RTuple):
            if len(a.items) != len(b.items): raise RefStuck("tuple length mismatch")
            return RTuple([self.arith(op, x, y) for x, y in zip(a.items, b.items)])
        if isinstance(a, RTuple) and is_num(b) and op == "/":
            return RTuple([self.arith(op, x, b) for x in a.items])
        if op == "+" and is_str(a) and is_str(b):
            if isinstance(a, str) and isinstance(b, str):
                if self.fk is not None and len(a) + len(b) > (1 << 16): raise Cut("string longer than 65536 characters")
                return a + b
            r = SStr(([a] if isinstance(a, str) else a.parts) + ([b] if isinstance(b, str) else b.parts))
            if len(r.parts) > 4096: raise Cut("string of more than 4096 pieces")
            return r
        if not (is_num(a) and is_num(b)): raise RefStuck("arithmetic %s on %r and %r" % (op, type(a).__name__, type(b).__name__))
        if op == "/":
            x, y = to_float(a), to_float(b)
            if not (is_sym(x) or is_sym(y)):
                import math
                if y == 0: return math.nan if (x == 0 or x != x) else math.copysign(math.inf, x) * math.copysign(1, y)
                return x / y
            return SFloat(z3.fpDiv(RNE, fterm(x), fterm(y)))
        if is_int(a) and is_int(b):
            if not (is_sym(a) or is_sym(b)):
                r = {"+": a + b, "-": a - b, "*": a * b}[op]
                # ints are modelled as mathematical integers; what a 64-bit overflow denotes is not specified: the path is outside the claim
                if not (-2**63 <= r < 2**63): raise Cut("integer result outside the 64-bit range")
                return r
            x, y = iterm(a), iterm(b)
            return mk_int({"+": x + y, "-": x - y, "*": x * y}[op])
        if is_float(a) and is_float(b):
            if not (is_sym(a) or is_sym(b)): return {"+": a + b, "-": a - b, "*": a * b}[op]
            x, y = fterm(a), fterm(b)
            return SFloat({"+": z3.fpAdd, "-": z3.fpSub, "*": z3.fpMul}[op](RNE, x, y))
        raise RefStuck("mixed int/float arithmetic is a type error")
    def negate(self, v):
        if isinstance(v, bool): raise RefStuck("-bool")
        if isinstance(v, (int, float)): return -v
        if isinstance(v, SInt): return mk_int(-v.t)
        if isinstance(v, SFloat): return SFloat(z3.fpNeg(v.t))
        if isinstance(v, RTuple): return RTuple([self.negate(x) for x in v.items])
        raise RefStuck("negation of %r" % (v,))

    # ------------------------------------------------------------------ expressions
    def ev(self, e, env):
        k = e[0]
        self.steps += 1
        if self.steps > self.max_steps: raise Cut("step budget")
        if k == "str": return sylt_string_value(e[1])
        if k in ("int", "float", "bool"): return e[1]
        if k == "nil": return NIL
        if k == "hole": return self.holes[e[1]]
        if k == "paren": return self.ev(e[1], env)
        if k == "var":
            c = env.find(e[1])
            if c is None:
                c = self.force_global(e[1])
            if not c.init: raise RefStuck("read of %s before initialisation" % e[1])
            return c.v
        if k == "bin":
            op = e[1]
            if op == "and":
                a = self.ev(e[2], env)
                return self.as_bool(self.ev(e[3], env)) if self.branch(a) else False
            if op == "or":
                a = self.ev(e[2], env)
                return True if self.branch(a) else self.as_bool(self.ev(e[3], env))
            a = self.ev(e[2], env); b = self.ev(e[3], env)
            if op == "==": return self.equal(a, b)
            if op == "!=":
                r = self.equal(a, b); return (not r) if isinstance(r, bool) else mk_bool(z3.Not(r.t))
            if op == "<": return self.less(a, b, True)
            if op == "<=": return self.less(a, b, False)
            if op == ">": return self.less(b, a, True)
            if op == ">=": return self.less(b, a, False)
            return self.arith(op, a, b)
        if k == "assert_eq":
            a = self.ev(e[1], env); b = self.ev(e[2], env)
            if not self.branch(self.equal(a, b)): raise Failure(("assert_failed",))
            return True
        if k == "neg": return self.negate(self.ev(e[1], env))
        if k == "not":
            v = self.ev(e[1], env)
            if isinstance(v, bool): return not v
            if isinstance(v, SBool): return mk_bool(z3.Not(v.t))
            raise RefStuck("not on non-bool")
        if k == "call":
            f = self.ev(e[1], env)
            args = [self.ev(a, env) for a in e[2]]
            return self.call(f, args)
        if k == "tuple": return RTuple([self.ev(x, env) for x in e[1]])
        if k == "list": return RList([self.ev(x, env) for x in e[1]])
        if k == "index":
            a = self.ev(e[1], env); i = self.ev(e[2], env)
            return self.index(a, i)
        if k == "field":
            if e[1][0] == "var" and env.find(e[1][1]) is None and e[1][1] in self.modules:
                m = self.modules[e[1][1]]
                if e[2] not in m: raise RefStuck("module %s has no modelled member %s" % (e[1][1], e[2]))
                return m[e[2]]
            a = self.ev(e[1], env)
            if not isinstance(a, RBlob) or e[2] not in a.fields: raise RefStuck("no field " + e[2])
            return a.fields[e[2]].v
        if k == "blob":
            blob = RBlob(e[1], {})
            benv = Env(env); benv.vars["self"] = Cell(blob, True)
            for f, x in e[2]:
                # `self` names the instance inside a field that is a function literal (a method); every other field expression is
                # evaluated in the surrounding scope (where `self`, if any, is the instance of an enclosing method)
                blob.fields[f] = Cell(self.ev(x, benv if isinstance(x, tuple) and x and x[0] == "fn" else env))
            return blob
        if k == "variant":
            return RVariant(e[1], e[2], NIL if e[3] is None else self.ev(e[3], env))
        if k == "fn":
            return RClosure([p for p, _ in e[1]], e[3], env)
        if k == "if":
            for c, body in e[1]:
                if c is None or self.branch(self.ev(c, env)):
                    return self.block_value(body, Env(env))
            return NIL
        if k == "case":
            v = self.ev(e[1], env)
            if not isinstance(v, RVariant): raise RefStuck("case on non-variant")
            for name, bind, body in e[2]:
                if name == v.name:
                    benv = Env(env)
                    if bind is not None: benv.vars[bind] = Cell(v.payload, True)
                    return self.block_value(body, benv)
            if e[3] is not None: return self.block_value(e[3], Env(env))
            return NIL
        raise RefStuck("expression " + k)
    def as_bool(self, v):
        if isinstance(v, (bool, SBool)): return v
        raise RefStuck("non-bool operand of and/or")
    def index(self, a, i):
        if isinstance(a, (RTuple, RList)):
            n = len(a.items)
            if is_sym(i):
                opts = [(j, i.t == j) for j in range(n)] + [("oob", z3.Or(i.t < 0, i.t >= n))]
                ch = self.fk.decide(opts)
                if ch == "oob": raise Failure(("runtime_assert", "index out of range"))
                return a.items[ch]
            if not (0 <= i < n): raise Failure(("runtime_assert", "index out of range"))
            return a.items[i]
        raise RefStuck("index of %r" % (a,))
    def call(self, f, args):
        if isinstance(f, RBuiltin): return f.f(*args)
        if not isinstance(f, RClosure): raise RefStuck("call of non-function")
        if len(args) != len(f.params): raise RefStuck("arity")
        self.depth += 1
        if self.call_depth is not None and self.depth > self.call_depth:
            self.depth -= 1; raise Cut("call depth %d" % self.call_depth)
        try:
            env = Env(f.env)
            for p, a in zip(f.params, args): env.vars[p] = Cell(a, True)
            try:
                return self.block_value(f.body, env)
            except ReturnEx as r:
                return r.v
            except (BreakEx, ContinueEx):
                raise RefStuck("break/continue crossing a function boundary")
        finally:
            self.depth -= 1
    def block_value(self, body, env):
        """runs the statements; the value is the trailing expression statement's value, else nil"""
        v = NIL
        for i, s in enumerate(body):
            if i == len(body) - 1 and s[0] == "expr": v = self.ev(s[1], env)
            else: self.stmt(s, env)
        return v

    # ------------------------------------------------------------------ statements
    def stmt(self, s, env):
        k = s[0]
        self.steps += 1
        if self.steps > self.max_steps: raise Cut("step budget")
        if k == "def":
            _, name, kind, ty, e = s
            if e[0] == "fn":
                c = Cell(None, kind == "::"); env.vars[name] = c       # a function may refer to itself
                c.v = self.ev(e, env)
            else:
                v = self.ev(e, env)
                env.vars[name] = Cell(v, kind == "::")
        elif k == "assign":
            _, target, op, e = s
            if target[0] == "var":
                c = env.find(target[1]) or self.force_global(target[1])
                if c.const: raise RefStuck("assignment to constant " + target[1])
                if op == "=": c.v = self.ev(e, env)
                else:
                    cur = c.v; c.v = self.arith(op[0], cur, self.ev(e, env))
            elif target[0] == "index":
                a = self.ev(target[1], env); i = self.ev(target[2], env)
                if not isinstance(a, RList): raise RefStuck("index assignment to non-list")
                cur = self.index(a, i) if True else None
                v = self.ev(e, env) if op == "=" else self.arith(op[0], cur, self.ev(e, env))
                self.set_index(a, i, v)
            elif target[0] == "field":
                a = self.ev(target[1], env)
                if not isinstance(a, RBlob) or target[2] not in a.fields: raise RefStuck("field assignment")
                cur = a.fields[target[2]].v
                a.fields[target[2]].v = self.ev(e, env) if op == "=" else self.arith(op[0], cur, self.ev(e, env))
            else: raise RefStuck("assignment target")
        elif k == "expr": self.ev(s[1], env)
        elif k == "loop":
            it = 0; d0 = len(self.fk.decisions) if self.fk else 0
            while True:
                if s[1] is not None and not self.branch(self.ev(s[1], env)): break
                it += 1
                if self.fk is not None and it > 20000: raise Cut("more than 20000 iterations of one loop")
                if self.loop_bound is not None and it > self.loop_bound and self.fk is not None and len(self.fk.decisions) > d0:
                    raise Cut("loop bound %d" % self.loop_bound)
                try:
                    benv = Env(env)
                    for st in s[2]: self.stmt(st, benv)
                except BreakEx: break
                except ContinueEx: continue
        elif k == "break": raise BreakEx()
        elif k == "continue": raise ContinueEx()
        elif k == "ret": raise ReturnEx(NIL if s[1] is None else self.ev(s[1], env))
        elif k == "unreachable": raise Failure(("crash",))
        elif k == "block":
            benv = Env(env)
            for st in s[1]: self.stmt(st, benv)
        elif k in ("blobdef", "enumdef", "use", "raw"): pass
        else: raise RefStuck("statement " + k)
    def set_index(self, a, i, v):
        n = len(a.items)
        if is_sym(i):
            opts = [(j, i.t == j) for j in range(n)] + [("oob", z3.Or(i.t < 0, i.t >= n))]
            ch = self.fk.decide(opts)
            if ch == "oob": raise Failure(("runtime_assert", "index out of range"))
            a.items[ch] = v; return
        if not (0 <= i < n): raise Failure(("runtime_assert", "index out of range"))
        a.items[i] = v

    # ------------------------------------------------------------------ programs
    def force_global(self, name):
        c = self.globals.vars.get(name)
        if c is not None and c.init: return c
        if name not in self.pending: raise RefStuck("unknown name " + name)
        if name in self.forcing: raise RefStuck("cyclic global initialisation through " + name)
        self.forcing.add(name)
        kind, e = self.pending[name]
        v = self.ev(e, self.globals)
        c = self.globals.vars.get(name)
        if c is None: c = Cell(None, kind == "::"); self.globals.vars[name] = c
        c.v = v; c.init = True; c.const = kind == "::"
        self.forcing.discard(name); del self.pending[name]
        return c
    def run_program(self, prog, modules=None):
        """prog: list of top-level statements of the main module (single-file programs)"""
        outcome = ("ok",)
        try:
            order = []
            for s in prog:
                if s[0] == "def":
                    _, name, kind, ty, e = s
                    if e[0] == "fn":
                        self.globals.vars[name] = Cell(RClosure([p for p, _ in e[1]], e[3], self.globals, name), True)
                    else:
                        self.pending[name] = (kind, e); order.append(name)
            for name in order:
                if name in self.pending: self.force_global(name)
            start = self.globals.vars.get("start")
            if start is None: raise RefStuck("no start")
            self.call(start.v, [])
        except Failure as f:
            outcome = f.outcome
        except (BreakEx, ContinueEx):
            raise RefStuck("break/continue outside a loop")
        return outcome
