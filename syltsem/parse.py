"""A parser for the Sylt core language into the E-SY AST, written from the language guide and the property
statements (C13 precedence table, C14 sugar rules). It is the *reference's* reader: templates are written as
Sylt text with hole markers, and programs of the repo's own corpus that stay inside the core language can be
used as templates too.

Hole markers (not Sylt): ?name (int hole), ?name:str, ?name:float.
Anything outside the core subset raises Outside."""
import re

class Outside(Exception): pass

KEYWORDS = set("if elif else case do end loop break continue ret fn pu and or not blob enum use from as external true false nil in is externblob".split())
TOK = re.compile(r"""
    (?P<ws>[ \t\r]+)|(?P<com>//[^\n]*)|(?P<nl>\n)|
    (?P<hole>\?[a-z_][a-z0-9_]*(?::(?:str|float|int))?)|
    (?P<float>\d+\.\d*|\.\d+|\d+e[-+]?\d+)|(?P<int>\d+)|
    (?P<str>"[^"]*")|
    (?P<name>[A-Za-z_][A-Za-z0-9_]*)|
    (?P<op><=>|<!>|->|::|:=|==|!=|<=|>=|\+=|-=|\*=|/=|[-+*/=<>(){}\[\],.:'!?|\#])
""", re.X)


def lex(src):
    out = []; i = 0; depth = 0
    while i < len(src):
        m = TOK.match(src, i)
        if not m: raise Outside("cannot tokenise at %r" % src[i:i + 20])
        k = m.lastgroup; t = m.group(0); i = m.end()
        if k in ("ws", "com"): continue
        if k == "nl":
            out.append(("nl", "\n")); continue
        if k == "name" and t in KEYWORDS: k = "kw"
        out.append((k, t))
    out.append(("eof", None))
    return out


BINPREC = {"or": 2, "and": 3, "==": 4, "!=": 4, "<": 4, "<=": 4, ">": 4, ">=": 4, "+": 5, "-": 5, "*": 6, "/": 6}
# `<=>` (1) is the loosest; unary binds tighter than + - and looser than postfix


class P:
    def __init__(self, toks):
        self.t = toks; self.i = 0; self.skipnl = 0
    def peek(self, o=0):
        j = self.i
        if self.skipnl:
            while self.t[j][0] == "nl": j += 1
        while o:
            j += 1
            if self.skipnl:
                while self.t[j][0] == "nl": j += 1
            o -= 1
        return self.t[j]
    def nxt(self):
        if self.skipnl:
            while self.t[self.i][0] == "nl": self.i += 1
        self.i += 1; return self.t[self.i - 1]
    def at(self, v, o=0):
        k, x = self.peek(o); return k in ("op", "kw") and x == v
    def eat(self, v):
        if self.at(v): self.nxt(); return True
        return False
    def expect(self, v):
        if not self.eat(v): raise Outside("expected %r, got %r" % (v, self.peek()))
    def skip_newlines(self):
        while self.t[self.i][0] == "nl": self.i += 1
    def name(self):
        k, x = self.nxt()
        if k != "name": raise Outside("expected a name, got %r" % (x,))
        return x

    # ---- types are kept as text
    def type_text(self, stop=()):
        """reads one type (grammar of the guide: int float str bool void nil, *T, Name, Name(T, ..), (T, ..), [T],
        fn T, .. -> T, pu ..) and returns its text"""
        k, x = self.t[self.i]
        if k == "kw" and x in ("fn", "pu"):
            self.i += 1; out = x; ps = []
            if self.t[self.i][1] == "<": raise Outside("constrained function type")
            while True:
                k2, x2 = self.t[self.i]
                if x2 == "->":
                    self.i += 1
                    k3, x3 = self.t[self.i]
                    if k3 in ("nl", "eof") or x3 in (",", ")", "do", "=", ":"): ret = "void"
                    else: ret = self.type_text()
                    return out + (" " + ", ".join(ps) if ps else "") + " -> " + ret
                if k2 in ("nl", "eof"): raise Outside("function type without ->")
                ps.append(self.type_text())
                if self.t[self.i][1] == ",": self.i += 1
        if k == "op" and x == "*":
            self.i += 1
            if self.t[self.i][0] == "name": self.i += 1; return "*" + self.t[self.i - 1][1]
            return "*"
        if k == "op" and x == "(":
            self.i += 1; ts = []; trailing = False
            while self.t[self.i][1] != ")":
                ts.append(self.type_text()); trailing = False
                if self.t[self.i][1] == ",": self.i += 1; trailing = True
            self.i += 1
            if len(ts) == 1 and trailing: return "(%s,)" % ts[0]
            return "(" + ", ".join(ts) + ")"
        if k == "op" and x == "[":
            self.i += 1; t = self.type_text()
            if self.t[self.i][1] != "]": raise Outside("list type")
            self.i += 1; return "[" + t + "]"
        if k == "op" and x == "{": raise Outside("dict/set type")
        if k == "kw" and x == "nil": self.i += 1; return "nil"
        if k == "name":
            self.i += 1; out = x
            while self.t[self.i][1] == "." and self.t[self.i + 1][0] == "name": out += "." + self.t[self.i + 1][1]; self.i += 2
            if self.t[self.i][1] == "(" and out.split(".")[-1][0].isupper():
                self.i += 1; ts = []
                while self.t[self.i][1] != ")":
                    ts.append(self.type_text())
                    if self.t[self.i][1] == ",": self.i += 1
                self.i += 1; out += "(" + ", ".join(ts) + ")"
            return out
        raise Outside("type starting with %r" % (x,))

    # ---- program
    def program(self):
        out = []
        while True:
            self.skip_newlines()
            if self.peek()[0] == "eof": return out
            out.append(self.statement(top=True))
    def block(self, terms=("end",)):
        """statements until one of the terminators (not consumed)"""
        out = []
        while True:
            self.skip_newlines()
            k, x = self.peek()
            if k == "eof": raise Outside("unterminated block")
            if k == "kw" and x in terms: return out
            out.append(self.statement())
    def statement(self, top=False):
        save, self.skipnl = self.skipnl, 0
        try:
            return self._statement(top)
        finally:
            self.skipnl = save
    def _statement(self, top):
        k, x = self.peek()
        if k == "kw":
            if x in ("use", "from"):
                line = []
                d = 0
                while True:
                    kk, xx = self.t[self.i]
                    if kk == "eof" or (kk == "nl" and d == 0): break
                    if xx == "(": d += 1
                    if xx == ")": d -= 1
                    if kk != "nl": line.append(xx)
                    self.i += 1
                return ("use", " ".join(line).replace(" / ", "/").replace("( ", "(").replace(" )", ")").replace(" ,", ","))
            if x == "loop":
                self.nxt()
                cond = None
                if not self.at("do"): cond = self.expr_nl()
                self.expect("do"); body = self.block(); self.expect("end")
                return ("loop", cond, body)
            if x == "break": self.nxt(); return ("break",)
            if x == "continue": self.nxt(); return ("continue",)
            if x == "ret":
                self.nxt()
                if self.peek()[0] in ("nl", "eof") or self.at("end"): return ("ret", None)
                return ("ret", self.expr())
            if x == "do":
                self.nxt(); body = self.block(); self.expect("end"); return ("block", body)
        if k == "op" and x == "<!>": self.nxt(); return ("unreachable",)
        if k == "name":
            # definitions:  n :: e   n := e   n: T = e   n: T : e
            k1, x1 = self.peek(1)
            if k1 == "op" and x1 in ("::", ":="):
                n = self.name(); self.nxt()
                if x1 == "::" and self.at("blob"): return self.blobdef(n)
                if x1 == "::" and self.at("enum"): return self.enumdef(n)
                return ("def", n, x1, None, self.expr())
            if k1 == "op" and x1 == ":" :
                n = self.name(); self.nxt()
                ty = self.type_text(("=", ":"))
                if self.eat("="): kind = ":="
                elif self.eat(":"): kind = "::"
                else: raise Outside("definition without value")
                if self.at("external"): raise Outside("external definition")
                return ("def", n, kind, ty, self.expr())
        e = self.expr()
        k, x = self.peek()
        if k == "op" and x in ("=", "+=", "-=", "*=", "/="):
            self.nxt()
            if e[0] not in ("var", "index", "field"): raise Outside("assignment target")
            return ("assign", e, x, self.expr())
        return ("expr", e)
    def blobdef(self, n):
        self.expect("blob")
        if self.at("("): raise Outside("generic blob")
        self.expect("{"); fields = []
        save, self.skipnl = self.skipnl, 1
        while not self.at("}"):
            f = self.name(); self.expect(":"); ty = self.type_text((",",)); fields.append((f, ty)); self.eat(",")
        self.expect("}")
        self.skipnl = save
        return ("blobdef", n, fields)
    def enumdef(self, n):
        self.expect("enum")
        if self.at("("): raise Outside("generic enum")
        vs = []
        save, self.skipnl = self.skipnl, 1
        while not self.at("end"):
            v = self.name(); ty = None
            if not (self.at(",") or self.at("end")) and self.t[self.i][0] != "nl": ty = self.type_text()
            vs.append((v, ty or None)); self.eat(",")
        self.expect("end")
        self.skipnl = save
        return ("enumdef", n, vs)

    # ---- expressions
    def expr_nl(self):
        save, self.skipnl = self.skipnl, 1
        try: return self.expr()
        finally: self.skipnl = save
    def expr(self, minprec=0):
        left = self.unary()
        while True:
            k, x = self.peek()
            if k in ("op", "kw") and x == "<=>" and minprec <= 1:
                self.nxt(); right = self.expr(2); left = ("assert_eq", left, right); continue
            if k in ("op", "kw") and x in BINPREC and BINPREC[x] >= minprec and minprec <= BINPREC[x]:
                p = BINPREC[x]; self.nxt(); right = self.expr(p + 1); left = ("bin", x, left, right); continue
            if k == "op" and x == "->" and minprec <= 0:
                # a -> f(b)  means  f(a, b)
                self.nxt(); rhs = self.expr(2)
                left = self.arrow(left, rhs); continue
            return left
    def arrow(self, lhs, rhs):
        if rhs[0] == "call": return ("call", rhs[1], [lhs] + rhs[2])
        raise Outside("arrow into a non-call")
    def unary(self):
        k, x = self.peek()
        if k == "op" and x == "-": self.nxt(); return ("neg", self.factor_operand())
        if k == "kw" and x == "not": self.nxt(); return ("not", self.factor_operand())
        return self.postfix()
    def factor_operand(self):
        # the operand of a unary operator extends over * and / (C13 leaves unary vs * / open; templates parenthesise)
        left = self.unary()
        while True:
            k, x = self.peek()
            if k == "op" and x in ("*", "/"):
                self.nxt(); right = self.unary(); left = ("bin", x, left, right)
            else: return left
    def postfix(self):
        e = self.primary()
        while True:
            k, x = self.peek()
            if k == "op" and x == "(" and not (self.t[self.i - 1][0] == "nl"):
                self.nxt(); args = self.args(")"); e = ("call", e, args)
            elif k == "op" and x == "'":
                self.nxt(); args = []
                while True:
                    kk, xx = self.peek()
                    if kk in ("nl", "eof") or (kk in ("op", "kw") and xx in (")", "]", "}", "end", "do", "else", "elif", "->", "=", ",")): break
                    args.append(self.expr(2))
                    if not self.eat(","): break
                e = ("call", e, args)
            elif k == "op" and x == "[":
                self.nxt(); i = self.expr_nl(); self.expect("]"); e = ("index", e, i)
            elif k == "op" and x == ".":
                self.nxt(); n = self.name()
                if e[0] == "var" and e[1][0].isupper() and n[0].isupper():
                    # Enum.Variant [payload]
                    kk, xx = self.peek()
                    payload = None
                    if not (kk in ("nl", "eof") or (kk in ("op", "kw") and xx in (")", "]", "}", "end", "do", "else", "elif", "->", "=", ",", "==", "!=", "<=>", "and", "or", "+", "*", "/", "<", ">", "<=", ">="))):
                        payload = self.expr(2)
                    e = ("variant", e[1], n, payload)
                else: e = ("field", e, n)
            else: return e
    def args(self, close):
        save, self.skipnl = self.skipnl, 1
        out = []
        while not self.at(close):
            out.append(self.expr())
            if not self.eat(","): break
        self.skipnl = save
        self.expect(close)
        return out
    def primary(self):
        k, x = self.peek()
        if k == "int": self.nxt(); return ("int", int(x))
        if k == "float": self.nxt(); return ("float", float(x))
        if k == "str": self.nxt(); return ("str", x[1:-1])
        if k == "hole":
            self.nxt(); n = x[1:]; ty = "int"
            if ":" in n: n, ty = n.split(":")
            return ("hole", n, ty)
        if k == "kw":
            if x in ("true", "false"): self.nxt(); return ("bool", x == "true")
            if x == "nil": self.nxt(); return ("nil",)
            if x in ("fn", "pu"): return self.function()
            if x == "if": return self.if_expr()
            if x == "case": return self.case_expr()
            raise Outside("unexpected keyword %r" % x)
        if k == "name":
            self.nxt()
            if x[0].isupper() and self.at("{") :
                self.nxt(); fields = []
                save, self.skipnl = self.skipnl, 1
                while not self.at("}"):
                    f = self.name(); self.expect(":"); fields.append((f, self.expr())); self.eat(",")
                self.expect("}")
                self.skipnl = save
                return ("blob", x, fields)
            return ("var", x)
        if k == "op" and x == "(":
            self.nxt(); save, self.skipnl = self.skipnl, 1
            items = []; is_tuple = False
            if self.at(")"): is_tuple = True
            while not self.at(")"):
                items.append(self.expr())
                if self.eat(","): is_tuple = True
                else: break
            self.skipnl = save
            self.expect(")")
            if is_tuple: return ("tuple", items)
            return ("paren", items[0])
        if k == "op" and x == "[":
            self.nxt(); return ("list", self.args("]"))
        raise Outside("unexpected token %r" % (x,))
    def function(self):
        pure = self.nxt()[1] == "pu"
        params = []; ret = None
        while True:
            k, x = self.peek()
            if k == "name":
                self.nxt(); ty = None
                if self.eat(":"): ty = self.type_text((",", "->", "do"))
                params.append((x, ty)); self.eat(",")
            elif k == "op" and x == "->":
                self.nxt()
                # a return type, or the body directly
                k2, x2 = self.peek()
                if k2 == "nl": ret = "->"; break
                j = self.i
                try:
                    ty = self.type_text()
                    if self.at("do"): ret = ty
                    else: self.i = j; ret = "->"
                except Outside:
                    self.i = j; ret = "->"
                break
            elif k == "kw" and x == "do": break
            else: raise Outside("function header")
        self.eat("do")
        body = self.block(); self.expect("end")
        return ("fn", params, ret, body, pure)
    def if_expr(self):
        self.expect("if"); arms = []
        c = self.expr_nl(); self.expect("do"); arms.append((c, self.block(("end", "else", "elif"))))
        while True:
            if self.eat("elif"):
                c = self.expr_nl(); self.expect("do"); arms.append((c, self.block(("end", "else", "elif"))))
            elif self.eat("else"):
                self.eat("do"); arms.append((None, self.block(("end",)))); self.expect("end"); break
            else: self.expect("end"); break
        return ("if", arms)
    def case_expr(self):
        self.expect("case"); e = self.expr_nl(); self.expect("do"); arms = []; els = None
        while True:
            self.skip_newlines()
            k, x = self.peek()
            if k == "kw" and x == "else":
                self.nxt(); els = self.block(("end",)); self.expect("end"); continue
            if k == "kw" and x == "end": self.nxt(); break
            v = self.name(); bind = None
            if self.peek()[0] == "name": bind = self.name()
            self.expect("->"); body = self.block(("end",)); self.expect("end")
            arms.append((v, bind, body))
        return ("case", e, arms, els)


def parse_program(src):
    return P(lex(src)).program()


def strip_parens(e):
    """drop ("paren", x) nodes (they are layout)"""
    if isinstance(e, tuple):
        if e and e[0] == "paren": return strip_parens(e[1])
        return tuple(strip_parens(x) for x in e)
    if isinstance(e, list): return [strip_parens(x) for x in e]
    return e
