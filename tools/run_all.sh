#!/bin/bash
# usage: run_all.sh [quick|thorough]  -- runs every registered check on /repo's working tree, prints one line per check
T=${1:-quick}; mkdir -p /tmp/sylt_verif_scratch/logs
for id in C01 C02 C03 C04 C05 C06 C07 C08 C09 C10 C11 C12 C13 C14 C15 C16 C17 C18 C19 C20; do
  s=$(date +%s); python3-vt /verif/run.py $id --tier $T > /tmp/sylt_verif_scratch/logs/$id.$T.log 2>&1; rc=$?
  echo "$id rc=$rc $(( $(date +%s) - s ))s viol=$(grep -c '^VIOLATION' /tmp/sylt_verif_scratch/logs/$id.$T.log) known=$(grep -c '^KNOWN-FINDING' /tmp/sylt_verif_scratch/logs/$id.$T.log) inconcl=$(grep -c '^INCONCLUSIVE' /tmp/sylt_verif_scratch/logs/$id.$T.log)"
done
