#!/usr/bin/env python3
"""Regenerates the generated parts of DESIGN.md (between <!-- BEGIN x --> / <!-- END x --> markers) from known_findings.json and seeded/matrix.json."""
import json, os, re, subprocess
V = "/verif"
k = json.load(open(V + "/known_findings.json"))
def fixed_table():
    rows = ["| commit | property | what failed on the pinned tree |", "|---|---|---|"]
    for f in k["fixed"]:
        m = re.match(r"fixed: property=(\S+) (\S+) (.*)$", f, re.S)
        rows.append("| %s | %s | %s |" % (m.group(2), m.group(1), m.group(3).replace("|", "\\|").replace("\n", " ")))
    return "\n".join(rows)
def findings_table():
    rows = ["| property | signature | what fails | why recorded, not repaired |", "|---|---|---|---|"]
    for f in k["findings"]:
        rows.append("| %s | `%s` | %s | %s |" % (f["property"], f["signature"], f["what"].replace("|", "\\|"), f["why_not_fixed"].replace("|", "\\|")))
    return "\n".join(rows)
def seeded_table():
    p = V + "/seeded/matrix.json"
    if not os.path.exists(p): return "(matrix not run yet)"
    mx = json.load(open(p)); rows = ["| seeded change | what it does | compiles, 158 tests pass | caught by (quick tier) |", "|---|---|---|---|"]
    for d in sorted(mx):
        r = mx[d]; readme = open("%s/seeded/%s/README.md" % (V, d)).read().split("\n", 1)[0].lstrip("# ").strip()
        readme = re.sub(r"^C\d\d\s*/\s*m\d\s*(--|-|:)?\s*", "", readme)
        readme = re.sub(r"^C\d\d seed:\s*", "", readme)
        readme = {"C04-m8": "`/=` gets an arm of its own in the type checker that forgets the constness check", "C17-m8": "a \"line continuation\" skip rule (backslash + line break) that the position bookkeeping never sees"}.get(d, readme)
        if not r.get("applies"): rows.append("| %s | %s | (patch does not apply) | - |" % (d, readme)); continue
        ok = r["test_suite"]["passed"] == 158 and r["test_suite"]["failed_other_than_program_tests"] == 0
        rows.append("| %s | %s | %s | %s |" % (d, readme.replace("|", "\\|"), "yes" if ok else "NO (%s)" % r["test_suite"], ", ".join(r["caught_by"]) or "**not caught**"))
    return "\n".join(rows)
gen = {"FIXED": fixed_table(), "FINDINGS": findings_table(), "SEEDED": seeded_table()}
s = open(V + "/DESIGN.md").read()
for name, text in gen.items():
    s, n = re.subn(r"(<!-- BEGIN %s -->\n).*?(<!-- END %s -->)" % (name, name), lambda m: m.group(1) + text + "\n" + m.group(2), s, flags=re.S)
    print(name, "replaced" if n else "MARKER MISSING")
open(V + "/DESIGN.md", "w").write(s)
