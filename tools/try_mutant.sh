#!/bin/bash
# usage: try_mutant.sh <patch.diff> <ID> [<ID>...]   -- applies the patch to /repo, runs the quick checks, reverts
P=$1; shift
cd /repo || exit 9
if ! git diff --quiet; then echo "repo dirty"; exit 9; fi
if ! git apply --check "$P" 2>/dev/null; then
  if git apply --3way "$P" >/dev/null 2>&1; then echo "(applied with 3way)"; git reset -q; else echo "PATCH DOES NOT APPLY: $P"; git reset -q --hard HEAD; exit 8; fi
else git apply "$P"; fi
for id in "$@"; do
  cd /verif && timeout 1800 python3-vt run.py $id --tier ${TIER:-quick} > /tmp/mut_$id.log 2>&1; rc=$?
  echo "$id rc=$rc $(grep -c '^VIOLATION' /tmp/mut_$id.log) violations; $(grep -m1 '^VIOLATION' /tmp/mut_$id.log | cut -c1-80)"
done
cd /repo && git checkout -- . && git status --short | head -3
