#!/usr/bin/env python3
"""Validates MANIFEST.json, every evidence file and known_findings.json."""
import json, jsonschema, os, sys
V = "/verif"; bad = 0
m = json.load(open(V + "/MANIFEST.json")); jsonschema.validate(m, json.load(open("/root/.vp/MANIFEST.schema.json")))
es = json.load(open("/root/.vp/EVIDENCE.schema.json"))
props = [json.loads(l)["id"] for l in open(V + "/properties.jsonl")]
claimed = [c["property_id"] for c in m["checks"]]; na = [n["property_id"] for n in m.get("not_applicable", [])]
for p in props:
    if (p in claimed) == (p in na): print("property", p, "claimed/not_applicable inconsistent"); bad += 1
for c in m["checks"]:
    f = c["evidence_file"]
    if not os.path.exists(f): print("missing evidence", f); bad += 1; continue
    try: jsonschema.validate(json.load(open(f)), es)
    except Exception as e: print("invalid evidence", f, str(e)[:200]); bad += 1
k = json.load(open(V + "/known_findings.json"))
sigs = [(f["property"], f["signature"]) for f in k["findings"]]
if len(sigs) != len(set(sigs)): print("duplicate finding signatures"); bad += 1
print("manifest: %d checks, %d not applicable; evidence files valid: %d; findings: %d recorded, %d fixed; problems: %d" % (len(claimed), len(na), len(claimed) - bad, len(sigs), len(k["fixed"]), bad))
sys.exit(1 if bad else 0)
