#!/usr/bin/env python3
"""Applies every seeded change under /verif/seeded to the tree (never committed), runs the test suite and the quick checks
that should notice it, reverts, and writes /verif/seeded/<id>/result.json; `--merge` collects them into /verif/seeded/matrix.json.
usage: seeded_matrix.py [<ID>-m<k> ...]            on /repo itself (git -C /repo apply ... / git -C /repo checkout -- .)
       MATRIX_REPO=<clone of /repo> seeded_matrix.py ...   the same on a scratch clone (checks run with VERIF_REPO=<clone>), so that several
                                                           streams can run side by side; one stream per tree
       seeded_matrix.py --merge"""
import json, os, re, subprocess, sys, time
SEEDED = "/verif/seeded"
EXTRA = {"C19": ["C18"], "C18": ["C19"], "C01": ["C10", "C11", "C19", "C09"], "C02": ["C03", "C09"], "C10": ["C18", "C01", "C11"], "C06": ["C05", "C20"], "C17": ["C15", "C14", "C01"], "C16": ["C20"], "C09": ["C01"], "C11": ["C12"], "C07": ["C20"]}
REPO = os.environ.get("MATRIX_REPO", "/repo")
def sh(cmd, **kw): return subprocess.run(cmd, shell=True, capture_output=True, text=True, **kw)
def merge():
    m = {}
    for d in sorted(os.listdir(SEEDED)):
        rp = os.path.join(SEEDED, d, "result.json")
        if os.path.exists(rp): m[d] = json.load(open(rp))
    json.dump(m, open(os.path.join(SEEDED, "matrix.json"), "w"), indent=1)
    print("merged %d results; not caught: %s" % (len(m), [k for k, v in m.items() if v.get("applies") and not v.get("caught_by")]))
if sys.argv[1:] == ["--merge"]: merge(); sys.exit(0)
only = sys.argv[1:]
if REPO != "/repo":
    if not os.path.isdir(os.path.join(REPO, ".git")): sh("git clone -q /repo %s" % REPO)
    sh("cd %s && git fetch -q origin && git reset -q --hard origin/HEAD && git clean -fdq -e target" % REPO)
head = sh("git -C %s rev-parse --short HEAD" % REPO).stdout.strip()
assert head == sh("git -C /repo rev-parse --short HEAD").stdout.strip(), "clone is not at /repo's HEAD"
for d in sorted(os.listdir(SEEDED)):
    p = os.path.join(SEEDED, d)
    if not os.path.isdir(p) or (only and d not in only): continue
    prop = d.split("-")[0]
    patch = os.path.join(p, "patch_rebased.diff") if os.path.exists(os.path.join(p, "patch_rebased.diff")) else os.path.join(p, "patch.diff")
    assert sh("git -C %s diff --quiet" % REPO).returncode == 0, "tree dirty"
    r = sh("git -C %s apply --check %s" % (REPO, patch))
    how = "git apply"
    if r.returncode != 0:
        r3 = sh("git -C %s apply --3way %s" % (REPO, patch))
        if r3.returncode != 0:
            sh("git -C %s reset -q --hard HEAD" % REPO); res = {"applies": False, "why": r.stderr[-300:], "head": head}
            json.dump(res, open(os.path.join(p, "result.json"), "w"), indent=1); print(d, "DOES NOT APPLY"); continue
        sh("git -C %s reset -q" % REPO); how = "git apply --3way"
    else: sh("git -C %s apply %s" % (REPO, patch))
    res = {"applies": True, "applied_with": how, "patch": os.path.basename(patch), "head": head, "tree": "/repo" if REPO == "/repo" else "scratch clone of /repo at the same commit", "checks": {}}
    t = sh("cd %s && cargo test --workspace --no-fail-fast --offline 2>&1 | grep -E '^test result'" % REPO)
    passed = sum(int(x) for x in re.findall(r"(\d+) passed", t.stdout)); failed = sum(int(x) for x in re.findall(r"(\d+) failed", t.stdout))
    res["test_suite"] = {"passed": passed, "failed_other_than_program_tests": failed - 1}
    for cid in [prop] + ([] if os.environ.get("MATRIX_NO_EXTRA") else EXTRA.get(prop, [])):
        t0 = time.time()
        c = sh("cd /verif && VERIF_REPO=%s timeout 3000 python3-vt run.py %s --tier quick" % (REPO, cid))
        v = [l for l in c.stdout.split("\n") if l.startswith("VIOLATION")]
        sigs = re.findall(r"signature=(\S+)", c.stdout)
        res["checks"][cid] = {"exit": c.returncode, "violations": len(v), "first_signatures": sigs[:3], "wall_s": round(time.time() - t0, 1)}
    sh("git -C %s checkout -- . && git -C %s clean -fdq -e target" % (REPO, REPO))
    res["caught_by"] = sorted(k for k, v in res["checks"].items() if v["exit"] == 1 and v["violations"] > 0)
    json.dump(res, open(os.path.join(p, "result.json"), "w"), indent=1)
    print(d, "tests", res["test_suite"], "caught_by", res["caught_by"], {k: (v["exit"], v["violations"]) for k, v in res["checks"].items()}, flush=True)
merge()
