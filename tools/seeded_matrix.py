#!/usr/bin/env python3
"""Applies every seeded change under /verif/seeded to /repo (never committed), runs the test suite and the quick checks
that should notice it, reverts, and writes /verif/seeded/<id>/result.json + /verif/seeded/matrix.json."""
import json, os, re, subprocess, sys, time
SEEDED = "/verif/seeded"
EXTRA = {"C01": ["C10", "C11"], "C02": ["C03", "C09"], "C10": ["C01"], "C06": ["C05"], "C17": ["C15"], "C16": ["C20"], "C09": ["C01"]}
def sh(cmd, **kw): return subprocess.run(cmd, shell=True, capture_output=True, text=True, **kw)
only = sys.argv[1:]
matrix = {}
for d in sorted(os.listdir(SEEDED)):
    p = os.path.join(SEEDED, d)
    if not os.path.isdir(p) or (only and d not in only): continue
    prop = d.split("-")[0]
    patch = os.path.join(p, "patch_rebased.diff") if os.path.exists(os.path.join(p, "patch_rebased.diff")) else os.path.join(p, "patch.diff")
    assert sh("git -C /repo diff --quiet").returncode == 0, "repo dirty"
    r = sh("git -C /repo apply --check %s" % patch)
    how = "git apply"
    if r.returncode != 0:
        r3 = sh("git -C /repo apply --3way %s" % patch)
        if r3.returncode != 0:
            sh("git -C /repo reset -q --hard HEAD"); matrix[d] = {"applies": False, "why": r.stderr[-300:]}; print(d, "DOES NOT APPLY"); continue
        sh("git -C /repo reset -q"); how = "git apply --3way"
    else: sh("git -C /repo apply %s" % patch)
    res = {"applies": True, "applied_with": how, "patch": os.path.basename(patch), "checks": {}}
    t = sh("cd /repo && cargo test --workspace --no-fail-fast --offline 2>&1 | grep -E '^test result'")
    passed = sum(int(x) for x in re.findall(r"(\d+) passed", t.stdout)); failed = sum(int(x) for x in re.findall(r"(\d+) failed", t.stdout))
    res["test_suite"] = {"passed": passed, "failed_other_than_program_tests": failed - 1}
    for cid in [prop] + EXTRA.get(prop, []):
        t0 = time.time()
        c = sh("cd /verif && timeout 3000 python3-vt run.py %s --tier quick" % cid)
        v = [l for l in c.stdout.split("\n") if l.startswith("VIOLATION")]
        sigs = re.findall(r"signature=(\S+)", c.stdout)
        res["checks"][cid] = {"exit": c.returncode, "violations": len(v), "first_signatures": sigs[:3], "wall_s": round(time.time() - t0, 1)}
    sh("git -C /repo checkout -- . && git -C /repo clean -fdq -e target")
    res["caught_by"] = sorted(k for k, v in res["checks"].items() if v["exit"] == 1 and v["violations"] > 0)
    json.dump(res, open(os.path.join(p, "result.json"), "w"), indent=1)
    matrix[d] = res
    print(d, "tests", res["test_suite"], "caught_by", res["caught_by"], {k: (v["exit"], v["violations"]) for k, v in res["checks"].items()}, flush=True)
old = {}
mp = os.path.join(SEEDED, "matrix.json")
if only and os.path.exists(mp): old = json.load(open(mp))
old.update(matrix); json.dump(old, open(mp, "w"), indent=1)
