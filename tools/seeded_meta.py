#!/usr/bin/env python3
"""Writes /verif/seeded/<id>/meta.json from README.md (written by the independent agent that produced the change) and
result.json (written by tools/seeded_matrix.py: what I ran and what it showed)."""
import json, os, re
SEEDED = "/verif/seeded"
props = {json.loads(l)["id"]: json.loads(l)["title"] for l in open("/verif/properties.jsonl")}
rows = []
for d in sorted(os.listdir(SEEDED)):
    p = os.path.join(SEEDED, d)
    if not os.path.isdir(p): continue
    readme = open(os.path.join(p, "README.md")).read()
    title = readme.split("\n", 1)[0].lstrip("# ").strip()
    secs = re.split(r"^## ", readme, flags=re.M)
    need = next((s.split("\n", 1)[1].strip() for s in secs if re.match(r"What is needed", s)), "")
    change = next((s.split("\n", 1)[1].strip() for s in secs if re.match(r"(The change|Change|What the change does|What it does|What changed|Mechanism)", s)), "")
    res = json.load(open(os.path.join(p, "result.json"))) if os.path.exists(os.path.join(p, "result.json")) else None
    prop = d.split("-")[0]
    meta = {"property": prop, "property_title": props[prop], "change": title, "files_changed": sorted(set(re.findall(r"^\+\+\+ b/(\S+)", open(os.path.join(p, "patch.diff")).read(), re.M))),
            "what_it_needs_to_manifest": need[:1500], "summary_of_change": change[:800],
            "produced_by": "a fresh sub-agent given only the property text and its own scratch git worktree of /repo (nothing from /verif); README.md and demo/ are its own report",
            "patch": "patch.diff (against the pinned tree as the agent saw it)" + ("; patch_rebased.diff = the same change on top of the later fix: commits it conflicted with" if os.path.exists(os.path.join(p, "patch_rebased.diff")) else "")}
    if res:
        meta["what_i_ran"] = ["git -C /repo apply %s" % res.get("patch", "patch.diff"), "cargo test --workspace --no-fail-fast --offline  -> %d passed, %d failed besides sylt::test::program_tests (needs a lua binary; fails in the baseline too)" % (res["test_suite"]["passed"], res["test_suite"]["failed_other_than_program_tests"])] + \
                             ["python3-vt /verif/run.py %s --tier quick  -> exit %d, %d VIOLATION lines%s" % (c, v["exit"], v["violations"], (" (e.g. %s)" % v["first_signatures"][0]) if v["first_signatures"] else "") for c, v in res["checks"].items()] + ["git -C /repo checkout -- ."]
        meta["caught_by"] = res["caught_by"]; meta["confirmed_compiles_and_passes_tests"] = res["test_suite"]["passed"] == 158 and res["test_suite"]["failed_other_than_program_tests"] == 0
    json.dump(meta, open(os.path.join(p, "meta.json"), "w"), indent=1)
    rows.append((d, title, meta.get("caught_by"), meta.get("confirmed_compiles_and_passes_tests")))
for r in rows: print(r)
