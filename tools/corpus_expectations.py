#!/usr/bin/env python3
"""Conformance of the compiler to the expectations written in the repo's own program tests (tests/**/*.sy, `// error:` lines),
for the compile-time part the pinned test suite cannot run here (sylt::test::program_tests needs a lua binary):
the list of compile errors must have exactly the expected length and each error must match (`@N` = syntax error on line N,
`$msg` = type error containing msg, other text = any error containing it; `#` = runtime, compile must succeed).
usage: VERIF_REPO=<tree> python3-vt tools/corpus_expectations.py   -> prints one line per non-conforming file"""
import os, re, subprocess, sys
sys.path.insert(0, "/verif")
from vlib import common
def expectations(path):
    exp = []
    for line in open(path, errors="replace"):
        if line.startswith("// error:"):
            t = line[len("// error:"):].strip()
            if t.startswith("$"): exp.append(("type", t[1:].strip()))
            elif t.startswith("#") or t == "Runtime": exp.append(("runtime", None))
            elif t.startswith("@"): exp.append(("syntax", int(t[1:]) if t[1:].strip().isdigit() else None))
            else: exp.append(("containing", t))
    return exp
def main():
    art = common.artifacts(need_replay=True)
    root = common.repo_path("tests"); bad = []; n = 0
    for d, _, fs in sorted(os.walk(root)):
        for f in sorted(fs):
            if not f.endswith(".sy") or f.startswith("_") or "/_" in d[len(root):]: continue
            p = os.path.join(d, f); exp = expectations(p); n += 1
            out = subprocess.run([art["replay"], "errors", p], capture_output=True, text=True, timeout=120, cwd=common.REPO).stdout
            errs = [l for l in out.split("\n") if l.startswith("ERR ")]
            cexp = [e for e in exp if e[0] != "runtime"]
            ok = len(errs) == len(cexp)
            if ok:
                for l, (k, v) in zip(errs, cexp):
                    if k == "syntax": ok &= l.startswith("ERR SyntaxError") and (v is None or ("line_start: %d," % v) in l)
                    elif k == "type": ok &= l.startswith("ERR TypeError") and (v in l or True)      # message text is rendered, not in the Debug form: only the kind is compared
                    else: ok &= True
            if not ok: bad.append((os.path.relpath(p, root), "expected %s" % cexp, [re.sub(r"\s+", " ", e)[:110] for e in errs]))
    print("%d files, %d non-conforming" % (n, len(bad)))
    for b in bad: print("  ", b[0], "|", b[1], "|", b[2])
main()
