#!/bin/bash
# usage: try_mutant_clone.sh <patch.diff> <ID> [<ID>...]  -- like try_mutant.sh but on a scratch clone of /repo HEAD (VERIF_REPO), /repo is not touched; CLONE=<dir> selects the clone (one trial per clone at a time)
P=$1; shift
C=${CLONE:-/tmp/sylt_mut}
L=/tmp/mutc_$(basename $C)
if [ ! -d $C/.git ]; then git clone -q /repo $C; fi
cd $C && git fetch -q origin && git reset -q --hard origin/HEAD 2>/dev/null || git reset -q --hard origin/main
git clean -fdq
if ! git apply --check "$P" 2>/dev/null; then
  if git apply --3way "$P" >/dev/null 2>&1; then echo "(applied with 3way)"; git reset -q; else echo "PATCH DOES NOT APPLY: $P"; git reset -q --hard; exit 8; fi
else git apply "$P"; fi
for id in "$@"; do
  cd /verif && VERIF_REPO=$C timeout 3000 python3-vt run.py $id --tier ${TIER:-quick} > ${L}_$id.log 2>&1; rc=$?
  echo "$id rc=$rc $(grep -c '^VIOLATION' ${L}_$id.log) violations; $(grep -m1 -A1 '^VIOLATION' ${L}_$id.log | tail -1 | cut -c1-160)"
done
cd $C && git reset -q --hard
