"""E-MIR: forking (re-execution based) symbolic executor over rustc's MIR text dump (-Zunpretty=mir).
Callees with MIR in the dump are executed from their MIR; std/alloc/core callees need a model (the model table is
part of every claim). Scalars are python values or z3 terms; the parser position, vector lengths, union-find
indices stay concrete on every path and only genuinely symbolic choices fork."""
import re, sys, time, copy, itertools, functools
import z3

sys.setrecursionlimit(200000)
REPO_ROOT = "/repo"
QENUMS = {}

# ------------------------------------------------------------------ loading
class Fn:
    def __init__(self, name, params, blocks, ret):
        self.name, self.params, self.blocks, self.ret = name, params, blocks, ret
        self.ltypes = {p: t for p, t in params}

def split_top(s, sep=","):
    return list(_split_top(s, sep))
@functools.lru_cache(maxsize=None)
def _split_top(s, sep=","):
    out, d, cur, i = [], 0, "", 0
    instr = False
    while i < len(s):
        ch = s[i]
        if ch == '"' and (i == 0 or s[i-1] != "\\"): instr = not instr
        if not instr:
            if ch in "([{<" and not (ch == "<" and s[i-1:i+1] in ("-<",)): d += 1
            elif ch in ")]}>" and not (ch == ">" and s[i-1] in "-="): d -= 1
            if ch == sep and d == 0:
                out.append(cur.strip()); cur = ""; i += 1; continue
        cur += ch; i += 1
    if cur.strip(): out.append(cur.strip())
    return tuple(out)

DUPS = {}
def _norm_sig(t): return re.sub(r"'\w+", "'", t).replace(" ", "")
def pick_dup(callee, fi):
    """the same-named function whose return type matches the fn-pointer type spelled in the callee's generic arguments"""
    for f in DUPS.get(fi.fn.name, ()):
        if _norm_sig("-> %s {%s}" % (f.ret, f.name)) in _norm_sig(callee): return FnItem(f)
    return fi
def load(path, fns, consts):
    cur = None; blocks = None; bb = None
    for line in open(path):
        if line.startswith("fn ") or line.startswith("const ") or line.startswith("static "):
            kind = line.split(" ", 1)[0]
            if kind == "fn":
                i = line.index("(_") if "(_" in line else line.index("(")
                name = line[3:i].strip()
                depth = 0; j = i
                while True:
                    if line[j] == "(": depth += 1
                    elif line[j] == ")":
                        depth -= 1
                        if depth == 0: break
                    j += 1
                params = []
                for p in split_top(line[i+1:j]):
                    m = re.match(r"(_\d+): (.*)$", p)
                    if m: params.append((m.group(1), m.group(2)))
                ret = line[j+1:].strip().lstrip("->").rstrip("{").strip()
                blocks = {}; cur = Fn(name, params, blocks, ret)
                if name in fns and fns[name].ret != ret and not name.split("::")[-1][0].isupper():
                    # nested fns of the same name in one module (statement::item): told apart by their return type at the use site
                    DUPS.setdefault(name, [fns[name]]).append(cur)
                fns.setdefault(name, cur)
            else:
                m = re.match(r"^const (.+?::promoted\[\d+\]): ", line)
                if m:
                    blocks = {}; cur = Fn(m.group(1), [], blocks, ""); consts[m.group(1)] = cur
                else:
                    m2 = re.match(r"^const ([A-Z_][A-Z0-9_]*): (.+?) = \{$", line.rstrip())
                    if m2:
                        blocks = {}; cur = Fn("const " + m2.group(1), [], blocks, m2.group(2)); cur.ltypes["_0"] = m2.group(2); consts["named::" + m2.group(1)] = cur
                    else:
                        cur = None
            continue
        if cur is None: continue
        if line.startswith("}"): cur = None; continue
        ml = re.match(r"^\s+let (?:mut )?(_\d+): (.*);$", line)
        if ml: cur.ltypes[ml.group(1)] = ml.group(2); continue
        m = re.match(r"^\s+(bb\d+)( \(cleanup\))?: \{", line)
        if m: bb = m.group(1); blocks[bb] = []; continue
        s = line.strip()
        if bb and s == "}": bb = None; continue
        if bb and s: blocks[bb].append(s[:-1] if s.endswith(";") else s)

# ------------------------------------------------------------------ type info from source
def strip_attrs_and_comments(src):
    out = []; i = 0; n = len(src)
    def skip_string(i):
        # returns index after the string literal starting at i (src[i] is '"' or r / r#)
        m = re.match(r'r(#*)"', src[i:])
        if m:
            end = src.index('"' + m.group(1), i + len(m.group(0))); return end + 1 + len(m.group(1))
        j = i + 1
        while src[j] != '"':
            if src[j] == "\\": j += 1
            j += 1
        return j + 1
    while i < n:
        if src.startswith("//", i):
            j = src.find("\n", i); i = n if j < 0 else j; continue
        if src.startswith("#[", i) or src.startswith("#![", i):
            j = src.index("[", i); d = 0
            while True:
                if src[j] == '"' or re.match(r'r#*"', src[j:]): j = skip_string(j); continue
                if src[j] == "[": d += 1
                elif src[j] == "]":
                    d -= 1
                    if d == 0: break
                j += 1
            i = j + 1; continue
        if src[i] == '"' or (re.match(r'r#*"', src[i:]) and not (i and (src[i-1].isalnum() or src[i-1] == "_"))):
            j = skip_string(i); out.append('""'); i = j; continue
        if src[i] == "'" and re.match(r"'(\\.|[^\\'])'", src[i:]):
            m = re.match(r"'(\\.|[^\\'])'", src[i:]); out.append("' '"); i += len(m.group(0)); continue
        out.append(src[i]); i += 1
    return "".join(out)

def parse_defs(paths):
    enums, structs = {}, {}
    global QENUMS
    QENUMS = {}
    for p in paths:
        mod = p.split("/")[-1][:-3]
        if "sylt-common" in p: mod = "sylt_common"
        if "sylt-parser" in p: mod = "sylt_parser"
        src = open(p).read()
        src = strip_attrs_and_comments(src)
        for m in re.finditer(r"\b(enum|struct)\s+(\w+)(?:<[^>{]*>)?\s*\{", src):
            kind, name = m.group(1), m.group(2)
            i = m.end(); d = 1; j = i
            while d:
                if src[j] == "{": d += 1
                elif src[j] == "}": d -= 1
                j += 1
            items = split_top(src[i:j-1])
            names = []
            for it in items:
                it = it.strip()
                it = re.sub(r"^pub(\([^)]*\))?\s+", "", it)
                mm = re.match(r"(\w+)", it)
                if mm: names.append(mm.group(1))
            (enums if kind == "enum" else structs)[name] = names
            if kind == "enum": QENUMS[(mod, name)] = names
        for m in re.finditer(r"\bstruct\s+(\w+)(?:<[^>(]*>)?\s*\(([^;]*)\)\s*;", src):
            structs.setdefault(m.group(1), [str(i) for i in range(len(split_top(m.group(2))))])
    return enums, structs

import functools
@functools.lru_cache(maxsize=None)
def strip_gen(c):
    out = []; i = 0
    while i < len(c):
        if c.startswith("::<", i) and not c.startswith("::<impl", i):
            d = 0; j = i + 2
            while True:
                if c[j] == "<": d += 1
                elif c[j] == ">" and c[j-1] != "-":
                    d -= 1
                    if d == 0: break
                j += 1
            i = j + 1; continue
        out.append(c[i]); i += 1
    return "".join(out).strip()


# ------------------------------------------------------------------ impl-block identification from source positions
_SRC = {}
def _src_lines(path):
    import os
    if path not in _SRC:
        cands = [os.path.join(REPO_ROOT, path)] + [os.path.join(REPO_ROOT, d, path) for d in ("sylt-tokenizer", "sylt-parser", "sylt-common", "sylt-compiler", "sylt")]
        for c in cands:
            if os.path.exists(c): _SRC[path] = open(c).read().split("\n"); break
        else: _SRC[path] = None
    return _SRC[path]
def impl_info(fname):
    """returns (trait or None, self type base name) for a MIR fn name containing <impl at ...>"""
    m = re.search(r"<impl at ([^:]+):(\d+):(\d+): (\d+):(\d+)>", fname)
    if not m: return None
    lines = _src_lines(m.group(1))
    if lines is None: return None
    L, C, L2, C2 = int(m.group(2)), int(m.group(3)), int(m.group(4)), int(m.group(5))
    text = lines[L-1][C-1:]
    if text.startswith("impl"):
        hdr = " ".join([text] + lines[L:L+3])
        hdr = hdr[:hdr.index("{")] if "{" in hdr else hdr
        hdr = re.sub(r"^impl\s*(<[^>]*>)?\s*", "", hdr)
        hdr = re.sub(r"\bwhere\b.*$", "", hdr).strip()
        if " for " in hdr:
            tr, ty = hdr.split(" for ", 1)
        else: tr, ty = None, hdr
        base = lambda t: re.sub(r"<.*$", "", t.strip()).split("::")[-1]
        return (base(tr) if tr else None, base(ty))
    # derive: the span covers the trait name inside #[derive(...)]
    tr = lines[L-1][C-1:C2-1] if L == L2 else text
    tr = tr.split("::")[-1]
    for k in range(L-1, min(L+40, len(lines))):
        mm = re.match(r"\s*(pub(\([^)]*\))?\s+)?(enum|struct)\s+(\w+)", lines[k])
        if mm: return (tr, mm.group(4))
    return None

# ------------------------------------------------------------------ values
class EnumV:
    def __init__(self, ty, disc, fields=None): self.ty, self.disc, self.fields = ty, disc, fields or []
    def __repr__(self): return "%s#%s%s" % (self.ty, self.disc, self.fields if self.fields else "")
class StructV:
    def __init__(self, ty, fields): self.ty, self.fields = ty, fields
    def __repr__(self): return "%s%s" % (self.ty, self.fields)
class TupleV:
    def __init__(self, items): self.fields = items
    def __repr__(self): return "T%s" % (self.fields,)
class BoxV:
    def __init__(self, v): self.fields = [v]
    def __repr__(self): return "Box(%r)" % (self.fields[0],)
class VecV:
    def __init__(self, items): self.items = items
    def __repr__(self): return "Vec%r" % (self.items,)
class Ref:
    def __init__(self, cont, key): self.cont, self.key = cont, key
    def get(self): return self.cont[self.key]
    def set(self, v): self.cont[self.key] = v
    def __repr__(self): return "&"
class SliceRef:
    def __init__(self, lst, start, n): self.lst, self.start, self.n = lst, start, n
class ChoiceV:
    """a node whose concrete value is one of `options`, selected by the z3 Int `sel` (value k = options[k]).
    It is concretised lazily, by forking, the first time the executed code looks inside it."""
    def __init__(self, sel, options): self.sel, self.options = sel, options
    def __repr__(self): return "Choice(%s)" % self.sel
_FORCE = [None]
def force(v):
    if isinstance(v, ChoiceV): return _FORCE[0](v)
    return v
def dr(v):
    """the value behind references, with choice nodes concretised (forking)"""
    while True:
        if isinstance(v, Ref): v = v.get()
        elif isinstance(v, ChoiceV): v = force(v)
        else: return v
class FnItem:
    """a function item used as a value (`sep`, `statement::item` passed as an argument)"""
    def __init__(self, fn): self.fn = fn
    def __repr__(self): return "fn-item %s" % self.fn.name
class StdFn:
    """a std / core function item used as a value (`char::is_uppercase` passed to map_or): called through the model table"""
    def __init__(self, name): self.name = name
    def __repr__(self): return "std-fn-item %s" % self.name
class Opaque:
    def __init__(self, what): self.what = what
    def __repr__(self): return "<%s>" % self.what
class Panic(Exception): pass
MIR_OPERATORS = {"PtrMetadata", "Len", "Cast", "ShallowInitBox", "CopyForDeref", "ThreadLocalRef", "SizeOf", "AlignOf", "Offset", "Shl", "Shr", "Div", "Rem", "BitXor", "Cmp",
                 "AddUnchecked", "SubUnchecked", "MulUnchecked", "ShlUnchecked", "ShrUnchecked", "UbChecks", "ContractChecks", "OffsetOf"}
class Unsupported(Exception): pass
class Infeasible(Exception): pass

def fields_of(v):
    if isinstance(v, ChoiceV): raise Unsupported("projection into an unforced choice")
    if isinstance(v, (EnumV, StructV, TupleV, BoxV)): return v.fields
    raise Unsupported("fields_of %r" % (v,))

def deep(v):
    """value copy (Copy/Clone semantics); references stay shared"""
    if isinstance(v, ChoiceV): return ChoiceV(v.sel, [deep(o) for o in v.options])
    if isinstance(v, EnumV): return EnumV(v.ty, v.disc, [deep(x) for x in v.fields])
    if isinstance(v, StructV): return StructV(v.ty, [deep(x) for x in v.fields])
    if isinstance(v, TupleV): return TupleV([deep(x) for x in v.fields])
    if isinstance(v, BoxV): return BoxV(deep(v.fields[0]))
    if isinstance(v, VecV): return VecV([deep(x) for x in v.items])
    return v

def copy_val(v):
    """`copy` operand: Copy types only; owning containers reached through raw pointers stay shared"""
    if isinstance(v, ChoiceV): return ChoiceV(v.sel, [copy_val(o) for o in v.options])
    if isinstance(v, EnumV): return EnumV(v.ty, v.disc, [copy_val(x) for x in v.fields])
    if isinstance(v, StructV): return StructV(v.ty, [copy_val(x) for x in v.fields])
    if isinstance(v, TupleV): return TupleV([copy_val(x) for x in v.fields])
    return v

STD_ENUMS = {"Option": ["None", "Some"], "Result": ["Ok", "Err"], "ControlFlow": ["Continue", "Break"], "Entry": ["Occupied", "Vacant"], "BEntry": ["Vacant", "Occupied"]}

# ------------------------------------------------------------------ executor
class Exec:
    def __init__(self, fns, consts, enums, structs):
        self.fns, self.consts, self.enums, self.structs = fns, consts, dict(STD_ENUMS, **enums), structs
        self.structs.setdefault("Range", ["start", "end"]); self.structs.setdefault("RangeInclusive", ["start", "end", "exhausted"])
        self.structs.setdefault("RangeTo", ["end"]); self.structs.setdefault("RangeToInclusive", ["end"]); self.structs.setdefault("RangeFrom", ["start"]); self.structs.setdefault("RangeFull", [])
        self.by_last = {}
        for n, f in fns.items():
            self.by_last.setdefault(n.split("::")[-1], []).append(f)
        self.solver = z3.Solver()
        _FORCE[0] = self.force_choice
        self.cenv = []
        self.pc = []; self.decisions = []; self.prefix = []; self.pending = []
        self.steps = 0; self.queries = 0
    def force_choice(self, ch):
        k = self.decide([(i, ch.sel == i) for i in range(len(ch.options))])
        return deep(ch.options[k])
    def getf(self, ref):
        """value behind a Ref with a choice node concretised in place"""
        v = ref.get()
        if isinstance(v, ChoiceV):
            v = self.force_choice(v); ref.set(v)
        return v
    # ---- forking by re-execution
    def decide(self, options):
        """options: list of (label, z3 constraint or None=always)"""
        i = len(self.decisions)
        feas = []
        if i < len(self.prefix):
            choice = self.prefix[i]
        else:
            for lab, c in options:
                if c is None or c is True: feas.append(lab); continue
                if c is False: continue
                self.queries += 1
                self.solver.push(); self.solver.add(c)
                ok = self.solver.check() == z3.sat
                self.solver.pop()
                if ok: feas.append(lab)
            if not feas: raise Infeasible()
            choice = feas[0]
            for alt in feas[1:]:
                self.pending.append(self.decisions + [alt])
        self.decisions.append(choice)
        for lab, c in options:
            if lab == choice and c is not None and c is not True:
                self.pc.append(c); self.solver.add(c)
        return choice
    # ---- places
    def parse_place(self, p, fr):
        p = p.strip()
        if re.match(r"^_\d+$", p): return Ref(fr, p)
        if p.startswith("(*") and p.endswith(")") and self.balanced(p[1:-1]):
            inner = self.getf(self.parse_place(p[2:-1], fr))
            if isinstance(inner, Ref): return inner
            if isinstance(inner, BoxV): return Ref(inner.fields, 0)
            raise Unsupported("deref of %r in %s" % (inner, p))
        if p.endswith("]"):
            i = p.rindex("[")
            base = self.getf(self.parse_place(p[:i], fr)); idx = p[i+1:-1]
            if re.match(r"^_\d+$", idx): k = fr[idx]
            else: k = int(idx.split(" ")[0])
            lst = base.items if isinstance(base, VecV) else base
            return Ref(lst, k)
        if p.startswith("(") and p.endswith(")"):
            body = p[1:-1]
            m = re.match(r"^(.*) as (\w+)$", body)
            if m and self.balanced(m.group(1)):
                return self.parse_place(m.group(1), fr)        # downcast: same object
            # field projection: <place>.<n>: <type>
            d = 0
            for i, ch in enumerate(body):
                if ch in "([": d += 1
                elif ch in ")]": d -= 1
                elif ch == "." and d == 0 and re.match(r"\.\d+: ", body[i:]):
                    tyann = body[i:].split(": ", 1)[1]
                    if tyann.startswith(("std::ptr::Unique<", "std::ptr::NonNull<", "std::mem::ManuallyDrop<", "std::mem::MaybeDangling<")) or (tyann.startswith("[") and "MaybeDangling" in body[:i]):
                        return self.parse_place(body[:i], fr)
                    base = self.getf(self.parse_place(body[:i], fr))
                    n = int(re.match(r"\.(\d+): ", body[i:]).group(1))
                    return Ref(fields_of(base), n)
        raise Unsupported("place " + p)
    @staticmethod
    def balanced(s):
        d = 0
        for ch in s:
            if ch in "([": d += 1
            elif ch in ")]":
                d -= 1
                if d < 0: return False
        return d == 0
    # ---- operands / rvalues
    def operand(self, o, fr):
        o = o.strip()
        for pre in ("no_retag copy ", "no_retag move ", "copy ", "move "):
            if o.startswith(pre):
                v = self.parse_place(o[len(pre):], fr).get()
                return copy_val(v) if "copy" in pre else v
        if o.startswith("const "):
            c = o[6:].strip()
            m = re.match(r"^(-?\d+)_(usize|isize|i64|u64|i32|u32|u8|i8)$", c)
            if m: return int(m.group(1))
            if c in ("true", "false"): return c == "true"
            mmm = re.match(r"^(?:core::|std::)?(i8|i16|i32|i64|isize|u8|u16|u32|u64|usize)::(MIN|MAX)$", c)
            if mmm:
                w = {"i8": 8, "i16": 16, "i32": 32, "i64": 64, "isize": 64, "u8": 8, "u16": 16, "u32": 32, "u64": 64, "usize": 64}[mmm.group(1)]
                if mmm.group(1)[0] == "i": return -(2 ** (w - 1)) if mmm.group(2) == "MIN" else 2 ** (w - 1) - 1
                return 0 if mmm.group(2) == "MIN" else 2 ** w - 1
            if re.match(r"^[A-Z]$", c) and self.cenv and c in self.cenv[-1]: return self.cenv[-1][c]
            if c == "()": return TupleV([])
            if c in ("RangeFull", "std::ops::RangeFull"): return StructV("RangeFull", [])
            if c.startswith('"'): return c[1:-1]
            mch = re.match(r"^'(\\?.|\\u\{[0-9a-fA-F]+\})'$", c)
            if mch:
                t = mch.group(1)
                if t.startswith("\\u"): return chr(int(t[3:-1], 16))
                if t.startswith("\\"): return {"n": "\n", "t": "\t", "r": "\r", "0": "\0", "\\": "\\", "'": "'"}.get(t[1], t[1])
                return t
            if c.startswith('b"'): return Opaque("bytes")
            if re.match(r"^\{alloc\d+: .*\}$", c): return Opaque("static " + c)
            if "promoted[" in c: return self.promoted(c)
            mnc = re.match(r"^(?:[\w<>':, ]+::)*([A-Z_][A-Z0-9_]*)$", c)
            if mnc and ("named::" + mnc.group(1)) in self.consts: return self.run(self.consts["named::" + mnc.group(1)], [])
            mz = re.match(r"^ZeroSized: \{closure@([^}]*)\}$", c)
            if mz: return StructV("closure@" + mz.group(1), [])
            mz = re.match(r"^ZeroSized: ", c)
            if mz: return Opaque(c)
            m = re.match(r"^(\d+(\.\d+)?(e[+-]?\d+)?)f64$", c.replace("_", ""))
            if m: return float(m.group(1))
            raise Unsupported("const " + c)
        fi = self.fn_item(o)
        if fi is not None: return fi
        if re.match(r"^(core::|std::|alloc::)?[a-z]\w*(::[\w<> ]+)*::[a-z_]\w*$", o) and "<impl " in o or re.match(r"^(core|std|alloc)::[\w:]+::[a-z_]\w*$", o): return StdFn(o)
        return self.parse_place(o, fr).get()
    def fn_item(self, o):
        if not re.match(r"^[A-Za-z][\w:]*$", o) or not o.split("::")[-1][0].islower(): return None
        cands = [f for n, f in self.fns.items() if n == o or n.endswith("::" + o) or n.split("::")[-1] == o.split("::")[-1]]
        exact = [f for f in cands if f.name == o]
        if exact: return FnItem(exact[0])
        if len(cands) == 1: return FnItem(cands[0])
        if cands: raise Unsupported("ambiguous function item " + o)
        return None
    def promoted(self, c):
        segs = strip_gen(c).replace("<'_>", "").split("::")
        best = None
        for n in range(len(segs), 1, -1):
            suf = "::".join(segs[-n:])
            key = [k for k in self.consts if k == suf or k.endswith("::" + suf)]
            if len(key) == 1: best = key[0]; break
            if len(key) > 1 and best is None: best = key[0]
        if best is None: raise Unsupported("promoted " + c)
        return self.run(self.consts[best], [])
    def variant_index(self, path):
        parts = strip_gen(path).split("::")
        ty, var = parts[-2], parts[-1]
        ty = re.sub(r"<.*$", "", ty)
        if len(parts) >= 3 and (parts[-3], ty) in QENUMS:
            return parts[-3] + "::" + ty, QENUMS[(parts[-3], ty)].index(var)
        cands = [(m, t) for (m, t) in QENUMS if t == ty and var in QENUMS[(m, t)]]
        if len(cands) == 1: return cands[0][0] + "::" + ty, QENUMS[cands[0]].index(var)
        if ty in STD_ENUMS: return ty, STD_ENUMS[ty].index(var)
        if ty not in self.enums: raise Unsupported("enum " + path)
        return ty, self.enums[ty].index(var)
    def rvalue(self, r, fr):
        r = r.strip()
        m = re.match(r"^(Eq|Ne|Lt|Le|Gt|Ge|Add|Sub|Mul|BitAnd|BitOr|AddWithOverflow|SubWithOverflow|MulWithOverflow)\((.*)\)$", r)
        if m:
            a, b = [self.operand(x, fr) for x in split_top(m.group(2))]
            op = m.group(1)
            def bor():
                if isinstance(a, bool) and isinstance(b, bool): return a or b
                if isinstance(a, int) and isinstance(b, int) and not isinstance(a, bool): return a | b
                return z3.Or(a if not isinstance(a, bool) else z3.BoolVal(a), b if not isinstance(b, bool) else z3.BoolVal(b))
            def band():
                if isinstance(a, bool) and isinstance(b, bool): return a and b
                if isinstance(a, int) and isinstance(b, int) and not isinstance(a, bool): return a & b
                return z3.And(a if not isinstance(a, bool) else z3.BoolVal(a), b if not isinstance(b, bool) else z3.BoolVal(b))
            f = {"Eq": lambda: a == b, "Ne": lambda: a != b, "Lt": lambda: a < b, "Le": lambda: a <= b,
                 "Gt": lambda: a > b, "Ge": lambda: a >= b, "Add": lambda: a + b, "Sub": lambda: a - b, "Mul": lambda: a * b, "BitOr": bor, "BitAnd": band}
            if op.endswith("WithOverflow"):
                v = f[op[:3]]()
                # the range of the result type: `(i64, bool)` is signed, everything else here is usize / u64
                mty = re.match(r"^\((i8|i16|i32|i64|isize|u8|u16|u32|u64|usize), bool\)$", getattr(self, "dest_type", None) or "")
                ity = mty.group(1) if mty else "usize"
                w = {"8": 8, "16": 16, "32": 32, "64": 64, "size": 64}[ity.lstrip("iu")]
                lo, lim = (-(2 ** (w - 1)), 2 ** (w - 1) - 1) if ity[0] == "i" else (0, 2 ** w - 1)
                if isinstance(v, int): return TupleV([v, v < lo or v > lim])
                return TupleV([v, z3.Or(v < lo, v > lim)])
            return f[op]()
        m = re.match(r"^PtrMetadata\((.*)\)$", r)
        if m and self.balanced(m.group(1)):          # the length of the slice / str behind a (raw) reference
            v = self.operand(m.group(1), fr)
            while isinstance(v, Ref): v = v.get()
            if isinstance(v, list): return len(v)
            if isinstance(v, VecV): return len(v.items)
            if isinstance(v, SliceRef): return v.n
            if isinstance(v, str): return len(v.encode())
            raise Unsupported("PtrMetadata of %r" % (type(v).__name__,))
        m = re.match(r"^Neg\((.*)\)$", r)
        if m and self.balanced(m.group(1)):
            a = self.operand(m.group(1), fr); return -a
        m = re.match(r"^Not\((.*)\)$", r)
        if m:
            a = self.operand(m.group(1), fr); return (not a) if isinstance(a, bool) else z3.Not(a)
        m = re.match(r"^discriminant\((.*)\)$", r)
        if m:
            v = self.getf(self.parse_place(m.group(1), fr))
            while isinstance(v, Ref): v = self.getf(v)
            if not isinstance(v, EnumV): raise Unsupported("discriminant of %r" % (v,))
            return v.disc
        mcl = re.match(r"^\{closure@([^}]*)\} \{ (.*) \}$", r)
        if mcl:
            kv = [x.split(": ", 1) for x in split_top(mcl.group(2))]
            return StructV("closure@" + mcl.group(1), [self.operand(v, fr) for k, v in kv])
        mcl = re.match(r"^\{closure@([^}]*)\}$", r)
        if mcl: return StructV("closure@" + mcl.group(1), [])
        mraw = re.match(r"^&raw (?:const|mut) (?:\(fake\) )?(.*)$", r)
        if mraw:      # raw (and match-guard "fake") borrows: a reference to the place, like `&`
            pl = mraw.group(1).strip()
            if pl.startswith("(") and pl.endswith(")") and self.balanced(pl[1:-1]) and pl.startswith("(*"): pass
            return self.parse_place(pl, fr)
        if r.startswith("&mut "): return self.parse_place(r[5:], fr)
        if r.startswith("&"): return self.parse_place(r[1:], fr)
        mfp = re.match(r"^([A-Za-z_][\w:<>', ]*?) as (.+) \(PointerCoercion\(ReifyFnPointer.*\)$", r)
        if mfp and not r.startswith(("copy ", "move ", "const ")):
            fi = self.fn_item(strip_gen(mfp.group(1)))
            if fi is not None: return fi
            return StdFn(mfp.group(1))
        m = re.match(r"^((?:copy|move|const) .*?) as (.+) \(([\w(), ]+)\)$", r)
        if m and self.balanced(m.group(1)): return self.operand(m.group(1), fr)     # casts: identity on ints/pointers
        if r.startswith("(") and r.endswith(")") and not re.match(r"^\(.*: .*\)$", r):
            return TupleV([self.operand(x, fr) for x in split_top(r[1:-1])])
        if r == "()": return TupleV([])
        mrep = re.match(r"^\[(.*); ([A-Z]|\d+)\]$", r)
        if mrep and self.balanced(mrep.group(1)):
            n = int(mrep.group(2)) if mrep.group(2).isdigit() else self.cenv[-1][mrep.group(2)]
            v0 = self.operand(mrep.group(1), fr)
            return [deep(v0) for _ in range(n)]
        if r.startswith("[") and r.endswith("]"):
            return [self.operand(x, fr) for x in split_top(r[1:-1])]
        m = re.match(r"^([\w:<>'_, ()&\[\]]+?) \{ (.*) \}$", r)
        if m and not r.startswith(("copy ", "move ")):
            path = strip_gen(m.group(1).strip()); kv = [x.split(": ", 1) for x in split_top(m.group(2))]
            vals = {k.strip(): self.operand(v, fr) for k, v in kv}
            parts = re.sub(r"::<.*?>(?=::|$)", "", path).split("::")
            name = re.sub(r"<.*$", "", parts[-1])
            prev = re.sub(r"<.*$", "", parts[-2]) if len(parts) >= 2 else None
            prev_is_enum = prev is not None and (prev in self.enums or prev in STD_ENUMS) and name in (self.enums.get(prev) or STD_ENUMS.get(prev) or [])
            if name in self.structs and not prev_is_enum:
                return StructV(name, [vals[f] for f in self.structs[name]] if all(f in vals for f in self.structs[name]) else list(vals.values()))
            if "::" not in path and getattr(self, "dest_type", None):
                path = strip_gen(self.dest_type) + "::" + path
            ty, idx = self.variant_index(path)
            return EnumV(ty, idx, list(vals.values()))
        m = re.match(r"^((?:\w+::)*[A-Z]\w*)\((.*)\)$", r)
        if m and m.group(1) in MIR_OPERATORS: raise Unsupported("MIR operator " + r[:60])      # never read an operator as an enum constructor
        if m and self._is_tuple_struct_ctor(m.group(1)):
            return StructV(m.group(1).split("::")[-1], [self.operand(x, fr) for x in split_top(m.group(2))])
        if m and "::" not in m.group(1) and getattr(self, "dest_type", None):
            ty, idx = self.variant_index(strip_gen(self.dest_type) + "::" + m.group(1))
            return EnumV(ty, idx, [self.operand(x, fr) for x in split_top(m.group(2))])
        m = re.match(r"^([\w:<>'_, &\[\]()]+?)::(\w+)\((.*)\)$", r)
        if m and not r.startswith(("copy ", "move ", "const ")):
            ty, idx = self.variant_index(m.group(1) + "::" + m.group(2))
            return EnumV(ty, idx, [self.operand(x, fr) for x in split_top(m.group(3))])
        m = re.match(r"^([\w:<>'_, &\[\]()]+?)::(\w+)$", r)
        if m and not r.startswith(("copy ", "move ", "const ")):
            fi = self.fn_item(strip_gen(r))
            if fi is not None: return fi
            ty, idx = self.variant_index(r); return EnumV(ty, idx, [])
        if re.match(r"^[A-Z]\w*$", r):
            lt = getattr(self, "dest_type", None)
            if lt:
                return EnumV(*self.variant_index(strip_gen(lt) + "::" + r), [])
            for ty in ["Token"] + [t for t in self.enums if t != "Token"]:
                if r in self.enums[ty]: return EnumV(ty, self.enums[ty].index(r), [])
        return self.operand(r, fr)
    def all_variants(self):
        if not hasattr(self, "_allv"):
            self._allv = set(v for vs in list(self.enums.values()) + list(STD_ENUMS.values()) + list(QENUMS.values()) for v in vs)
        return self._allv
    def _is_tuple_struct_ctor(self, path):
        name = path.split("::")[-1]
        dt = getattr(self, "dest_type", None)
        if dt:
            base = re.sub(r"<.*$", "", strip_gen(dt)).split("::")[-1]
            if base == name and name in self.structs: return True       # `Label(..)` into a local of type Label
        if name not in self.all_variants(): return True
        if "::" in path:
            prev = re.sub(r"<.*$", "", path.split("::")[-2])
            if prev in self.enums or prev in STD_ENUMS or any(k[1] == prev for k in QENUMS): return False
        return not self._dest_is_enum_with(name) and name in self.structs
    def _dest_is_enum_with(self, vname):
        dt = getattr(self, "dest_type", None)
        if not dt: return False
        try:
            self.variant_index(strip_gen(dt) + "::" + vname); return True
        except (Unsupported, ValueError): return False
    # ---- calls
    def resolve(self, callee, args):
        if not hasattr(self, "_rcache"): self._rcache = {}
        if callee in self._rcache: return self._rcache[callee]
        r = self._resolve(callee, args)
        self._rcache[callee] = r
        return r
    def _resolve(self, callee, args):
        c = strip_gen(callee)
        if c in self.fns: return self.fns[c]
        if not hasattr(self, "impls"):
            self.impls = {}
            for n, f in self.fns.items():
                if "<impl at" in n and "{closure" not in n:
                    info = impl_info(n)
                    if info: self.impls.setdefault((info[0], info[1], n.split("::")[-1]), f)
        base = lambda t: re.sub(r"<.*$", "", t.strip().lstrip("&").replace("mut ", "")).split("::")[-1]
        m = re.match(r"^<(.+) as (.+?)>::(\w+)$", c)
        if m:
            k = (base(m.group(2)), base(m.group(1)), m.group(3))
            if k in self.impls: return self.impls[k]
            alts = [f for (tr, ty, me), f in self.impls.items() if tr == k[0] and me == k[2]]
            if len(alts) > 1 and "::" in m.group(2):
                mod = strip_gen(m.group(2)).split("::")[-2]
                alts = [f for f in alts if f.name.startswith(mod + "::")]
            return alts[0] if len(alts) == 1 and k[0] not in ("Clone", "PartialEq", "PartialOrd", "Ord", "Hash", "Debug", "Display", "Iterator", "IntoIterator", "Deref", "Index", "Try", "FromResidual", "ToString", "Into", "From") else None
        parts = c.split("::")
        if len(parts) >= 2:
            k = (None, base(parts[-2]), parts[-1])
            if k in self.impls: return self.impls[k]
            # module-level function referred to with a module path
            for n, f in self.fns.items():
                if n.endswith("::" + "::".join(parts[-2:])) or n == parts[-1] and False: return f
        cands = [f for n, f in self.fns.items() if n == parts[-1]]
        if len(cands) == 1 and len(parts) <= 2 and parts[0] not in ("Vec", "Option", "Result", "Box", "HashMap", "BTreeMap", "BTreeSet", "String"): return cands[0]
        return None
    def call(self, callee, args):
        if DUPS and any(isinstance(x, FnItem) and x.fn.name in DUPS for x in args):
            args = [pick_dup(callee, x) if isinstance(x, FnItem) and x.fn.name in DUPS else x for x in args]
        if re.match(r"^<.* as Clone>::clone$", strip_gen(callee)):
            v = args[0]
            while isinstance(v, Ref): v = v.get()
            return deep(v)
        stubs = getattr(self, "stubs", None)
        if stubs:
            cs = strip_gen(callee)
            for suf, fn_ in stubs.items():
                if cs.endswith(suf): return fn_(args)
        f = self.resolve(callee, args)
        if f is not None:
            mg = re.search(r"::<(\d+)>$", callee)
            if mg:
                self.cenv.append({"N": int(mg.group(1))})
                try: return self.run(f, args)
                finally: self.cenv.pop()
            return self.run(f, args)
        return self.model(callee, args)
    def model(self, callee, a):
        c = strip_gen(callee)
        def opt(v=None): return EnumV("Option", 0, []) if v is None else EnumV("Option", 1, [v])

        if re.match(r"^core::slice::<impl \[.*\]>::get$", c):
            s, i = a
            if isinstance(s, Ref): s = s.get()
            lst = s.items if isinstance(s, VecV) else s
            return opt(Ref(lst, i)) if 0 <= i < len(lst) else opt()
        if c.endswith("Option::unwrap_or"): return a[0].fields[0] if a[0].disc == 1 else a[1]
        if c.endswith("Option::unwrap"):
            if a[0].disc != 1: raise Panic("unwrap on None")
            return a[0].fields[0]
        if re.match(r"^<.* as Clone>::clone$", c): return deep(a[0].get())
        if c.endswith("as Try>::branch"):
            r = a[0]
            return EnumV("ControlFlow", 0, [r.fields[0]]) if r.disc == 0 else EnumV("ControlFlow", 1, [EnumV("Result", 1, [r.fields[0]])])
        if c.endswith(">::from_residual"): return EnumV("Result", 1, [a[0].fields[0]])
        if c == "Box::new": return BoxV(a[0])
        if re.match(r"^<.* as PartialOrd>::(le|lt|ge|gt)$", c):
            op = c[-2:]
            o = self.call(c[:-2] + "partial_cmp", a)      # Option<Ordering>
            d = o.fields[0].disc if isinstance(o, EnumV) and o.ty == "Option" else o
            return {"le": d <= 0, "lt": d < 0, "ge": d >= 0, "gt": d > 0}[op]
        if c == "std::intrinsics::discriminant_value":
            return a[0].get().disc
        if re.match(r"^<&*(isize|usize|i64|u8|i32|u32) as PartialOrd>::partial_cmp$", c):
            x, y = dr(a[0]), dr(a[1])
            if isinstance(x, int) and isinstance(y, int): d = (x > y) - (x < y)
            else: d = z3.If(x < y, -1, z3.If(x == y, 0, 1))
            return EnumV("Option", 1, [EnumV("Ordering", d, [])])
        if c in ("format", "alloc::fmt::format", "std::fmt::format", "format_inner", "alloc::fmt::format::format_inner"): return "<fmt>"
        if c.startswith(("Arguments::", "core::fmt::rt::Argument::")): return Opaque("fmtarg")
        if c == "Vec::new": return VecV([])
        if c == "<FileOrLib as Clone>::clone": return deep(a[0].get())
        if c == "std::boxed::box_assume_init_into_vec_unsafe": return VecV(list(a[0].fields[0]))
        raise Unsupported("model for " + callee)
    # ---- running a function body
    _SKIP = ("StorageLive", "StorageDead", "nop", "FakeRead", "PlaceMention", "Retag", "AscribeUserType", "Coverage", "ConstEvalCounter")
    _stmt_cache = {}
    @classmethod
    def compile_stmt(cls, st):
        """classify one MIR statement/terminator (cached by its text)"""
        c = cls._stmt_cache.get(st)
        if c is not None: return c
        if st.startswith(cls._SKIP): c = ("skip",)
        elif st == "return": c = ("return",)
        elif st in ("unreachable", "resume"): c = ("unreachable",)
        else:
            m = re.match(r"^goto -> (bb\d+)$", st)
            if m: c = ("goto", m.group(1))
            if c is None:
                m = re.match(r"^drop\((.*)\) -> \[return: (bb\d+)", st)
                if m: c = ("goto", m.group(2))
            if c is None:
                m = re.match(r"^assert\((!?)(.*?), \"(.*?)\".*\) -> \[success: (bb\d+)", st)
                if m: c = ("assert", bool(m.group(1)), m.group(2), m.group(3), m.group(4))
            if c is None:
                m = re.match(r"^switchInt\((.*)\) -> \[(.*)\]$", st)
                if m:
                    arms = [x.split(": ") for x in split_top(m.group(2))]
                    other = dict(arms).get("otherwise")
                    c = ("switch", m.group(1), [(int(k), t) for k, t in arms if k != "otherwise"], other)
            if c is None:
                m = re.match(r"^(.+?) = (.+) -> \[return: (bb\d+)", st)
                if m and m.group(2).endswith(")"):
                    rhs = m.group(2); d = 0; j = len(rhs) - 1
                    while True:
                        ch = rhs[j]
                        if ch == '"' and (j == 0 or rhs[j - 1] != "\\"):
                            j -= 1                                  # skip a string literal backwards
                            while not (rhs[j] == '"' and (j == 0 or rhs[j - 1] != "\\")): j -= 1
                        elif ch == "'" and j >= 2 and rhs[j - 2] == "'": j -= 2          # char literal 'x'
                        elif ch == ")": d += 1
                        elif ch == "(":
                            d -= 1
                            if d == 0: break
                        j -= 1
                    c = ("call", m.group(1), rhs[:j].strip(), split_top(rhs[j+1:-1]), m.group(3))
            if c is None:
                m = re.match(r"^(.+?) = (.+?)\((.*)\) -> unwind", st)
                if m: c = ("diverge", m.group(2))
            if c is None:
                m = re.match(r"^(.+?) = (.+)$", st)
                if m: c = ("assign", m.group(1).strip(), m.group(2))
            if c is None: c = ("bad", st)
        cls._stmt_cache[st] = c
        return c
    MAX_CALL_DEPTH = 1500          # nested MIR calls; the deepest legitimate nesting on the templates is a few hundred
    def run(self, f, args):
        self.depth = getattr(self, "depth", 0) + 1
        try:
            if self.depth > self.MAX_CALL_DEPTH: raise RecursionError("more than %d nested calls (last: %s)" % (self.MAX_CALL_DEPTH, f.name))
            return self._run(f, args)
        finally: self.depth -= 1
    def _run(self, f, args):
        fr = {}
        zst = getattr(f, "_zst", None)
        if zst is None:
            zst = f._zst = [(l, t[9:t.index("}")]) for l, t in f.ltypes.items() if t.startswith("{closure@") and "}" in t]
        for l, pos in zst: fr[l] = StructV("closure@" + pos, [])       # zero-sized closures are never assigned in MIR
        for (p, _), v in zip(f.params, args): fr[p] = v
        bb = "bb0"
        compile_stmt = self.compile_stmt
        while True:
            for st in f.blocks[bb]:
                self.steps += 1
                self.last = (f.name, bb, st)
                c = compile_stmt(st); k = c[0]
                if k == "skip": continue
                if k == "assign":
                    self.dest_type = f.ltypes.get(c[1])
                    self.parse_place(c[1], fr).set(self.rvalue(c[2], fr)); continue
                if k == "call":
                    argv = [self.operand(x, fr) for x in c[3]]
                    mloc = re.match(r"^(?:copy |move )?(_\d+)$", c[2].strip())
                    if mloc:                                   # call through a fn pointer held in a local
                        fv = fr[mloc.group(1)]
                        while isinstance(fv, Ref): fv = fv.get()
                        if isinstance(fv, FnItem): res = self.run(fv.fn, argv)
                        elif isinstance(fv, StdFn): res = self.model(fv.name, argv)
                        else: raise Unsupported("call through %r" % (fv,))
                    else: res = self.call(c[2], argv)
                    self.parse_place(c[1], fr).set(res); bb = c[4]; break
                if k == "goto": bb = c[1]; break
                if k == "switch":
                    v = self.operand(c[1], fr)
                    if isinstance(v, bool): v = int(v)
                    if isinstance(v, int):
                        tgt = None
                        for kk, t in c[2]:
                            if kk == v: tgt = t
                        bb = tgt or c[3]; break
                    if z3.is_bool(v): v = z3.If(v, 1, 0)
                    groups = {}; listed = []
                    for kk, t in c[2]:
                        groups.setdefault(t, []).append(v == kk); listed.append(v == kk)
                    options = [(t, z3.Or(cs)) for t, cs in groups.items()]
                    if c[3] is not None: options.append((c[3] + "#o", z3.Not(z3.Or(listed))))
                    bb = self.decide(options).split("#")[0]; break
                if k == "return": return fr.get("_0")
                if k == "assert":
                    cond = self.operand(c[2], fr)
                    if c[1]: cond = (not cond) if isinstance(cond, bool) else z3.Not(cond)
                    if isinstance(cond, bool):
                        if not cond: raise Panic(c[3])
                    else:
                        if self.decide([("ok", cond), ("panic", z3.Not(cond))]) == "panic": raise Panic(c[3])
                    bb = c[4]; break
                if k == "unreachable": raise Panic("unreachable terminator in " + f.name)
                if k == "diverge": raise Panic("diverging call " + c[1])
                raise Unsupported("stmt " + st)
            else:
                raise Unsupported("block %s of %s fell through" % (bb, f.name))
    # ---- exploring all paths
    def explore(self, thunk):
        results = []; self.pending = [[]]
        while self.pending:
            self.prefix = self.pending.pop(); self.decisions = []; self.pc = []
            self.solver = z3.Solver(); self.solver.add(self.base)
            try: out = ("ok", thunk())
            except Unsupported as e:
                print("UNSUPPORTED", e, "at", self.last); raise
            except (IndexError, KeyError, AttributeError, TypeError, ValueError) as e:
                print("INTERNAL", type(e).__name__, e, "at", self.last); raise
            except Panic as e: out = ("panic", str(e))
            except RecursionError: out = ("panic", "unbounded recursion (stack overflow in the real compiler)")
            except Infeasible: continue
            results.append((list(self.pc), out))
        return results


# =================================================================== stage-2 additions
class IterV:
    """lazy iterator over python generator semantics; items produced by a python callable next()"""
    def __init__(self, nxt): self.nxt = nxt
class MapV:
    def __init__(self, kind): self.kind = kind; self.d = {}; self.order = []   # kind: "btree" | "hash"
class SetV:
    def __init__(self): self.items = []
class ClosureRefErr(Exception): pass

def key_repr(v):
    if isinstance(v, Ref): return key_repr(v.get())
    if isinstance(v, ChoiceV): return key_repr(force(v))
    if isinstance(v, (int, str, bool, float)): return v
    if isinstance(v, EnumV): return ("E", v.ty.split("::")[-1], v.disc, tuple(key_repr(x) for x in v.fields))
    if isinstance(v, (StructV, TupleV)): return ("S", tuple(key_repr(x) for x in v.fields))
    if isinstance(v, SetV): return ("Set", tuple(key_repr(x) for x in v.items))
    raise Unsupported("key_repr %r" % (v,))

def cmp_val(a, b):
    ka, kb = key_repr(a), key_repr(b)
    def c(x, y):
        if isinstance(x, tuple) and isinstance(y, tuple):
            for i in range(min(len(x), len(y))):
                r = c(x[i], y[i])
                if r: return r
            return (len(x) > len(y)) - (len(x) < len(y))
        if type(x) != type(y): x, y = str(x), str(y)
        return (x > y) - (x < y)
    return c(ka, kb)

def opt(v=None): return EnumV("Option", 0, []) if v is None else EnumV("Option", 1, [v])

def install(ex):
    base_model = ex.model
    closures = {}
    for n, f in ex.fns.items():
        if f.params:
            m = re.search(r"\{closure@([^}]*)\}", f.params[0][1])
            if m and "{closure#" in n.split("::")[-1]: closures.setdefault(m.group(1), f)
    def call_closure(cl, args, text=""):
        pos = None
        clv = cl
        while isinstance(clv, Ref): clv = clv.get()
        if isinstance(clv, FnItem): return ex.run(clv.fn, list(args))
        if isinstance(clv, StdFn): return ex.model(clv.name, list(args))
        if isinstance(clv, StructV) and clv.ty.startswith("closure@"): pos = clv.ty[8:]
        if pos is None:
            m = re.search(r"\{closure@([^}]*)\}", text)
            if m: pos = m.group(1)
        if pos is None or pos not in closures: raise Unsupported("closure call %r %s" % (clv, text))
        f = closures[pos]
        selfarg = cl if isinstance(cl, Ref) else Ref([clv], 0)
        if not f.params[0][1].startswith("&"): selfarg = clv
        return ex.run(f, [selfarg] + list(args))
    ex.call_closure = call_closure
    def lst_of(v):
        if isinstance(v, Ref): v = v.get()
        if isinstance(v, VecV): return v.items
        if isinstance(v, list): return v
        raise Unsupported("lst_of %r" % (v,))
    def mk_iter(seq):
        it = iter(seq)
        def nxt():
            for x in it: return opt(x)
            return opt()
        return IterV(nxt)
    def drain(itv):
        out = []
        while True:
            o = itv.nxt()
            if o.disc == 0: return out
            out.append(o.fields[0])
    def model(callee, a):
        c = strip_gen(callee).replace("std::collections::", "")
        # ---------------- deref / index / vec / slice
        if re.match(r"^<Vec<.*> as Deref(Mut)?>::deref(_mut)?$", c): return a[0]
        if re.match(r"^<Vec<.*> as (std::ops::)?Index(Mut)?<usize>>::index(_mut)?$", c):
            l = lst_of(a[0]); i = a[1]
            if not (0 <= i < len(l)): raise Panic("index out of bounds")
            return Ref(l, i)
        if c in ("Vec::len",) or re.match(r"^core::slice::<impl \[.*\]>::len$", c): return len(lst_of(a[0]))
        if c == "Vec::is_empty" or re.match(r"^core::slice::<impl \[.*\]>::is_empty$", c): return len(lst_of(a[0])) == 0
        if c == "Vec::push": lst_of(a[0]).append(a[1]); return TupleV([])
        if c == "Vec::truncate": del lst_of(a[0])[a[1]:]; return TupleV([])
        if c == "Vec::clear": del lst_of(a[0])[:]; return TupleV([])
        if c == "Vec::append": lst_of(a[0]).extend(lst_of(a[1])); del lst_of(a[1])[:]; return TupleV([])
        if c == "Vec::pop":
            l_ = lst_of(a[0]); return opt(l_.pop()) if l_ else opt()
        if re.match(r"^core::slice::<impl \[.*\]>::(last|last_mut)$", c):
            l = lst_of(a[0]); return opt(Ref(l, len(l) - 1)) if l else opt()
        if re.match(r"^core::slice::<impl \[.*\]>::iter$", c): l = lst_of(a[0]); return mk_iter([Ref(l, i) for i in range(len(l))])
        if re.match(r"^<&?(mut )?(Vec<.*>|\[.*\]) as IntoIterator>::into_iter$", c):
            l = lst_of(a[0]); return mk_iter([Ref(l, i) for i in range(len(l))])
        if c.endswith("as IntoIterator>::into_iter") and not re.match(r"^<&?(mut )?(BTreeSet<|BTreeMap<|\[.*; \d+\])", c):
            v0 = a[0].get() if isinstance(a[0], Ref) else a[0]
            if isinstance(v0, EnumV) and v0.ty == "Option": return mk_iter(list(v0.fields) if v0.disc == 1 else [])
            return a[0]
        if c.endswith("as Iterator>::next"):
            it = a[0].get() if isinstance(a[0], Ref) else a[0]; return it.nxt()
        def seq_of(v):
            if isinstance(v, Ref):
                v = v.get()
                if isinstance(v, VecV): return [Ref(v.items, i) for i in range(len(v.items))]      # iterating a &Vec yields references
                if isinstance(v, list): return [Ref(v, i) for i in range(len(v))]
            if isinstance(v, IterV): return drain(v)
            if isinstance(v, SetV): return list(v.items)
            if isinstance(v, VecV): return list(v.items)
            if isinstance(v, list): return list(v)
            if isinstance(v, EnumV) and v.ty == "Option": return list(v.fields)
            if isinstance(v, MapV): return [TupleV([v.d[k][0], v.d[k][1]]) for k in (ex.ordered_keys(v) if hasattr(ex, "ordered_keys") else list(v.d))]
            raise Unsupported("seq_of %r" % (v,))
        if c.endswith("as Iterator>::flatten"):
            outer = a[0]
            def gen():
                for x in drain(outer):
                    for y in seq_of(x): yield y
            return mk_iter(gen())
        if c.endswith("as Iterator>::chain"):
            first, second = a
            def gen2():
                for x in drain(first): yield x
                for y in seq_of(second): yield y
            return mk_iter(gen2())
        if c == "BTreeSet::union":
            import functools
            x, y = (a[0].get() if isinstance(a[0], Ref) else a[0]), (a[1].get() if isinstance(a[1], Ref) else a[1])
            items = list(x.items) + [e for e in y.items if not any(key_repr(e) == key_repr(f) for f in x.items)]
            items.sort(key=functools.cmp_to_key(cmp_val))
            return mk_iter([Ref([e], 0) for e in items])
        if c == "BTreeSet::remove":
            s_ = a[0].get() if isinstance(a[0], Ref) else a[0]; k = key_repr(a[1]); n0 = len(s_.items)
            s_.items[:] = [e for e in s_.items if key_repr(e) != k]; return len(s_.items) != n0
        if re.match(r"^<&?(mut )?(BTreeSet<.*>|\[.*; \d+\]|BTreeMap<.*>) as IntoIterator>::into_iter$", c):
            tgt = a[0].get() if isinstance(a[0], Ref) else a[0]
            if c.startswith("<&") and isinstance(tgt, SetV): return mk_iter([Ref(tgt.items, i) for i in range(len(tgt.items))])
            return mk_iter(seq_of(tgt))
        if c.endswith("as Iterator>::rev"): return mk_iter(list(reversed(drain(a[0]))))
        if c.endswith("as Iterator>::enumerate"):
            it = a[0]; cnt = [0]
            def nxt():
                o = it.nxt()
                if o.disc == 0: return o
                cnt[0] += 1; return opt(TupleV([cnt[0] - 1, o.fields[0]]))
            return IterV(nxt)
        if c.endswith("as Iterator>::zip"):
            x, y = a
            if not isinstance(y, IterV): y = mk_iter([Ref(lst_of(y), i) for i in range(len(lst_of(y)))])
            def nxt():
                p = x.nxt()
                if p.disc == 0: return p
                q = y.nxt()
                if q.disc == 0: return q
                return opt(TupleV([p.fields[0], q.fields[0]]))
            return IterV(nxt)
        if c.endswith("as Iterator>::map"):
            it, cl = a
            def nxt():
                o = it.nxt()
                if o.disc == 0: return o
                return opt(call_closure(cl, [o.fields[0]], callee))
            return IterV(nxt)
        if c.endswith("as Iterator>::cloned"):
            it = a[0]
            def nxt():
                o = it.nxt()
                return o if o.disc == 0 else opt(deep(o.fields[0].get() if isinstance(o.fields[0], Ref) else o.fields[0]))
            return IterV(nxt)
        if c.endswith("as Iterator>::filter"):
            it, cl = a
            def nxt():
                while True:
                    o = it.nxt()
                    if o.disc == 0: return o
                    if call_closure(cl, [Ref([o.fields[0]], 0)], callee): return o
            return IterV(nxt)
        if c.endswith("as Iterator>::find"):
            it = a[0].get() if isinstance(a[0], Ref) else a[0]; cl = a[1]
            while True:
                o = it.nxt()
                if o.disc == 0: return o
                if call_closure(cl, [Ref([o.fields[0]], 0)], callee): return o
        if "as Iterator>::collect" in c:
            target = callee[callee.index("collect::<") + 10:]
            items = drain(a[0])
            def build(tgt, items):
                if tgt.startswith("Vec<"): return VecV(items)
                if tgt.startswith("BTreeMap<") or tgt.startswith("HashMap<"):
                    m = MapV("btree" if tgt.startswith("B") else "hash")
                    for kv in items: map_insert(m, kv.fields[0], kv.fields[1])
                    return m
                if tgt.startswith("BTreeSet<"):
                    s_ = SetV()
                    for x in items: set_insert(s_, x)
                    return s_
                raise Unsupported("collect into " + tgt)
            if target.startswith("Result<"):
                okv = []
                for r in items:
                    if r.disc == 1: return EnumV("Result", 1, [r.fields[0]])
                    okv.append(r.fields[0])
                return EnumV("Result", 0, [build(target[7:], okv)])
            return build(target, items)
        # ---------------- maps / sets
        if c in ("BTreeMap::new", "HashMap::new"): return MapV("btree" if c[0] == "B" else "hash")
        if c in ("BTreeSet::new",): return SetV()
        if c in ("BTreeMap::insert", "HashMap::insert"):
            old = map_insert(a[0].get() if isinstance(a[0], Ref) else a[0], a[1], a[2]); return opt(old) if old is not None else opt()
        if c in ("HashMap::get", "BTreeMap::get"):
            m = a[0].get() if isinstance(a[0], Ref) else a[0]; k = key_repr(a[1])
            return opt(Ref(m.d[k], 1)) if k in m.d else opt()
        if c in ("HashMap::contains_key", "BTreeMap::contains_key"):
            m = a[0].get() if isinstance(a[0], Ref) else a[0]; return key_repr(a[1]) in m.d
        if c in ("HashMap::len", "BTreeMap::len"): return len((a[0].get() if isinstance(a[0], Ref) else a[0]).d)
        if re.match(r"^<HashMap<.*> as (std::ops::)?Index<.*>>::index$", c):
            m = a[0].get() if isinstance(a[0], Ref) else a[0]; k = key_repr(a[1])
            if k not in m.d: raise Panic("HashMap index: key not found")
            return Ref(m.d[k], 1)
        if c in ("BTreeMap::iter", "HashMap::iter"):
            m = a[0].get() if isinstance(a[0], Ref) else a[0]
            if hasattr(ex, "ordered_keys"): keys = ex.ordered_keys(m)
            else:
                keys = list(m.d.keys())
                if m.kind == "btree":
                    import functools; keys.sort(key=functools.cmp_to_key(lambda x, y: cmp_val_k(x, y)))
            return mk_iter([TupleV([Ref(m.d[k], 0), Ref(m.d[k], 1)]) for k in keys])
        if c == "BTreeMap::entry" or c == "HashMap::entry":
            m_ = a[0].get() if isinstance(a[0], Ref) else a[0]; occ = key_repr(a[1]) in m_.d
            if c[0] == "B": return EnumV("BEntry", 1 if occ else 0, [TupleV([m_, a[1]])])     # btree_map::Entry declares Vacant first
            return EnumV("Entry", 0 if occ else 1, [TupleV([m_, a[1]])])
        if c.endswith("VacantEntry::insert"):
            m, k = a[0].fields; map_insert(m, k, a[1]); return Ref(m.d[key_repr(k)], 1)
        if c.endswith("OccupiedEntry::get"):
            e_ = a[0].get() if isinstance(a[0], Ref) else a[0]; m, k = e_.fields; return Ref(m.d[key_repr(k)], 1)
        if c.endswith("Entry::or_insert_with"):
            m, k = a[0].fields[0].fields; kr = key_repr(k)
            if kr not in m.d: map_insert(m, k, call_closure(a[1], [], callee))
            return Ref(m.d[kr], 1)
        if c == "BTreeSet::insert":
            return set_insert(a[0].get() if isinstance(a[0], Ref) else a[0], a[1])
        if c == "BTreeSet::contains":
            s_ = a[0].get() if isinstance(a[0], Ref) else a[0]; return any(key_repr(x) == key_repr(a[1]) for x in s_.items)
        if c == "BTreeSet::iter":
            s_ = a[0].get() if isinstance(a[0], Ref) else a[0]; return mk_iter([Ref(s_.items, i) for i in range(len(s_.items))])
        if re.match(r"^<(BTreeMap|HashMap|BTreeSet)<.*> as Clone>::clone$", c):
            return clone_coll(a[0].get())
        # ---------------- strings / misc
        if re.match(r"^<(&)?(std::string::String|str|&str) as (ToString>::to_string|Into<.*>>::into|Clone>::clone)$", c):
            return dr(a[0])
        if re.match(r"^<&?(std::string::String|str|&str|&std::string::String) as PartialEq(<.*>)?>::eq$", c):
            x, y = a
            x = dr(x)
            y = dr(y)
            return x == y
        if re.match(r"^<&?(TyID|usize|i64|bool|isize|&TyID|&usize|&i64) as PartialEq>::eq$", c):
            x, y = a
            x = dr(x)
            y = dr(y)
            return key_repr(x) == key_repr(y)
        if c == "std::string::String::as_str": return a[0]
        if c == "core::bool::then":
            return opt(call_closure(a[1], [], callee)) if a[0] else opt()
        if c in ("Option::map",):
            return a[0] if a[0].disc == 0 else opt(call_closure(a[1], [a[0].fields[0]], callee))
        if c == "Option::unwrap_or_else": return a[0].fields[0] if a[0].disc == 1 else call_closure(a[1], [], callee)
        if c == "Option::or": return a[0] if a[0].disc == 1 else a[1]
        if c == "Option::is_some": return a[0].get().disc == 1 if isinstance(a[0], Ref) else a[0].disc == 1
        if c == "Option::is_none": return a[0].get().disc == 0 if isinstance(a[0], Ref) else a[0].disc == 0
        if c == "Result::map": return a[0] if a[0].disc == 1 else EnumV("Result", 0, [call_closure(a[1], [a[0].fields[0]], callee)])
        if c == "Result::map_err": return a[0] if a[0].disc == 0 else EnumV("Result", 1, [call_closure(a[1], [a[0].fields[0]], callee)])
        if c == "Result::or_else": return a[0] if a[0].disc == 0 else call_closure(a[1], [a[0].fields[0]], callee)
        if c == "Result::and": return a[1] if a[0].disc == 0 else a[0]
        if c == "Result::is_ok": return (a[0].get() if isinstance(a[0], Ref) else a[0]).disc == 0
        if re.search(r" as (std::ops::)?Fn(Mut|Once)?<.*>>::call(_mut|_once)?$", c):
            args = a[1].fields if isinstance(a[1], TupleV) else [a[1]]
            return call_closure(a[0], args, callee)
        if c == "Box::new_uninit": return BoxV([None])
        if c == "must_use": return a[0]
        if c.endswith("TypeChecker::bake_type"): return Opaque("baked type")
        if c.startswith("Formatter::") or c == "std::io::_eprint": return EnumV("Result", 0, [TupleV([])])
        if c.endswith("Path::to_string_lossy") or c.endswith("as Deref>::deref"): return a[0]
        return base_model(callee, a)
    def cmp_val_k(x, y):
        def c(x, y):
            if isinstance(x, tuple) and isinstance(y, tuple):
                for i in range(min(len(x), len(y))):
                    r = c(x[i], y[i])
                    if r: return r
                return (len(x) > len(y)) - (len(x) < len(y))
            if type(x) != type(y): x, y = str(x), str(y)
            return (x > y) - (x < y)
        return c(x, y)
    def map_insert(m, k, v):
        kr = key_repr(k); old = m.d[kr][1] if kr in m.d else None
        if kr in m.d: m.d[kr][1] = v
        else: m.d[kr] = [k, v]
        return old
    def set_insert(s_, x):
        if any(key_repr(y) == key_repr(x) for y in s_.items): return False
        s_.items.append(x)
        import functools; s_.items.sort(key=functools.cmp_to_key(cmp_val)); return True
    def clone_coll(m):
        if isinstance(m, MapV):
            n = MapV(m.kind)
            for kr, (k, v) in m.d.items(): n.d[kr] = [deep(k), deep(v)]
            return n
        n = SetV(); n.items = [deep(x) for x in m.items]; return n
    ex.model = model
    # deep() must understand collections
    global deep
    old_deep = deep
    def deep2(v):
        if isinstance(v, (MapV, SetV)): return clone_coll(v)
        if isinstance(v, EnumV): return EnumV(v.ty, v.disc, [deep2(x) for x in v.fields])
        if isinstance(v, StructV): return StructV(v.ty, [deep2(x) for x in v.fields])
        if isinstance(v, TupleV): return TupleV([deep2(x) for x in v.fields])
        if isinstance(v, BoxV): return BoxV(deep2(v.fields[0]))
        if isinstance(v, VecV): return VecV([deep2(x) for x in v.items])
        return v
    deep = deep2



# =================================================================== facade
SRC_FILES = ["sylt-tokenizer/src/token.rs", "sylt-tokenizer/src/tokenizer.rs", "sylt-common/src/lib.rs", "sylt-common/src/ty.rs", "sylt-common/src/error.rs",
             "sylt-parser/src/parser.rs", "sylt-parser/src/expression.rs", "sylt-parser/src/statement.rs",
             "sylt-compiler/src/name_resolution.rs", "sylt-compiler/src/typechecker.rs", "sylt-compiler/src/ty.rs", "sylt-compiler/src/dependency.rs",
             "sylt-compiler/src/intermediate.rs", "sylt-compiler/src/compiler.rs", "sylt-compiler/src/lua.rs"]


class Machine:
    """loads MIR dumps + type declarations and explores an entry function on given arguments"""
    def __init__(self, mir_paths, repo_root, src_files=None, stage2=True):
        global REPO_ROOT
        REPO_ROOT = repo_root
        _SRC.clear()
        import os
        self.fns, self.consts = {}, {}
        for p in mir_paths: load(p, self.fns, self.consts)
        self.enums, self.structs = parse_defs([os.path.join(repo_root, f) for f in (src_files or SRC_FILES)])
        self.ex = Exec(self.fns, self.consts, self.enums, self.structs)
        if stage2:
            install(self.ex)
            from mirsym import models2
            models2.install(self.ex)
        self.ex.base = []
        STD = ("common", "container", "dict", "list", "math", "maybe", "preamble", "set", "unsafe")
        def dr(v):
            while isinstance(v, Ref): v = v.get()
            return v
        # sylt_common::library_name / library_source read a static table of include_str!'d files: modelled by their contract
        self.ex.stubs = {"library_name": lambda a: opt(dr(a[0])) if dr(a[0]) in STD else opt(),
                         "library_source": lambda a: opt("<std source of %s>" % dr(a[0])) if dr(a[0]) in STD else opt()}
    def qenum(self, mod, ty): return QENUMS[(mod, ty)]
    def explore(self, entry, mk_args, base=()):
        self.ex.base = list(base); self.ex.steps = 0; self.ex.queries = 0
        f = self.fns[entry] if isinstance(entry, str) else entry
        return self.ex.explore(lambda: self.ex.run(f, mk_args()))
