"""K-tc: the real front end from MIR (resolve -> initialization_order -> typechecker::solve [-> intermediate::compile])
on templates with symbolic positions (macros.py). One exploration covers every assignment of the selectors; each
explored path carries its path condition over the selectors and the phase outcome."""
import time
import z3
from mirsym import core as M, pipeline as P, macros as X

PRELUDE = "pr: fn *X -> void : external\n"


class Kernel:
    def __init__(self, pl=None):
        self.pl = pl or P.Pipeline()
        self.m = self.pl.m; self.ex = self.m.ex
    def explore(self, text, lit_kinds=None, ops=None, tys=None, with_ir=False, max_paths=4000, files=None, optional_annotations=False):
        """returns dict(paths=[(pc, outcome dict)], sels={name: (var, domain)}, stats)"""
        pl = self.pl; ex = self.ex
        ast0, err = pl.parse_native(dict({"main.sy": PRELUDE + text}, **(files or {})), no_std=True)
        if ast0 is None: return {"error": "template does not parse natively: " + (err or "")[:400]}
        exp = X.Expander(pl, lit_kinds, ops, tys, optional_annotations)
        ast_t = exp.walk(ast0)
        if optional_annotations: ast_t = exp.walk_annotations(ast_t)
        ns0 = pl.namespaces(ast0)
        fns = self.m.fns
        SV = M.QENUMS[("name_resolution", "Statement")]
        def thunk():
            ast = M.deep(ast_t); ns = M.deep(ns0)
            r = ex.run(fns["resolve"], [M.Ref([ast], 0), M.Ref([ns], 0)])
            if r.disc != 0: return {"phase": "resolve", "accepted": False, "errors": r.fields[0]}
            vars_, stmts = r.fields[0].fields
            o = ex.run(fns["initialization_order"], [M.Ref([stmts], 0)])
            if o.disc != 0: return {"phase": "order", "accepted": False, "errors": None}
            items = [M.deep(x.get() if isinstance(x, M.Ref) else x) for x in o.fields[0].items]
            items.sort(key=lambda s: 0 if SV[s.disc] in ("Blob", "Enum") else 1)
            ss = M.VecV(items)
            s = ex.run(fns["solve"], [M.Ref([vars_], 0), M.Ref([ss], 0), M.Ref([ns], 0)])
            if s.disc != 0: return {"phase": "solve", "accepted": False, "errors": s.fields[0]}
            out = {"phase": "solve", "accepted": True}
            if with_ir:
                ir = ex.run(fns["intermediate::compile"], [M.Ref([s.fields[0]], 0), M.Ref([ss], 0)])
                out["ir"] = ir
            return out
        t0 = time.time()
        ex.base = exp.base(); ex.steps = 0; ex.queries = 0
        res = []
        ex.pending = [[]]; n = 0
        # explore() of core, with a path cap
        results = ex.explore(thunk) if max_paths is None else self._explore_capped(thunk, max_paths)
        return {"paths": results, "sels": exp.sels, "steps": ex.steps, "queries": ex.queries, "wall_s": time.time() - t0, "base": exp.base()}
    def _explore_capped(self, thunk, cap):
        ex = self.ex
        results = []; ex.pending = [[]]
        while ex.pending:
            if len(results) >= cap: raise M.Unsupported("more than %d paths" % cap)
            ex.prefix = ex.pending.pop(); ex.decisions = []; ex.pc = []
            ex.solver = z3.Solver(); ex.solver.add(ex.base)
            try: out = ("ok", thunk())
            except M.Panic as e: out = ("panic", str(e))
            except RecursionError: out = ("panic", "unbounded recursion (stack overflow in the real compiler)")
            except M.Infeasible: continue
            results.append((list(ex.pc), out))
        return results


def sel_is(sels, name, value):
    v, dom = sels[name]
    return v == dom.index(value) if value in dom else z3.BoolVal(False)


def sel_in(sels, name, values):
    return z3.Or([sel_is(sels, name, x) for x in values]) if values else z3.BoolVal(False)


def model_assignment(model, sels):
    out = {}
    for n, (v, dom) in sels.items():
        out[n] = dom[model.eval(v, model_completion=True).as_long()]
    return out
