"""More std/alloc/core models for the E-MIR executor (added as the kernels needed them).
Every model implements the documented contract of the std function on the executor's value representation.
The table MODEL_NAMES is reported in evidence: it is part of each claim."""
import functools, re
import z3
from mirsym import core as M
from mirsym.core import EnumV, StructV, TupleV, BoxV, VecV, Ref, MapV, SetV, IterV, Opaque, Panic, Unsupported, opt, key_repr, cmp_val, strip_gen, deep

MODEL_NAMES = set()


def deref(v):
    while True:
        if isinstance(v, Ref): v = v.get()
        elif isinstance(v, M.ChoiceV): v = M.force(v)
        else: return v


def install(ex):
    base = ex.model
    call_closure = ex.call_closure
    def lst_of(v):
        v = deref(v)
        if isinstance(v, VecV): return v.items
        if isinstance(v, list): return v
        if isinstance(v, M.SliceRef): return v.lst[v.start:v.start + v.n]
        raise Unsupported("lst_of %r" % (v,))
    def mk_iter(seq):
        it = iter(seq)
        def nxt():
            for x in it: return opt(x)
            return opt()
        return IterV(nxt)
    def drain(itv):
        itv = deref(itv); out = []
        while True:
            o = itv.nxt()
            if o.disc == 0: return out
            out.append(o.fields[0])
    def truth(b):
        if isinstance(b, bool): return b
        return ex.decide([(True, b), (False, z3.Not(b))])
    def some(o): return deref(o).disc == 1
    def ok(r): return deref(r).disc == 0
    def val_eq(x, y):
        x, y = deref(x), deref(y)
        if isinstance(x, (int, str, bool, float)) and isinstance(y, (int, str, bool, float)): return x == y
        if z3.is_expr(x) or z3.is_expr(y): return truth(x == y)
        return key_repr(x) == key_repr(y)
    def model(callee, a):
        c = strip_gen(callee).replace("std::collections::", "")
        if "Range<" in c and " as Iterator>::" in c and not c.endswith("::next") and a and isinstance(deref(a[0]), StructV) and deref(a[0]).ty == "Range":
            r0 = deref(a[0]); a = [mk_iter(list(range(r0.fields[0], r0.fields[1])))] + list(a[1:])
        r = _model(c, callee, a)
        if r is not NotImplemented:
            MODEL_NAMES.add(re.sub(r"<.*?>", "<_>", c)[:80]); return r
        return base(callee, a)
    def _model(c, callee, a):
        # integer operators reached through the operator traits (`x + y` on `&i64` operands): overflow panics as in the dev profile the
        # MIR dump is taken with (-C overflow-checks=on)
        mop = re.match(r"^<&?(i8|i16|i32|i64|isize|u8|u16|u32|u64|usize) as (?:std::ops::|core::ops::)?(Add|Sub|Mul|Neg)(?:<.*>)?>::(add|sub|mul|neg)$", c)
        if mop:
            ity = mop.group(1); w = {"8": 8, "16": 16, "32": 32, "64": 64, "size": 64}[ity.lstrip("iu")]
            lo, hi = (-(2 ** (w - 1)), 2 ** (w - 1) - 1) if ity[0] == "i" else (0, 2 ** w - 1)
            xs = [deref(x) for x in a]
            v = -xs[0] if mop.group(3) == "neg" else xs[0] + xs[1] if mop.group(3) == "add" else xs[0] - xs[1] if mop.group(3) == "sub" else xs[0] * xs[1]
            if isinstance(v, int):
                if v < lo or v > hi: raise M.Panic("attempt to %s with overflow" % {"add": "add", "sub": "subtract", "mul": "multiply", "neg": "negate"}[mop.group(3)])
                return v
            return NotImplemented
        mref = re.match(r"^<&(mut )?(.+) as (PartialEq|std::cmp::PartialEq)(<.*>)?>::(eq|ne)$", c)
        if mref and not re.match(r"^(str|usize|i64|bool|isize|TyID|std::string::String)$", mref.group(2)):
            x = a[0].get() if isinstance(a[0], Ref) else a[0]; y = a[1].get() if isinstance(a[1], Ref) else a[1]
            r = ex.call("<%s as PartialEq>::eq" % mref.group(2), [x, y])
            if mref.group(5) == "eq": return r
            return (not r) if isinstance(r, bool) else z3.Not(r)
        # ---------------- Option
        if c.startswith("Option::") or re.match(r"^Option::<.*>::", callee):
            name = c.split("::")[-1]; o = deref(a[0]) if a else None
            if name in ("as_ref", "as_mut"):
                if o.disc == 0: return opt()
                return opt(Ref(o.fields, 0))
            if name in ("cloned", "copied"):
                if o.disc == 0: return opt()
                return opt(deep(deref(o.fields[0])))
            if name == "expect":
                if o.disc != 1: raise Panic("expect on None")
                return o.fields[0]
            if name == "unwrap_or_default":
                if o.disc == 1: return o.fields[0]
                raise Unsupported("unwrap_or_default")
            if name == "ok_or": return EnumV("Result", 0, [o.fields[0]]) if o.disc == 1 else EnumV("Result", 1, [a[1]])
            if name == "ok_or_else": return EnumV("Result", 0, [o.fields[0]]) if o.disc == 1 else EnumV("Result", 1, [call_closure(a[1], [], callee)])
            if name == "and_then": return opt() if o.disc == 0 else call_closure(a[1], [o.fields[0]], callee)
            if name == "or_else": return o if o.disc == 1 else call_closure(a[1], [], callee)
            if name == "take":
                r = a[0]; cur = r.get(); r.set(opt()); return cur
            if name == "map_or": return a[1] if o.disc == 0 else call_closure(a[2], [o.fields[0]], callee)
            if name == "map_or_else": return call_closure(a[1], [], callee) if o.disc == 0 else call_closure(a[2], [o.fields[0]], callee)
            if name == "filter":
                if o.disc == 0: return o
                return o if truth(call_closure(a[1], [Ref(o.fields, 0)], callee)) else opt()
            if name == "iter": return mk_iter([Ref(o.fields, 0)] if o.disc == 1 else [])
            if name == "into_iter": return mk_iter([o.fields[0]] if o.disc == 1 else [])
            if name == "is_some_and": return False if o.disc == 0 else truth(call_closure(a[1], [o.fields[0]], callee))
            if name == "zip":
                p = deref(a[1]); return opt(TupleV([o.fields[0], p.fields[0]])) if o.disc == 1 and p.disc == 1 else opt()
            if name == "insert":
                a[0].set(opt(a[1])); return Ref(a[0].get().fields, 0)
            if name == "get_or_insert_with":
                if o.disc == 0: a[0].set(opt(call_closure(a[1], [], callee)))
                return Ref(a[0].get().fields, 0)
            if name == "unwrap_unchecked": return o.fields[0]
            if name == "flatten": return opt() if o.disc == 0 else deref(o.fields[0])
            if name == "and": return opt() if o.disc == 0 else a[1]
            if name == "xor":
                p = deref(a[1]); return o if (o.disc == 1 and p.disc == 0) else (p if (o.disc == 0 and p.disc == 1) else opt())
        if re.match(r"^<Option<.*> as (PartialEq|std::cmp::PartialEq)>::(eq|ne)$", c):
            x, y = deref(a[0]), deref(a[1])
            r = (x.disc == y.disc) and (x.disc == 0 or val_eq(x.fields[0], y.fields[0]))
            return r if c.endswith("eq") else not r
        # ---------------- Result
        if c.startswith("Result::"):
            name = c.split("::")[-1]; r = deref(a[0])
            if name in ("unwrap", "expect"):
                if r.disc != 0: raise Panic("unwrap on Err")
                return r.fields[0]
            if name == "unwrap_err":
                if r.disc != 1: raise Panic("unwrap_err on Ok")
                return r.fields[0]
            if name == "ok": return opt(r.fields[0]) if r.disc == 0 else opt()
            if name == "err": return opt(r.fields[0]) if r.disc == 1 else opt()
            if name == "unwrap_or": return r.fields[0] if r.disc == 0 else a[1]
            if name == "unwrap_or_else": return r.fields[0] if r.disc == 0 else call_closure(a[1], [r.fields[0]], callee)
            if name == "and_then": return r if r.disc == 1 else call_closure(a[1], [r.fields[0]], callee)
            if name == "is_err": return r.disc == 1
            if name == "as_ref": return EnumV("Result", r.disc, [Ref(r.fields, 0)])
            if name == "unwrap_or_default":
                if r.disc == 0: return r.fields[0]
                raise Unsupported("Result::unwrap_or_default")
        # ---------------- Vec / slices
        if c in ("Vec::with_capacity",): return VecV([])
        if c == "Vec::extend" or re.match(r"^<Vec<.*> as Extend<.*>>::extend$", c):
            l = lst_of(a[0]); src = deref(a[1])
            l.extend(drain(src) if isinstance(src, IterV) else [x for x in lst_of(src)]); return TupleV([])
        if c == "Vec::extend_from_slice": lst_of(a[0]).extend(deep(x) for x in lst_of(a[1])); return TupleV([])
        if c == "Vec::insert":
            l = lst_of(a[0])
            if not (0 <= a[1] <= len(l)): raise Panic("insert index out of bounds")
            l.insert(a[1], a[2]); return TupleV([])
        if c == "Vec::remove":
            l = lst_of(a[0])
            if not (0 <= a[1] < len(l)): raise Panic("removal index out of bounds")
            return l.pop(a[1])
        if c == "Vec::swap_remove":
            l = lst_of(a[0])
            if not (0 <= a[1] < len(l)): raise Panic("swap_remove index out of bounds")
            v = l[a[1]]; l[a[1]] = l[-1]; l.pop(); return v
        if re.match(r"^core::slice::<impl \[.*\]>::(first|first_mut)$", c):
            l = lst_of(a[0]); return opt(Ref(l, 0)) if l else opt()
        if re.match(r"^core::slice::<impl \[.*\]>::get_mut$", c):
            l = lst_of(a[0]); return opt(Ref(l, a[1])) if 0 <= a[1] < len(l) else opt()
        if re.match(r"^core::slice::<impl \[.*\]>::iter_mut$", c):
            l = lst_of(a[0]); return mk_iter([Ref(l, i) for i in range(len(l))])
        if re.match(r"^core::slice::<impl \[.*\]>::contains$", c):
            l = lst_of(a[0]); return any(val_eq(x, a[1]) for x in l)
        if re.match(r"^((core|alloc)::)?slice::<impl \[.*\]>::to_vec$", c) or re.match(r"^<\[.*\] as ToOwned>::to_owned$", c):
            return VecV([deep(x) for x in lst_of(a[0])])
        if re.match(r"^((core|alloc)::)?slice::<impl \[.*\]>::concat$", c):
            out = []
            for x in lst_of(a[0]): out.extend(lst_of(x))
            return VecV(out)
        if re.match(r"^((core|alloc)::)?slice::<impl \[.*\]>::join$", c):
            parts = [deref(x) for x in lst_of(a[0])]; sep = deref(a[1])
            if all(isinstance(p, str) for p in parts) and isinstance(sep, str): return sep.join(parts)
            return "<fmt>"
        if re.match(r"^((core|alloc)::)?slice::<impl \[.*\]>::sort_by_key$", c):
            l = lst_of(a[0]); keys = [call_closure(a[1], [Ref(l, i)], callee) for i in range(len(l))]
            order = sorted(range(len(l)), key=functools.cmp_to_key(lambda i, j: cmp_val(keys[i], keys[j]) or (i - j)))
            l[:] = [l[i] for i in order]; return TupleV([])
        if re.match(r"^((core|alloc)::)?slice::<impl \[.*\]>::(sort|sort_unstable)$", c):
            l = lst_of(a[0]); l.sort(key=functools.cmp_to_key(cmp_val)); return TupleV([])
        if re.match(r"^core::slice::<impl \[.*\]>::reverse$", c): lst_of(a[0]).reverse(); return TupleV([])
        if re.match(r"^Vec::<.*>::as_(mut_)?slice$", c) or c in ("Vec::as_slice", "Vec::as_mut_slice"): return a[0]
        if re.match(r"^core::slice::<impl \[.*\]>::split_last$", c):
            l = lst_of(a[0]); return opt(TupleV([Ref(l, len(l) - 1), l[:-1]])) if l else opt()
        if re.match(r"^core::slice::<impl \[.*\]>::(split_at)$", c):
            l = lst_of(a[0]); return TupleV([l[:a[1]], l[a[1]:]])
        if re.match(r"^core::slice::<impl \[.*\]>::split_first$", c):
            l = lst_of(a[0]); return opt(TupleV([Ref(l, 0), l[1:]])) if l else opt()
        if re.match(r"^<Vec<.*> as (IntoIterator)>::into_iter$", c): return mk_iter(list(lst_of(a[0])))
        if c == "Vec::drain":
            l = lst_of(a[0]); items = list(l); del l[:]; return mk_iter(items)
        if c == "Vec::retain":
            l = lst_of(a[0]); l[:] = [x for i, x in enumerate(list(l)) if truth(call_closure(a[1], [Ref([x], 0)], callee))]; return TupleV([])
        if c == "Vec::dedup":
            l = lst_of(a[0]); out = []
            for x in l:
                if not out or not val_eq(out[-1], x): out.append(x)
            l[:] = out; return TupleV([])
        if re.match(r"^<Vec<.*> as From<&\[.*\]>>::from$", c) or re.match(r"^<Vec<.*> as From<\[.*; \d+\]>>::from$", c): return VecV(list(lst_of(a[0])))
        if re.match(r"^<Vec<.*> as (PartialEq|std::cmp::PartialEq)(<.*>)?>::(eq|ne)$", c):
            x, y = lst_of(a[0]), lst_of(a[1])
            r = len(x) == len(y) and all(val_eq(p, q) for p, q in zip(x, y))
            return r if c.endswith("eq") else not r
        if re.match(r"^<Vec<.*> as FromIterator<.*>>::from_iter$", c): return VecV(drain(a[0]))
        # ---------------- iterators
        if c.endswith("as Iterator>::any"):
            it = deref(a[0])
            while True:
                o = it.nxt()
                if o.disc == 0: return False
                if truth(call_closure(a[1], [o.fields[0]], callee)): return True
        if c.endswith("as Iterator>::all"):
            it = deref(a[0])
            while True:
                o = it.nxt()
                if o.disc == 0: return True
                if not truth(call_closure(a[1], [o.fields[0]], callee)): return False
        if c.endswith("as Iterator>::count"): return len(drain(a[0]))
        if c.endswith("as Iterator>::position"):
            it = deref(a[0]); i = 0
            while True:
                o = it.nxt()
                if o.disc == 0: return opt()
                if truth(call_closure(a[1], [o.fields[0]], callee)): return opt(i)
                i += 1
        if c.endswith("as Iterator>::fold"):
            acc = a[1]
            for x in drain(a[0]): acc = call_closure(a[2], [acc, x], callee)
            return acc
        if c.endswith("as Iterator>::try_for_each"):
            for x in drain(a[0]):
                r = call_closure(a[1], [x], callee)
                rv = deref(r)
                if isinstance(rv, EnumV) and rv.ty == "Result" and rv.disc == 1: return rv
                if isinstance(rv, EnumV) and rv.ty == "Option" and rv.disc == 0: return rv
                if isinstance(rv, EnumV) and rv.ty == "ControlFlow" and rv.disc == 1: return rv
            if "Option<" in callee.rsplit("try_for_each", 1)[1]: return opt(TupleV([]))
            if "ControlFlow<" in callee.rsplit("try_for_each", 1)[1]: return EnumV("ControlFlow", 0, [TupleV([])])
            return EnumV("Result", 0, [TupleV([])])
        if c.endswith("as Iterator>::for_each"):
            for x in drain(a[0]): call_closure(a[1], [x], callee)
            return TupleV([])
        if c.endswith("as Iterator>::last"):
            xs = drain(a[0]); return opt(xs[-1]) if xs else opt()
        if c.endswith("as Iterator>::nth"):
            it = deref(a[0])
            for _ in range(a[1]):
                if it.nxt().disc == 0: return opt()
            return it.nxt()
        if c.endswith("as Iterator>::skip"):
            it = deref(a[0]); n = [a[1]]
            def nxt():
                while n[0] > 0:
                    n[0] -= 1
                    if it.nxt().disc == 0: return opt()
                return it.nxt()
            return IterV(nxt)
        if c.endswith("as Iterator>::take"):
            it = deref(a[0]); n = [a[1]]
            def nxt():
                if n[0] <= 0: return opt()
                n[0] -= 1; return it.nxt()
            return IterV(nxt)
        if c.endswith("as Iterator>::filter_map"):
            it, cl = deref(a[0]), a[1]
            def nxt():
                while True:
                    o = it.nxt()
                    if o.disc == 0: return o
                    r = call_closure(cl, [o.fields[0]], callee)
                    if r.disc == 1: return r
            return IterV(nxt)
        if c.endswith("as Iterator>::flat_map"):
            it, cl = deref(a[0]), a[1]
            def gen():
                for x in drain(it):
                    r = deref(call_closure(cl, [x], callee))
                    if isinstance(r, IterV):
                        for y in drain(r): yield y
                    elif isinstance(r, EnumV) and r.ty == "Option":
                        for y in r.fields: yield y
                    else:
                        for y in lst_of(r): yield y
            return mk_iter(gen())
        if c.endswith("as Iterator>::unzip"):
            xs = [deref(x) for x in drain(a[0])]
            gen = callee[callee.rindex("unzip::<") + 8:-1] if "unzip::<" in callee else ""
            targs = M.split_top(gen) if gen else []
            def build(items, target):
                target = target.strip()
                if target.startswith("(") and target.endswith(")"):
                    parts = M.split_top(target[1:-1])
                    return TupleV([build([deref(it).fields[i] for it in items], parts[i]) for i in range(len(parts))])
                return VecV(list(items))
            if len(targs) == 4:
                return TupleV([build([x.fields[0] for x in xs], targs[2]), build([x.fields[1] for x in xs], targs[3])])
            return TupleV([VecV([x.fields[0] for x in xs]), VecV([x.fields[1] for x in xs])])
        if c.endswith("as Iterator>::copied"):
            it = deref(a[0])
            def nxt():
                o = it.nxt(); return o if o.disc == 0 else opt(deep(deref(o.fields[0])))
            return IterV(nxt)
        if c.endswith("as Iterator>::peekable") or c.endswith("as Iterator>::by_ref") or c.endswith("as Iterator>::fuse"): return a[0]
        if c.endswith("as Iterator>::max") or c.endswith("as Iterator>::min"):
            xs = drain(a[0])
            if not xs: return opt()
            best = xs[0]
            for x in xs[1:]:
                cc = cmp_val(x, best)
                if (c.endswith("max") and cc >= 0) or (c.endswith("min") and cc < 0): best = x
            return opt(best)
        if c.endswith("as Iterator>::min_by_key") or c.endswith("as Iterator>::max_by_key"):
            xs = drain(a[0])
            if not xs: return opt()
            ks = [call_closure(a[1], [Ref([x], 0)], callee) for x in xs]; bi = 0
            for i in range(1, len(xs)):
                cc = cmp_val(ks[i], ks[bi])
                if (c.endswith("max_by_key") and cc >= 0) or (c.endswith("min_by_key") and cc < 0): bi = i
            return opt(xs[bi])
        if c.endswith("as Iterator>::sum"):
            s = 0
            for x in drain(a[0]): s = s + deref(x)
            return s
        if c.endswith("as Iterator>::partition"):
            xs = drain(a[0]); yes, no = [], []
            for x in xs: (yes if truth(call_closure(a[1], [Ref([x], 0)], callee)) else no).append(x)
            return TupleV([VecV(yes), VecV(no)])
        if re.match(r"^<(std::)?(ops::)?Range<(usize|i32|u32|i64|isize)> as Iterator>::next$", c):
            r = deref(a[0]); s, e = r.fields
            if s < e: r.fields[0] = s + 1; return opt(s)
            return opt()
        if re.match(r"^<(std::ops::)?Range<(usize|i32|u32|i64|isize)> as IntoIterator>::into_iter$", c): return a[0]
        # ---------------- strings
        if c in ("String::new", "std::string::String::new"): return ""
        if c.endswith("String::push_str") or c.endswith("String::push"):
            r = a[0]; cur = deref(r); add = deref(a[1])
            r.set(cur + add if isinstance(cur, str) and isinstance(add, str) else "<fmt>"); return TupleV([])
        if c.endswith("String::len") or c == "core::str::<impl str>::len":
            s = deref(a[0]); return len(s.encode()) if isinstance(s, str) and s != "<fmt>" else 5
        if c.endswith("String::is_empty") or c == "core::str::<impl str>::is_empty": return deref(a[0]) == ""
        if re.match(r"^<(std::string::)?String as From<&str>>::from$", c) or c in ("core::str::<impl str>::to_owned", "<str as ToOwned>::to_owned", "core::str::<impl str>::to_string", "alloc::str::<impl str>::to_owned"): return deref(a[0])
        if re.match(r"^core::str::<impl str>::(starts_with|ends_with|contains)", c):
            s, p = deref(a[0]), deref(a[1])
            if not (isinstance(s, str) and isinstance(p, str)): raise Unsupported(c)
            return {"starts_with": s.startswith, "ends_with": s.endswith, "contains": s.__contains__}[c.split("::")[-1].split("<")[0]](p)
        if c == "core::str::<impl str>::chars": return mk_iter(list(deref(a[0])))
        if re.match(r"^<(std::string::)?String as (Deref|AsRef<str>|Borrow<str>)>::(deref|as_ref|borrow)$", c): return a[0]
        if re.match(r"^<(&)?(std::string::String|str|&str) as (PartialOrd|Ord)>::(partial_cmp|cmp)$", c):
            x, y = deref(a[0]), deref(a[1]); d = (x > y) - (x < y)
            o = EnumV("Ordering", d, []); return opt(o) if c.endswith("partial_cmp") else o
        if re.match(r"^<(&)?(std::string::String|str|&str) as (PartialEq|std::cmp::PartialEq)(<.*>)?>::ne$", c): return deref(a[0]) != deref(a[1])
        if re.match(r"^<.* as ToString>::to_string$", c) or re.match(r"^<.* as std::string::ToString>::to_string$", c):
            v = deref(a[0]); return v if isinstance(v, str) else "<fmt>"
        # ---------------- maps / sets
        if c in ("HashMap::remove", "BTreeMap::remove"):
            m = deref(a[0]); k = key_repr(a[1])
            if k in m.d: return opt(m.d.pop(k)[1])
            return opt()
        if c in ("HashMap::get_mut", "BTreeMap::get_mut"):
            m = deref(a[0]); k = key_repr(a[1]); return opt(Ref(m.d[k], 1)) if k in m.d else opt()
        if c in ("HashMap::values", "BTreeMap::values", "HashMap::values_mut", "BTreeMap::values_mut"):
            m = deref(a[0]); keys = ordered_keys(m); return mk_iter([Ref(m.d[k], 1) for k in keys])
        if c in ("HashMap::keys", "BTreeMap::keys"):
            m = deref(a[0]); keys = ordered_keys(m); return mk_iter([Ref(m.d[k], 0) for k in keys])
        if c in ("HashMap::into_values", "BTreeMap::into_values"):
            m = deref(a[0]); return mk_iter([m.d[k][1] for k in ordered_keys(m)])
        if c in ("HashMap::into_keys", "BTreeMap::into_keys"):
            m = deref(a[0]); return mk_iter([m.d[k][0] for k in ordered_keys(m)])
        if c in ("HashMap::is_empty", "BTreeMap::is_empty"): return len(deref(a[0]).d) == 0
        if c in ("HashMap::with_capacity",): return MapV("hash")
        if c in ("HashMap::iter_mut", "BTreeMap::iter_mut"):
            m = deref(a[0]); return mk_iter([TupleV([Ref(m.d[k], 0), Ref(m.d[k], 1)]) for k in ordered_keys(m)])
        if re.match(r"^<(HashMap|BTreeMap)<.*> as IntoIterator>::into_iter$", c):
            m = deref(a[0]); return mk_iter([TupleV([m.d[k][0], m.d[k][1]]) for k in ordered_keys(m)])
        if re.match(r"^<&(mut )?(HashMap|BTreeMap)<.*> as IntoIterator>::into_iter$", c):
            m = deref(a[0]); return mk_iter([TupleV([Ref(m.d[k], 0), Ref(m.d[k], 1)]) for k in ordered_keys(m)])
        if re.match(r"^<(HashMap|BTreeMap)<.*> as Extend<.*>>::extend$", c) or c in ("HashMap::extend", "BTreeMap::extend"):
            m = deref(a[0]); src = deref(a[1])
            for kv in (drain(src) if isinstance(src, IterV) else [TupleV([src.d[k][0], src.d[k][1]]) for k in ordered_keys(src)]):
                kv = deref(kv); m.d[key_repr(kv.fields[0])] = [deref(kv.fields[0]), kv.fields[1]]
            return TupleV([])
        if re.match(r"^<(HashMap|BTreeMap)<.*> as FromIterator<.*>>::from_iter$", c):
            m = MapV("btree" if "BTreeMap" in c else "hash")
            for kv in drain(a[0]): kv = deref(kv); m.d[key_repr(kv.fields[0])] = [deref(kv.fields[0]), kv.fields[1]]
            return m
        if c.endswith("Entry::or_insert") or c.endswith("Entry::or_default"):
            m, k = a[0].fields[0].fields; kr = key_repr(k)
            if kr not in m.d:
                if c.endswith("or_default"):
                    mv = re.search(r"Entry::<'?\w*,? ?(.*)>::or_default$", callee)      # Entry::<'_, K, V>::or_default: the default of V
                    vty = mv.group(1) if mv else ""
                    d = 0; cut = 0
                    for i_, ch in enumerate(vty):          # V is the last top-level generic argument
                        if ch in "<([": d += 1
                        elif ch in ">)]": d -= 1
                        elif ch == "," and d == 0: cut = i_ + 1
                    vty = vty[cut:].strip()
                    if vty.startswith("Vec<"): dv = VecV([])
                    elif vty in ("usize", "i64", "i32", "u32", "isize"): dv = 0
                    elif vty in ("std::string::String", "String"): dv = ""
                    elif vty.startswith(("BTreeSet<", "HashSet<", "std::collections::BTreeSet<", "std::collections::HashSet<")): dv = SetV()
                    elif vty.startswith(("BTreeMap<", "HashMap<", "std::collections::BTreeMap<", "std::collections::HashMap<")): dv = MapV("btree" if "BTreeMap" in vty else "hash")
                    else: raise Unsupported("or_default for value type %r (%s)" % (vty, callee))
                    m.d[kr] = [k, dv]
                else: m.d[kr] = [k, a[1]]
            return Ref(m.d[kr], 1)
        mri = re.match(r"^<(\[.*\]|Vec<.*>) as (std::ops::)?Index<(std::ops::)?(Range|RangeTo|RangeToInclusive|RangeFrom|RangeFull|RangeInclusive)(<usize>)?>>::index$", c)
        if mri:
            base = deref(a[0]); lst = base.items if isinstance(base, VecV) else base
            r = deref(a[1]); kind = mri.group(4); n = len(lst)
            f = {nm: deref(v) for nm, v in zip({"Range": ["start", "end"], "RangeTo": ["end"], "RangeToInclusive": ["end"], "RangeFrom": ["start"], "RangeFull": [], "RangeInclusive": ["start", "end", "exhausted"]}[kind], r.fields)}
            lo = f.get("start", 0); hi = f.get("end", n)
            if kind in ("RangeToInclusive", "RangeInclusive"): hi = hi + 1
            if not (isinstance(lo, int) and isinstance(hi, int)): raise Unsupported("symbolic slice bounds")
            if lo > hi or hi > n: raise Panic("slice index out of range")
            return lst[lo:hi]
        if c.endswith("OccupiedEntry::get_mut") or c.endswith("OccupiedEntry::into_mut"):
            e_ = deref(a[0]); m, k = e_.fields; return Ref(m.d[key_repr(k)], 1)
        if c.endswith("OccupiedEntry::insert"):
            e_ = deref(a[0]); m, k = e_.fields; old = m.d[key_repr(k)][1]; m.d[key_repr(k)][1] = a[1]; return old
        if re.match(r"^<BTreeMap<.*> as (std::ops::)?Index<.*>>::index$", c):
            m = deref(a[0]); k = key_repr(a[1])
            if k not in m.d: raise Panic("BTreeMap index: key not found")
            return Ref(m.d[k], 1)
        if c == "BTreeSet::len": return len(deref(a[0]).items)
        if c == "BTreeSet::is_empty": return len(deref(a[0]).items) == 0
        if c in ("BTreeSet::is_subset",):
            x, y = deref(a[0]), deref(a[1]); return all(any(key_repr(e) == key_repr(f) for f in y.items) for e in x.items)
        if c in ("BTreeSet::difference", "BTreeSet::intersection"):
            x, y = deref(a[0]), deref(a[1]); inn = lambda e: any(key_repr(e) == key_repr(f) for f in y.items)
            keep = [e for e in x.items if (not inn(e) if c.endswith("difference") else inn(e))]
            return mk_iter([Ref([e], 0) for e in keep])
        if re.match(r"^<BTreeSet<.*> as Extend<.*>>::extend$", c) or c == "BTreeSet::extend":
            s_ = deref(a[0]); src = deref(a[1])
            for x in (drain(src) if isinstance(src, IterV) else list(src.items)):
                x = deref(x)
                if not any(key_repr(x) == key_repr(y) for y in s_.items): s_.items.append(x)
            s_.items.sort(key=functools.cmp_to_key(cmp_val)); return TupleV([])
        if re.match(r"^<BTreeSet<.*> as FromIterator<.*>>::from_iter$", c):
            s_ = SetV()
            for x in drain(a[0]):
                x = deref(x)
                if not any(key_repr(x) == key_repr(y) for y in s_.items): s_.items.append(x)
            s_.items.sort(key=functools.cmp_to_key(cmp_val)); return s_
        if re.match(r"^<BTreeSet<.*> as (PartialEq|std::cmp::PartialEq)>::(eq|ne)$", c):
            r = key_repr(deref(a[0])) == key_repr(deref(a[1])); return r if c.endswith("eq") else not r
        if re.match(r"^<BTreeSet<.*> as IntoIterator>::into_iter$", c): return mk_iter(list(deref(a[0]).items))
        if c in ("HashSet::new",): return SetV()
        if c in ("HashSet::insert",):
            s_ = deref(a[0])
            if any(key_repr(y) == key_repr(a[1]) for y in s_.items): return False
            s_.items.append(a[1]); return True
        if c in ("HashSet::contains",): return any(key_repr(x) == key_repr(a[1]) for x in deref(a[0]).items)
        # ---------------- misc
        if re.match(r"^core::bool::(<impl bool>::)?then$", c): return opt(call_closure(a[1], [], callee)) if truth(a[0]) else opt()
        if re.match(r"^core::bool::(<impl bool>::)?then_some$", c): return opt(a[1]) if truth(a[0]) else opt()
        if c in ("std::mem::take", "core::mem::take"):
            cur = a[0].get()
            empty = VecV([]) if isinstance(cur, VecV) else ("" if isinstance(cur, str) else (MapV(cur.kind) if isinstance(cur, MapV) else (SetV() if isinstance(cur, SetV) else (opt() if isinstance(cur, EnumV) and cur.ty == "Option" else None))))
            if empty is None: raise Unsupported("mem::take of %r" % (cur,))
            a[0].set(empty); return cur
        if c in ("std::mem::replace", "core::mem::replace"):
            cur = a[0].get(); a[0].set(a[1]); return cur
        if c in ("std::mem::swap", "core::mem::swap"):
            x, y = a[0].get(), a[1].get(); a[0].set(y); a[1].set(x); return TupleV([])
        if c in ("Rc::new", "std::rc::Rc::new", "Arc::new"): return BoxV(a[0])
        if re.match(r"^<(std::rc::)?Rc<.*> as Clone>::clone$", c): return a[0].get()
        if re.match(r"^<(usize|i64|isize|u64|u32|i32) as (Ord|PartialOrd)>::(cmp|max|min)$", c):
            x, y = deref(a[0]), deref(a[1])
            if c.endswith("max"): return x if x >= y else y
            if c.endswith("min"): return x if x <= y else y
            return EnumV("Ordering", (x > y) - (x < y), [])
        if c in ("core::cmp::max", "std::cmp::max"): return a[0] if cmp_val(a[0], a[1]) > 0 else a[1]
        if c in ("core::cmp::min", "std::cmp::min"): return a[0] if cmp_val(a[0], a[1]) <= 0 else a[1]
        if re.match(r"^<(usize|i64|isize|u64|bool|f64) as Clone>::clone$", c): return deref(a[0])
        mnum = re.match(r"^core::num::<impl (usize|u64|u32|i64|isize|i32)>::(saturating_sub|saturating_add|wrapping_add|wrapping_sub|checked_sub|checked_add|max|min|pow|abs)$", c)
        if mnum:
            x = deref(a[0]); y = deref(a[1]) if len(a) > 1 else None; op = mnum.group(2); unsigned = mnum.group(1).startswith("u")
            if not isinstance(x, int) or (y is not None and not isinstance(y, int)):
                if op == "saturating_sub" and unsigned: return z3.If(x - y < 0, 0, x - y)
                raise Unsupported(c + " on symbolic values")
            if op == "saturating_sub": return max(x - y, 0) if unsigned else x - y
            if op in ("saturating_add", "wrapping_add"): return x + y
            if op == "wrapping_sub": return x - y
            if op == "checked_sub": return opt(x - y) if (x - y >= 0 or not unsigned) else opt()
            if op == "checked_add": return opt(x + y)
            if op == "max": return max(x, y)
            if op == "min": return min(x, y)
            if op == "pow": return x ** y
            if op == "abs": return abs(x)
        if c.endswith("library_name"):
            n = deref(a[0]); return opt(n) if n in ("common", "container", "dict", "list", "math", "maybe", "preamble", "set", "unsafe") else opt()
        if c.endswith("library_source"):
            n = deref(a[0]); return opt("<std source of %s>" % n) if n in ("common", "container", "dict", "list", "math", "maybe", "preamble", "set", "unsafe") else opt()
        if re.match(r"^<(std::path::)?(PathBuf|Path|&Path|&PathBuf) as (std::cmp::)?PartialEq(<.*>)?>::(eq|ne)$", c):
            x, y = deref(a[0]), deref(a[1])
            while isinstance(x, Ref): x = x.get()
            while isinstance(y, Ref): y = y.get()
            if isinstance(x, str) and isinstance(y, str): r = x == y
            elif x is y: r = True
            else: raise Unsupported("comparison of opaque paths %r %r" % (x, y))
            return r if c.endswith("eq") else not r
        if c in ("Path::parent", "std::path::Path::parent", "Path::file_stem", "Path::file_name", "Path::extension", "Path::to_str", "OsStr::to_str", "std::ffi::OsStr::to_str"):
            return opt(Opaque("path"))
        if c.startswith("PathBuf::") or c.startswith("Path::") or "as AsRef<Path>>" in c or "as AsRef<OsStr>>" in c or c.startswith("std::path::") or c.startswith("OsStr::"):
            return Opaque("path")
        mtrim = re.match(r"^core::str::<impl str>::(trim_start_matches|trim_end_matches|trim|trim_start|trim_end|strip_prefix|strip_suffix)$", c)
        if mtrim:
            s_ = deref(a[0]); what = mtrim.group(1)
            if not isinstance(s_, str): return s_
            if what == "trim": return s_.strip()
            if what == "trim_start": return s_.lstrip()
            if what == "trim_end": return s_.rstrip()
            p_ = deref(a[1])
            if not isinstance(p_, str): raise Unsupported(c)
            if what == "trim_start_matches":
                while p_ and s_.startswith(p_): s_ = s_[len(p_):]
                return s_
            if what == "trim_end_matches":
                while p_ and s_.endswith(p_): s_ = s_[:-len(p_)]
                return s_
            if what == "strip_prefix": return opt(s_[len(p_):]) if s_.startswith(p_) else opt()
            return opt(s_[:-len(p_)]) if s_.endswith(p_) else opt()
        if re.match(r"^<.* as (std::convert::)?Into<.*>>::into$", c) or re.match(r"^<.* as (std::convert::)?From<.*>>::from$", c):
            if "PathBuf" in c.split(" as ")[0]: return Opaque("path")
            return a[0]
        if re.match(r"^<.* as (std::convert::)?AsRef<.*>>::as_ref$", c): return a[0]
        if re.match(r"^<.* as Borrow<.*>>::borrow$", c): return a[0]
        mchar = re.match(r"^(core::)?char::methods::<impl char>::(is_uppercase|is_lowercase|is_alphabetic|is_numeric|is_alphanumeric|is_whitespace|is_ascii_digit|is_ascii_uppercase|is_ascii_lowercase)$", c)
        if mchar:
            ch = deref(a[0])
            if not isinstance(ch, str): raise Unsupported("char predicate on a symbolic char")
            return {"is_uppercase": ch.isupper(), "is_lowercase": ch.islower(), "is_alphabetic": ch.isalpha(), "is_numeric": ch.isnumeric(), "is_alphanumeric": ch.isalnum(), "is_whitespace": ch.isspace(),
                    "is_ascii_digit": ch.isdigit() and ch.isascii(), "is_ascii_uppercase": ch.isupper() and ch.isascii(), "is_ascii_lowercase": ch.islower() and ch.isascii()}[mchar.group(2)]
        if c == "<Chars<'_> as Iterator>::next" or re.match(r"^<(std::str::)?Chars<.*> as Iterator>::next$", c): return deref(a[0]).nxt()
        if c in ("std::process::abort",): raise Panic("abort")
        if c == "core::hint::unreachable_unchecked": raise Panic("unreachable_unchecked")
        if c in ("drop", "std::mem::drop", "core::mem::drop"): return TupleV([])
        return NotImplemented
    def ordered_keys(m):
        keys = list(m.d.keys())
        if m.kind == "btree":
            keys.sort(key=functools.cmp_to_key(lambda x, y: cmp_val(m.d[x][0], m.d[y][0])))
        else:
            hook = getattr(ex, "hash_order_hook", None)
            if hook is not None: keys = hook(m, keys)
        return keys
    ex.ordered_keys = ordered_keys
    ex.model = model
