"""Symbolic positions in kernel templates. A template is ordinary Sylt text in which some positions are written as
macro names; the text is tokenised and parsed by the real front end (natively), converted to E-MIR values, and the
macro nodes are then replaced by choice nodes whose selector is a z3 variable:

    __litK            a literal of symbolic kind      (int, float, str, bool, nil, tuple, list, fn)
    __opK(a, b)       a binary operator of symbolic kind (the 13 binary operators)
    __unK(a)          unary - or not
    Ty__K             (in a type annotation) a declared type of symbolic kind (int, float, str, bool)

The same template renders to concrete Sylt text for the native REPLAY of a solver model."""
import re
import z3
from mirsym import core as M
from mirsym.core import EnumV, StructV, VecV, BoxV, TupleV, ChoiceV, opt

LIT_KINDS = ["int", "float", "str", "bool", "nil", "tuple", "list", "void", "tuple_str"]
LIT_TEXT = {"int": "7", "float": "1.5", "str": '"s"', "bool": "true", "nil": "nil", "tuple": "(1, 2)", "list": "[1]", "void": "vd()", "tuple_str": '("s", 1)'}
OPS = ["+", "-", "*", "/", "==", "!=", "<", "<=", ">", ">=", "and", "or", "<=>"]
OP_KIND = {"+": "Add", "-": "Sub", "*": "Mul", "/": "Div", "and": "And", "or": "Or", "<=>": "AssertEq",
           "==": ("Comparison", "Equals"), "!=": ("Comparison", "NotEquals"), "<": ("Comparison", "Less"), "<=": ("Comparison", "LessEqual"),
           ">": ("Comparison", "Greater"), ">=": ("Comparison", "GreaterEqual")}
UNS = ["-", "not"]
TYS = ["int", "float", "str", "bool"]
TY_RT = {"int": "Int", "float": "Float", "str": "String", "bool": "Bool", "void": "Void"}


class Expander:
    def __init__(self, pl, lit_kinds=None, ops=None, tys=None, optional_annotations=False):
        self.optional_annotations = optional_annotations; self.nann = 0
        self.pl = pl; m = pl.m
        self.EK = M.QENUMS[("sylt_parser", "ExpressionKind")]; self.AK = M.QENUMS[("sylt_parser", "AssignableKind")]
        self.CK = M.QENUMS[("sylt_parser", "ComparisonKind")]; self.TK = M.QENUMS[("sylt_parser", "TypeKind")]
        self.RT = M.QENUMS[("sylt_common", "Type")]
        self.lit_kinds = lit_kinds or LIT_KINDS; self.ops = ops or OPS; self.tys = tys or TYS
        self.sels = {}           # macro name -> (z3 var, domain list)
        self.F_EXPR = {n: i for i, n in enumerate(m.structs["Expression"])}
    def ek(self, name, fields): return EnumV("sylt_parser::ExpressionKind", self.EK.index(name), fields)
    def expr(self, span, kind):
        f = [None] * 3; f[self.F_EXPR["span"]] = span; f[self.F_EXPR["ty"]] = opt(); f[self.F_EXPR["kind"]] = kind
        return StructV("Expression", f)
    def sel(self, name, domain):
        if name not in self.sels: self.sels[name] = (z3.Int("sel" + name), list(domain))
        return self.sels[name][0]
    def base(self):
        return [z3.And(v >= 0, v < len(d)) for v, d in self.sels.values()]
    # ---- recognisers
    def macro_of(self, e):
        """(name, args) if the Expression struct is a macro use"""
        kind = e.fields[self.F_EXPR["kind"]]
        if not isinstance(kind, EnumV) or self.EK[kind.disc] != "Get": return None
        ass = kind.fields[0]; ak = ass.fields[1]
        if self.AK[ak.disc] == "Read":
            n = ak.fields[0].fields[1]
            if isinstance(n, str) and n.startswith("__"): return n, []
        if self.AK[ak.disc] == "Call":
            callee = ak.fields[0].fields[0]; ck = callee.fields[1]
            if self.AK[ck.disc] == "Read":
                n = ck.fields[0].fields[1]
                if isinstance(n, str) and n.startswith("__"): return n, ak.fields[1].items
        return None
    def lit_expr(self, span, kind):
        sp = lambda: M.deep(span)
        if kind == "int": return self.expr(sp(), self.ek("Int", [7]))
        if kind == "float": return self.expr(sp(), self.ek("Float", [1.5]))
        if kind == "str": return self.expr(sp(), self.ek("Str", ["s"]))
        if kind == "bool": return self.expr(sp(), self.ek("Bool", [True]))
        if kind == "nil": return self.expr(sp(), self.ek("Nil", []))
        if kind == "tuple": return self.expr(sp(), self.ek("Tuple", [VecV([self.lit_expr(span, "int"), self.lit_expr(span, "int")])]))
        if kind == "list": return self.expr(sp(), self.ek("List", [VecV([self.lit_expr(span, "int")])]))
        if kind == "tuple_str": return self.expr(sp(), self.ek("Tuple", [VecV([self.lit_expr(span, "str"), self.lit_expr(span, "int")])]))
        if kind == "void":
            ident = StructV("Identifier", [sp(), "vd"])
            callee = StructV("Assignable", [sp(), EnumV("sylt_parser::AssignableKind", self.AK.index("Read"), [ident])])
            call = StructV("Assignable", [sp(), EnumV("sylt_parser::AssignableKind", self.AK.index("Call"), [BoxV(callee), VecV([])])])
            return self.expr(sp(), self.ek("Get", [call]))
        raise ValueError(kind)
    def expand_expr(self, e):
        mac = self.macro_of(e)
        if mac is None: return None
        name, args = mac
        span = e.fields[self.F_EXPR["span"]]
        m = re.match(r"^__(lit|op|un|ar|ealt)(\w*)$", name)
        if not m: return None
        what, k = m.group(1), m.group(2)
        if what == "lit":
            kinds = list(self.lit_kinds)
            sv = self.sel("lit" + k, kinds)
            return self.expr(M.deep(span), ChoiceV(sv, [self.lit_expr(span, x).fields[self.F_EXPR["kind"]] for x in kinds]))
        if what == "op":
            a, b = [self.walk(x) for x in args]
            sv = self.sel("op" + k, self.ops)
            opts = []
            for o in self.ops:
                kk = OP_KIND[o]
                if isinstance(kk, tuple): opts.append(self.ek("Comparison", [BoxV(a), EnumV("sylt_parser::ComparisonKind", self.CK.index(kk[1]), []), BoxV(b)]))
                else: opts.append(self.ek(kk, [BoxV(a), BoxV(b)]))
            return self.expr(M.deep(span), ChoiceV(sv, opts))
        if what == "ealt":
            # __ealtK(e0, .., en): one of the given expressions
            opts = [self.walk(x) for x in args]
            sv = self.sel("ealt" + k, list(range(len(opts))))
            return ChoiceV(sv, opts)
        if what == "ar":
            # __arK(f, x1, .., xn): a call of f with a symbolic number (0..n) of the given arguments
            f = args[0]; xs = [self.walk(x) for x in args[1:]]
            fk = f.fields[self.F_EXPR["kind"]]; fass = fk.fields[0]
            sv = self.sel("ar" + k, list(range(len(xs) + 1)))
            opts = []
            for n in range(len(xs) + 1):
                call = StructV("Assignable", [M.deep(span), EnumV("sylt_parser::AssignableKind", self.AK.index("Call"), [BoxV(M.deep(fass)), VecV(xs[:n])])])
                opts.append(self.ek("Get", [call]))
            return self.expr(M.deep(span), ChoiceV(sv, opts))
        if what == "un":
            a = self.walk(args[0]); sv = self.sel("un" + k, UNS)
            return self.expr(M.deep(span), ChoiceV(sv, [self.ek("Neg", [BoxV(a)]), self.ek("Not", [BoxV(a)])]))
        return None
    def expand_type(self, t):
        """parser Type struct [span, kind]: UserDefined(TypeAssignable Read __tyK, []) -> choice of Resolved(..)"""
        kind = t.fields[1]
        if isinstance(kind, EnumV) and self.TK[kind.disc] == "UserDefined":
            ta = kind.fields[0]; tk = ta.fields[1]
            if tk.disc == 0:        # TypeAssignableKind::Read(Identifier)
                n = tk.fields[0].fields[1]
                m = re.match(r"^Ty__(\w*)$", n) if isinstance(n, str) else None
                if m:
                    sv = self.sel("ty" + m.group(1), self.tys)
                    opts = [EnumV("sylt_parser::TypeKind", self.TK.index("Resolved"), [EnumV("sylt_common::Type", self.RT.index(TY_RT[x]), [])]) for x in self.tys]
                    return StructV("Type", [t.fields[0], ChoiceV(sv, opts)])
        return None
    def expand_stmt(self, st):
        """Statement [span, kind, comments] whose kind is the expression statement __altK(fn do A end, fn do B end, ..)
        -> a statement whose kind is a choice of the blocks { A }, { B }, .."""
        SK = M.QENUMS[("sylt_parser", "StatementKind")]
        kind = st.fields[1]
        if not isinstance(kind, EnumV) or SK[kind.disc] != "StatementExpression": return None
        e = kind.fields[0]
        mac = self.macro_of(e)
        if mac is None: return None
        m = re.match(r"^__alt(\w*)$", mac[0])
        if not m: return None
        opts = []
        for a in mac[1]:
            ak = a.fields[self.F_EXPR["kind"]]
            if self.EK[ak.disc] != "Function": raise ValueError("__alt arguments must be `fn do .. end` blocks")
            body = ak.fields[3]           # Function { name, params, ret, body, pure }
            opts.append(EnumV("sylt_parser::StatementKind", SK.index("Block"), [self.walk(body)]))
        sv = self.sel("alt" + m.group(1), list(range(len(opts))))
        return StructV("Statement", [st.fields[0], ChoiceV(sv, opts), st.fields[2]])
    # ---- annotation sites become a choice between the annotation as written and its absence (C08)
    def _is_kind(self, ty, name, rt=None):
        k = ty.fields[1]
        if not isinstance(k, EnumV) or self.TK[k.disc] != name: return False
        if rt is None: return True
        return isinstance(k.fields[0], EnumV) and self.RT[k.fields[0].disc] == rt
    def _absent(self, ty, what):
        if what == "definition": kind = EnumV("sylt_parser::TypeKind", self.TK.index("Implied"), [])
        else: kind = EnumV("sylt_parser::TypeKind", self.TK.index("Resolved"), [EnumV("sylt_common::Type", self.RT.index("Unknown"), [])])
        return StructV("Type", [M.deep(ty.fields[0]), kind])
    def annot_choice(self, ty, what):
        self.nann += 1
        sv = self.sel("ann%d" % self.nann, ["present", "absent"])
        return ChoiceV(sv, [ty, self._absent(ty, what)])
    def walk_annotations(self, v):
        SK = M.QENUMS[("sylt_parser", "StatementKind")]
        if isinstance(v, EnumV):
            if v.ty.endswith("StatementKind") and SK[v.disc] == "Definition":
                ident, kind, ty, value = v.fields
                value = self.walk_annotations(value)
                if not self._is_kind(ty, "Implied"): ty = self.annot_choice(ty, "definition")
                return EnumV(v.ty, v.disc, [ident, kind, ty, value])
            if v.ty.endswith("ExpressionKind") and self.EK[v.disc] == "Function":
                name, params, ret, body, pure = v.fields
                nps = []
                for p in params.items:
                    pid, pty = p.fields
                    if not self._is_kind(pty, "Resolved", "Unknown") and not self._is_kind(pty, "Fn"): pty = self.annot_choice(pty, "param")
                    nps.append(TupleV([pid, pty]))
                if not self._is_kind(ret, "Resolved", "Void") and not self._is_kind(ret, "Resolved", "Unknown"): ret = self.annot_choice(ret, "ret")
                return EnumV(v.ty, v.disc, [name, VecV(nps), ret, self.walk_annotations(body), pure])
            return EnumV(v.ty, v.disc, [self.walk_annotations(x) for x in v.fields])
        if isinstance(v, StructV): return StructV(v.ty, [self.walk_annotations(x) for x in v.fields])
        if isinstance(v, TupleV): return TupleV([self.walk_annotations(x) for x in v.fields])
        if isinstance(v, BoxV): return BoxV(self.walk_annotations(v.fields[0]))
        if isinstance(v, VecV): return VecV([self.walk_annotations(x) for x in v.items])
        if isinstance(v, M.MapV):
            mv = M.MapV(v.kind)
            for kr, (k, val) in v.d.items(): mv.d[kr] = [k, self.walk_annotations(val)]
            return mv
        return v
    def walk(self, v):
        if isinstance(v, StructV):
            if v.ty == "Statement" and len(v.fields) == 3:
                r = self.expand_stmt(v)
                if r is not None: return r
            if v.ty == "Expression" and len(v.fields) == 3:
                r = self.expand_expr(v)
                if r is not None: return r
            if v.ty == "Type" and len(v.fields) == 2:
                r = self.expand_type(v)
                if r is not None: return r
            return StructV(v.ty, [self.walk(x) for x in v.fields])
        if isinstance(v, EnumV): return EnumV(v.ty, v.disc, [self.walk(x) for x in v.fields])
        if isinstance(v, TupleV): return TupleV([self.walk(x) for x in v.fields])
        if isinstance(v, BoxV): return BoxV(self.walk(v.fields[0]))
        if isinstance(v, VecV): return VecV([self.walk(x) for x in v.items])
        if isinstance(v, M.MapV):
            mv = M.MapV(v.kind)
            for kr, (k, val) in v.d.items(): mv.d[kr] = [k, self.walk(val)]
            return mv
        return v


def split_args(s):
    """split at top-level commas (only () [] {} nest; string literals are skipped)"""
    out, d, cur, i = [], 0, "", 0
    while i < len(s):
        ch = s[i]
        if ch == '"':
            j = s.index('"', i + 1); cur += s[i:j + 1]; i = j + 1; continue
        if ch in "([{": d += 1
        elif ch in ")]}": d -= 1
        if ch == "," and d == 0: out.append(cur.strip()); cur = ""
        else: cur += ch
        i += 1
    if cur.strip(): out.append(cur.strip())
    return out


def render_concrete(text, assignment):
    """replace macros by concrete Sylt syntax; assignment: {'lit1': 'str', 'op1': '+', 'un1': '-', 'ty1': 'int', 'alt1': 2, ..}"""
    def find_call(s, start):
        d = 0; j = start
        while True:
            if s[j] == '"': j = s.index('"', j + 1)
            elif s[j] in "([{": d += 1
            elif s[j] in ")]}":
                d -= 1
                if d == 0: return j
            j += 1
    out = text
    while True:
        ms = list(re.finditer(r"__(op|un|ar|ealt|alt)(\w*?)\(", out))
        if not ms: break
        m = ms[-1]                       # innermost-last first: arguments are already concrete
        j = find_call(out, m.end() - 1); inner = out[m.end():j]
        args = split_args(inner); what, k = m.group(1), m.group(2)
        if what == "ar": rep = "%s(%s)" % (args[0], ", ".join(args[1:1 + int(assignment["ar" + k])]))
        elif what == "op": rep = "(%s %s %s)" % (args[0], assignment["op" + k], args[1])
        elif what == "un":
            u = assignment["un" + k]; rep = "(%s%s)" % ("-" if u == "-" else "not ", args[0])
        elif what == "ealt": rep = "(" + args[int(assignment["ealt" + k])] + ")"
        else:
            a = args[int(assignment["alt" + k])]
            mm = re.match(r"^fn\s+do(.*)end$", a.strip(), re.S)
            rep = "do" + mm.group(1) + "end"
        out = out[:m.start()] + rep + out[j + 1:]
    out = re.sub(r"__lit(\w*)", lambda mm: LIT_TEXT[assignment["lit" + mm.group(1)]], out)
    out = re.sub(r"Ty__(\w*)", lambda mm: assignment["ty" + mm.group(1)], out)
    return out
