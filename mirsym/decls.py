"""Type declarations of the sylt crates (enum / struct, with field types) read from the .rs sources, and a
type-directed converter from Rust `{:?}` (derived Debug) output to E-MIR values. This is how real ASTs produced
by the natively built front end (REPLAY tool) become inputs of the MIR executor."""
import os, re
from mirsym import core as M


class Decl:
    def __init__(self, crate, module, name, kind):
        self.crate, self.module, self.name, self.kind = crate, module, name, kind
        self.variants = []        # enum: [(vname, shape, [(fname|None, type)])]   shape: unit|tuple|struct
        self.fields = []          # struct: [(fname|None, type)]
        self.tuple_struct = False
    @property
    def key(self): return "%s::%s" % (self.module, self.name)


def split_top(s, sep=","):
    out, d, cur = [], 0, ""
    i = 0
    while i < len(s):
        ch = s[i]
        if ch in "([{<": d += 1
        elif ch in ")]}": d -= 1
        elif ch == ">" and (i == 0 or s[i - 1] not in "-="): d -= 1
        if ch == sep and d == 0:
            out.append(cur.strip()); cur = ""
        else: cur += ch
        i += 1
    if cur.strip(): out.append(cur.strip())
    return out


def parse_fields(body, named):
    out = []
    for it in split_top(body):
        it = re.sub(r"^pub(\([^)]*\))?\s+", "", it.strip())
        if not it: continue
        if named:
            m = re.match(r"(\w+)\s*:\s*(.*)$", it, re.S)
            if m: out.append((m.group(1), " ".join(m.group(2).split())))
        else: out.append((None, " ".join(it.split())))
    return out


FILES = [("sylt_tokenizer", "token", "sylt-tokenizer/src/token.rs"), ("sylt_tokenizer", "tokenizer", "sylt-tokenizer/src/tokenizer.rs"),
         ("sylt_common", "sylt_common", "sylt-common/src/lib.rs"), ("sylt_common", "ty", "sylt-common/src/ty.rs"), ("sylt_common", "error", "sylt-common/src/error.rs"),
         ("sylt_parser", "parser", "sylt-parser/src/parser.rs"), ("sylt_parser", "expression", "sylt-parser/src/expression.rs"), ("sylt_parser", "statement", "sylt-parser/src/statement.rs"),
         ("sylt_compiler", "name_resolution", "sylt-compiler/src/name_resolution.rs"), ("sylt_compiler", "typechecker", "sylt-compiler/src/typechecker.rs"),
         ("sylt_compiler", "ty", "sylt-compiler/src/ty.rs"), ("sylt_compiler", "dependency", "sylt-compiler/src/dependency.rs"),
         ("sylt_compiler", "intermediate", "sylt-compiler/src/intermediate.rs"), ("sylt_compiler", "compiler", "sylt-compiler/src/compiler.rs")]


def load_decls(repo_root):
    decls = []
    for crate, module, rel in FILES:
        p = os.path.join(repo_root, rel)
        if not os.path.exists(p): continue
        src = M.strip_attrs_and_comments(open(p).read())
        for m in re.finditer(r"\btype\s+(\w+)\s*(<[^>=]*>)?\s*=\s*([^;]+);", src):
            d = Decl(crate, module, m.group(1), "alias"); d.target = " ".join(m.group(3).split()); decls.append(d)
        for m in re.finditer(r"\b(enum|struct)\s+(\w+)\s*(<[^>{(;]*>)?\s*([{(;])", src):
            kind, name, opener = m.group(1), m.group(2), m.group(4)
            d = Decl(crate, module, name, kind)
            if opener == ";": decls.append(d); continue
            close = "}" if opener == "{" else ")"
            i = m.end(); depth = 1; j = i
            while depth:
                if src[j] == opener: depth += 1
                elif src[j] == close: depth -= 1
                j += 1
            body = src[i:j - 1]
            if kind == "struct":
                d.fields = parse_fields(body, opener == "{"); d.tuple_struct = opener == "("
            else:
                for it in split_top(body):
                    it = it.strip()
                    if not it: continue
                    mm = re.match(r"(\w+)\s*(\((.*)\)|\{(.*)\})?\s*(=\s*\d+)?$", it, re.S)
                    if not mm: continue
                    if mm.group(3) is not None: d.variants.append((mm.group(1), "tuple", parse_fields(mm.group(3), False)))
                    elif mm.group(4) is not None: d.variants.append((mm.group(1), "struct", parse_fields(mm.group(4), True)))
                    else: d.variants.append((mm.group(1), "unit", []))
            decls.append(d)
    return decls


class Types:
    """lookup of declarations by the names used in type annotations, relative to the module that mentions them"""
    # imports / aliases used in the sources (module -> {alias: (module, Name)})
    ALIASES = {
        "parser": {"RuntimeType": ("ty", "Type", "sylt_common"), "T": ("token", "Token", "sylt_tokenizer"), "Expression": ("expression", "Expression", "sylt_parser"),
                   "Statement": ("statement", "Statement", "sylt_parser"), "Span": ("tokenizer", "Span", "sylt_tokenizer")},
        "expression": {"RuntimeType": ("ty", "Type", "sylt_common"), "Type": ("parser", "Type", "sylt_parser")},
        "statement": {"RuntimeType": ("ty", "Type", "sylt_common"), "Type": ("parser", "Type", "sylt_parser"), "Expression": ("expression", "Expression", "sylt_parser")},
        "name_resolution": {"RuntimeType": ("ty", "Type", "sylt_common")},
        "tokenizer": {"Token": ("token", "Token", "sylt_tokenizer")},
    }
    def __init__(self, decls):
        self.decls = decls
        self.by_name = {}
        for d in decls: self.by_name.setdefault(d.name, []).append(d)
    def find(self, name, module, crate=None):
        name = name.split("::")[-1] if "::" in name and name.split("::")[-1] in self.by_name else name
        al = self.ALIASES.get(module, {}).get(name)
        if al is not None:
            for d in self.by_name.get(al[1], []):
                if d.module == al[0] and d.crate == al[2]: return d
        cands = self.by_name.get(name, [])
        if not cands: return None
        same = [d for d in cands if d.module == module and (crate is None or d.crate == crate)]
        if same: return same[0]
        if crate:
            sc = [d for d in cands if d.crate == crate]
            if len(sc) == 1: return sc[0]
        if len(cands) == 1: return cands[0]
        # prefer the parser crate's re-exports when asked from a parser module, else ambiguity
        pc = [d for d in cands if d.crate == "sylt_parser"]
        if module in ("parser", "expression", "statement") and len(pc) == 1: return pc[0]
        return None


# ------------------------------------------------------------------ Debug text -> generic tree
class DebugSyntax(Exception): pass


def parse_debug(text):
    p = _DP(text); v = p.value()
    p.ws()
    if p.i != len(text): raise DebugSyntax("trailing text at %d: %r" % (p.i, text[p.i:p.i + 40]))
    return v


class _DP:
    def __init__(self, s): self.s = s; self.i = 0
    def ws(self):
        while self.i < len(self.s) and self.s[self.i] in " \n\t": self.i += 1
    def peek(self): self.ws(); return self.s[self.i] if self.i < len(self.s) else ""
    def expect(self, c):
        self.ws()
        if not self.s.startswith(c, self.i): raise DebugSyntax("expected %r at %d: %r" % (c, self.i, self.s[self.i:self.i + 30]))
        self.i += len(c)
    def value(self):
        c = self.peek()
        if c == '"': return ("str", self.string())
        if c == "[":
            self.i += 1; items = self.items("]"); return ("list", items)
        if c == "(":
            self.i += 1; items = self.items(")"); return ("tuple", items)
        if c == "{":
            self.i += 1; ents = []
            while self.peek() != "}":
                k = self.value();
                if self.peek() == ":":
                    self.i += 1; v = self.value(); ents.append((k, v))
                else: ents.append((k, None))
                if self.peek() == ",": self.i += 1
            self.i += 1; return ("map", ents)
        m = re.compile(r"-?\d+\.\d+(e-?\d+)?|-?\d+e-?\d+|-?inf|NaN").match(self.s, self.i)
        if m: self.i = m.end(); return ("float", float(m.group(0).replace("NaN", "nan")))
        m = re.compile(r"-?\d+").match(self.s, self.i)
        if m: self.i = m.end(); return ("int", int(m.group(0)))
        m = re.compile(r"[A-Za-z_*#][A-Za-z0-9_:]*").match(self.s, self.i)
        if not m: raise DebugSyntax("unexpected %r at %d" % (self.s[self.i:self.i + 30], self.i))
        name = m.group(0); self.i = m.end()
        if name in ("true", "false"): return ("bool", name == "true")
        c = self.peek()
        if c == "(":
            self.i += 1; return ("ctor", name, self.items(")"))
        if c == "{":
            self.i += 1; fields = []
            while self.peek() != "}":
                mm = re.compile(r"\w+").match(self.s, self.i); fn = mm.group(0); self.i = mm.end(); self.expect(":")
                fields.append((fn, self.value()))
                if self.peek() == ",": self.i += 1
            self.i += 1; return ("rec", name, fields)
        return ("unit", name)
    def items(self, close):
        out = []
        while self.peek() != close:
            out.append(self.value())
            if self.peek() == ",": self.i += 1
        self.i += 1; return out
    def string(self):
        assert self.s[self.i] == '"'; j = self.i + 1; buf = []
        while self.s[j] != '"':
            if self.s[j] == "\\":
                e = self.s[j + 1]
                if e == "u":
                    k = self.s.index("}", j); buf.append(chr(int(self.s[j + 3:k], 16))); j = k + 1; continue
                buf.append({"n": "\n", "t": "\t", "r": "\r", "0": "\0", "\\": "\\", '"': '"', "'": "'"}.get(e, e)); j += 2
            else: buf.append(self.s[j]); j += 1
        self.i = j + 1; return "".join(buf)


RUNTIME_TYPE_NAMES = {"void": "Void", "nil": "Nil", "int": "Int", "float": "Float", "bool": "Bool", "str": "String", "*": "Unknown", "Type": "Ty", "Invalid": "Invalid"}


class Converter:
    """generic Debug tree + expected Rust type -> E-MIR value"""
    def __init__(self, types): self.types = types
    def strip(self, ty):
        ty = ty.strip()
        ty = re.sub(r"^&('\w+ )?(mut )?", "", ty)
        return ty
    def conv(self, t, ty, module, crate=None):
        ty = self.strip(ty)
        m = re.match(r"^(Box|Rc)<(.*)>$", ty)
        if m: return M.BoxV(self.conv(t, m.group(2), module, crate))
        m = re.match(r"^Vec<(.*)>$", ty)
        if m:
            if t[0] != "list": raise DebugSyntax("expected list for %s, got %r" % (ty, t[0]))
            return M.VecV([self.conv(x, m.group(1), module, crate) for x in t[1]])
        m = re.match(r"^Option<(.*)>$", ty)
        if m:
            if t == ("unit", "None"): return M.EnumV("Option", 0, [])
            if t[0] == "ctor" and t[1] == "Some": return M.EnumV("Option", 1, [self.conv(t[2][0], m.group(1), module, crate)])
            raise DebugSyntax("expected Option, got %r" % (t,))
        if ty.startswith("(") and ty.endswith(")"):
            tys = split_top(ty[1:-1])
            if t[0] != "tuple" or len(t[1]) != len(tys): raise DebugSyntax("tuple shape for %s: %r" % (ty, t[:1]))
            return M.TupleV([self.conv(x, y, module, crate) for x, y in zip(t[1], tys)])
        m = re.match(r"^(BTreeMap|HashMap)<(.*)>$", ty)
        if m:
            kt, vt = split_top(m.group(2)); mv = M.MapV("btree" if m.group(1)[0] == "B" else "hash")
            for k, v in t[1]:
                kk = self.conv(k, kt, module, crate); mv.d[M.key_repr(kk)] = [kk, self.conv(v, vt, module, crate)]
            return mv
        if ty in ("String", "str", "PathBuf", "Path", "std::path::PathBuf", "&'static str"):
            if t[0] != "str": raise DebugSyntax("expected string for %s, got %r" % (ty, t))
            return t[1]
        if ty in ("usize", "i64", "u64", "isize", "u32", "i32", "u8"): return t[1]
        if ty == "f64": return float(t[1])
        if ty == "bool": return t[1]
        base = re.sub(r"<.*$", "", ty)
        d = self.types.find(base, module, crate)
        if d is None: raise DebugSyntax("no declaration for type %s (asked from module %s)" % (ty, module))
        if d.kind == "alias": return self.conv(t, d.target, d.module, d.crate)
        if d.name == "Type" and d.module == "ty" and d.crate == "sylt_common":
            if t[0] == "unit" and t[1] in RUNTIME_TYPE_NAMES:
                names = [v[0] for v in d.variants]; return M.EnumV("sylt_common::Type", names.index(RUNTIME_TYPE_NAMES[t[1]]), [])
            raise DebugSyntax("unsupported runtime type rendering %r" % (t,))
        if d.kind == "struct":
            if d.tuple_struct:
                if t[0] != "ctor": raise DebugSyntax("expected tuple struct %s" % d.name)
                return M.StructV(d.name, [self.conv(x, ft, d.module, d.crate) for x, (_, ft) in zip(t[2], d.fields)])
            if t[0] != "rec" or t[1] != d.name: raise DebugSyntax("expected struct %s, got %r" % (d.name, t[:2]))
            given = dict(t[2])
            return M.StructV(d.name, [self.conv(given[fn], ft, d.module, d.crate) for fn, ft in d.fields])
        # enum
        vname = t[1] if t[0] in ("unit", "ctor", "rec") else None
        names = [v[0] for v in d.variants]
        if vname not in names: raise DebugSyntax("variant %r not in enum %s::%s" % (vname, d.module, d.name))
        idx = names.index(vname); _, shape, fts = d.variants[idx]
        ename = self.enum_name(d)
        if shape == "unit": return M.EnumV(ename, idx, [])
        if shape == "tuple":
            if t[0] != "ctor" or len(t[2]) != len(fts): raise DebugSyntax("variant shape %s::%s" % (d.name, vname))
            return M.EnumV(ename, idx, [self.conv(x, ft, d.module, d.crate) for x, (_, ft) in zip(t[2], fts)])
        given = dict(t[2])
        return M.EnumV(ename, idx, [self.conv(given[fn], ft, d.module, d.crate) for fn, ft in fts])
    def enum_name(self, d):
        """the type name strings the executor uses (QENUMS keys: file-module qualified)"""
        mod = {"sylt_common": "sylt_common", "sylt_parser": "sylt_parser"}.get(d.crate, d.module)
        if d.crate == "sylt_tokenizer": return d.name
        if d.crate == "sylt_common" and d.name != "Type": return d.name
        if d.name in ("VarKind",): return d.name
        return mod + "::" + d.name
