"""The compiler's phases executed from MIR on a natively parsed AST:
    REPLAY `ast` (real tokenizer + parser, native) -> Debug dump -> E-MIR values
    -> name_resolution::resolve -> dependency::initialization_order -> (blobs/enums first, as Compiler::compile sorts)
    -> typechecker::solve -> intermediate::compile -> intermediate::count_usages
Each phase is the real function body taken from the MIR dump of /repo's working tree."""
import os, subprocess, tempfile, shutil
from vlib import common
from mirsym import core as M, decls as D

CRATES = ("sylt-compiler", "sylt-parser", "sylt-common", "sylt-tokenizer")


class Pipeline:
    def __init__(self, art=None):
        self.art = art or common.artifacts(need_mir=CRATES, need_replay=True)
        self.m = M.Machine([self.art["mir"][c] for c in CRATES], common.REPO)
        self.types = D.Types(D.load_decls(common.REPO)); self.cv = D.Converter(self.types)
        ex = self.m.ex
        _call = ex.call
        def stub(callee, args):
            c = M.strip_gen(callee)
            if c.endswith("find_similar_name"): return M.opt()       # only feeds the "Maybe you ment" help text
            return _call(callee, args)
        ex.call = stub
        self.stubs = ["Resolver::find_similar_name -> None (help text only)", "TypeChecker::bake_type -> opaque (message text only)", "format! -> opaque string"]

    # ---- native front end
    def parse_native(self, files, main="main.sy", no_std=False):
        d = tempfile.mkdtemp(prefix="pl_", dir=common.SCRATCH)
        try:
            for rel, text in files.items():
                p = os.path.join(d, rel); os.makedirs(os.path.dirname(p), exist_ok=True)
                open(p, "w").write(text)
            out = subprocess.run([self.art["replay"], "ast", main] + (["--no-std"] if no_std else []), cwd=d, capture_output=True, text=True, timeout=60).stdout
        finally:
            shutil.rmtree(d, ignore_errors=True)
        if not out.startswith("OK "): return None, out
        tree = D.parse_debug(out[3:].strip())
        mods = self.cv.conv(tree, "Vec<(FileOrLib, Module)>", "parser", "sylt_parser")
        return M.StructV("AST", [mods]), None
    def namespaces(self, ast):
        ns = M.MapV("hash")
        fi = self.m.structs["Module"].index("file_id")
        for t in ast.fields[0].items:
            fid = t.fields[1].fields[fi]; ns.d[fid] = [fid, M.deep(t.fields[0])]
        return ns

    # ---- phases (each returns the list of explored paths: (pc, (kind, value)))
    def resolve(self, ast, ns, base=()):
        return self.m.explore("resolve", lambda: [M.Ref([ast], 0), M.Ref([ns], 0)], base)
    def init_order(self, stmts, base=()):
        return self.m.explore("initialization_order", lambda: [M.Ref([stmts], 0)], base)
    def sort_types_first(self, stmts_refs):
        """Compiler::compile clones the ordered statements and stable-sorts blobs/enums first"""
        SV = M.QENUMS[("name_resolution", "Statement")]
        items = [M.deep(r.get() if isinstance(r, M.Ref) else r) for r in stmts_refs]
        key = lambda s: 0 if SV[s.disc] in ("Blob", "Enum") else 1
        return M.VecV(sorted(items, key=key))
    def solve(self, vars_, stmts, ns, base=()):
        return self.m.explore("solve", lambda: [M.Ref([vars_], 0), M.Ref([stmts], 0), M.Ref([ns], 0)], base)
    def ir(self, tc, stmts, base=()):
        return self.m.explore("intermediate::compile", lambda: [M.Ref([tc], 0), M.Ref([stmts], 0)], base)
    def usages(self, ir, base=()):
        return self.m.explore("count_usages", lambda: [ir], base)

    def front_to_ir(self, files, main="main.sy", no_std=False):
        """concrete run of all phases; returns dict(phase -> result) and stops at the first Err/panic"""
        out = {}
        ast, err = self.parse_native(files, main, no_std)
        if ast is None: out["parse"] = ("err", err); return out
        ns = self.namespaces(ast)
        r = self.resolve(ast, ns)
        (pc, (kind, v)), = r
        out["resolve"] = (kind, v)
        if kind != "ok" or v.disc != 0: return out
        vars_, stmts = v.fields[0].fields
        r = self.init_order(stmts)
        (pc, (kind, v)), = r
        out["order"] = (kind, v)
        if kind != "ok" or v.disc != 0: return out
        sorted_stmts = self.sort_types_first(v.fields[0].items)
        r = self.solve(vars_, sorted_stmts, ns)
        (pc, (kind, v)), = r
        out["solve"] = (kind, v)
        if kind != "ok" or v.disc != 0: return out
        tc = v.fields[0]
        r = self.ir(tc, sorted_stmts)
        (pc, (kind, v)), = r
        out["ir"] = (kind, v)
        return out
