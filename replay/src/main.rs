//! REPLAY: native confirmation tool. Public API of the sylt crates only (no source hooks).
//!   tokens <file>              Debug of every PlacedToken, one per line
//!   ast <file> [--no-std]      Debug of the parser AST (or of the error list)
//!   expr <file>                parse the file's tokens as ONE expression, Debug of the result
//!   errors <file> [--no-std]   compile; prints `OK <bytes>` or each error as Debug and Display
//!   short <file> <n>           compile into a writer that accepts at most n bytes per write() call
//!   seq <file1> <file2> ..     compile the files one after the other in this thread; prints the result of each
use std::io::Write;
use std::path::{Path, PathBuf};

fn read(path: &Path) -> Result<String, sylt_common::Error> {
    std::fs::read_to_string(path).map_err(|_| sylt_common::Error::FileNotFound(path.to_path_buf()))
}

struct ShortWriter { accepted: Vec<u8>, max: usize, calls: usize, offered: usize }
impl Write for ShortWriter {
    fn write(&mut self, buf: &[u8]) -> std::io::Result<usize> {
        self.calls += 1;
        self.offered += buf.len();
        let n = buf.len().min(self.max);
        self.accepted.extend_from_slice(&buf[..n]);
        Ok(n)
    }
    fn flush(&mut self) -> std::io::Result<()> { Ok(()) }
}

fn main() {
    let args: Vec<String> = std::env::args().collect();
    if args.len() < 3 { eprintln!("usage: sylt-replay <cmd> <file> .."); std::process::exit(2); }
    let cmd = args[1].as_str();
    let file = PathBuf::from(&args[2]);
    let no_std = args.iter().any(|a| a == "--no-std");
    match cmd {
        "tokens" => {
            let content = std::fs::read_to_string(&file).unwrap();
            for t in sylt_tokenizer::string_to_tokens(0, &content) { println!("{:?}", t); }
        }
        "ast" => {
            match sylt_parser::tree(&file, read, !no_std) {
                Ok(ast) => println!("OK {:?}", ast.modules),
                Err(errs) => { for e in errs { println!("ERR {:?}", e); } }
            }
        }
        "expr" => {
            let content = std::fs::read_to_string(&file).unwrap();
            let placed = sylt_tokenizer::string_to_tokens(0, &content);
            let tokens: Vec<_> = placed.iter().map(|p| p.token.clone()).collect();
            let spans: Vec<_> = placed.iter().map(|p| p.span).collect();
            let f = sylt_common::FileOrLib::File(file.clone());
            let ctx = sylt_parser::Context::new(&tokens, &spans, &f, 0, Path::new("."));
            match sylt_parser::expression::expression(ctx) {
                Ok((_ctx, e)) => println!("OK {:?}", e),
                Err((_, errs)) => { for e in errs { println!("ERR {:?}", e); } }
            }
        }
        "errors" => {
            let mut out: Vec<u8> = Vec::new();
            let res = sylt_parser::tree(&file, read, !no_std).and_then(|tree| sylt_compiler::compile(&mut out, tree, None));
            match res {
                Ok(()) => println!("OK {}", out.len()),
                Err(errs) => { for e in errs { println!("ERR {:?}", e); println!("MSG {}", format!("{}", e).replace("\n", "\\n")); } }
            }
        }
        "short" => {
            let n: usize = args[3].parse().unwrap();
            let mut full: Vec<u8> = Vec::new();
            let r1 = sylt_parser::tree(&file, read, !no_std).and_then(|tree| sylt_compiler::compile(&mut full, tree, None));
            let mut w = ShortWriter { accepted: Vec::new(), max: n, calls: 0, offered: 0 };
            let r2 = sylt_parser::tree(&file, read, !no_std).and_then(|tree| sylt_compiler::compile(&mut w, tree, None));
            println!("full_ok={} short_ok={} full_len={} accepted_len={} offered={} calls={} equal={}", r1.is_ok(), r2.is_ok(), full.len(), w.accepted.len(), w.offered, w.calls, full == w.accepted);
        }
        "seq" => {
            for f in args[2..].iter().filter(|a| !a.starts_with("--")) {
                let file = PathBuf::from(f);
                let mut out: Vec<u8> = Vec::new();
                let res = sylt_parser::tree(&file, read, !no_std).and_then(|tree| sylt_compiler::compile(&mut out, tree, None));
                match res {
                    Ok(()) => println!("FILE {} OK {} {:x}", f, out.len(), out.iter().fold(0u64, |h, b| h.wrapping_mul(1099511628211).wrapping_add(*b as u64))),
                    Err(errs) => { println!("FILE {} ERR", f); for e in errs { println!("ERR {:?}", e); } }
                }
            }
        }
        _ => { eprintln!("unknown command"); std::process::exit(2); }
    }
}
