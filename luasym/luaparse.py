"""Lua 5.3 lexer and parser, written from the reference manual (§3, §9), plus the *static* load-time rules of
the reference implementation (lparser.c) that an emitter can violate:
  - assignment target must be a variable or an index expression
  - `break` outside a loop
  - `goto` without a visible label / jumping into the scope of a local
  - duplicate label in a block
  - more than 200 active local variables in a function (LUAI_MAXVARS)
  - more than 255 upvalues in a function (MAXUPVAL)
  - more than 200 nested syntactic levels (LUAI_MAXCCALLS, enterlevel)
"Loads" in C05/C06 means: parse() returns without LuaSyntaxError. Independent of the Sylt compiler."""
import re

KW = set("and break do else elseif end false for function goto if in local nil not or repeat return then true until while".split())
MAXVARS = 200
MAXUPVAL = 255
MAXCCALLS = 200

TOK = re.compile(r"""
    (?P<ws>[ \t\r\n\f\v]+)|(?P<lcom>--\[(?P<lc>=*)\[)|(?P<com>--[^\n]*)|
    (?P<num>0[xX](?:[0-9a-fA-F]*\.?[0-9a-fA-F]*)(?:[pP][+-]?\d+)?|(?:\d+\.?\d*|\.\d+)(?:[eE][+-]?\d+)?)|
    (?P<name>[A-Za-z_][A-Za-z0-9_]*)|
    (?P<lstr>\[(?P<ls>=*)\[)|
    (?P<str>"|')|
    (?P<op>\.\.\.|\.\.|==|~=|<=|>=|<<|>>|//|::|[-+*/%^\#&~|<>=(){}\[\];:,.])
""", re.X)


class LuaSyntaxError(Exception):
    pass


ESC = {"n": "\n", "t": "\t", "r": "\r", "a": "\a", "b": "\b", "f": "\f", "v": "\v", "\\": "\\", '"': '"', "'": "'", "\n": "\n"}


def _number(t, line):
    try:
        if t[:2].lower() == "0x":
            if re.fullmatch(r"0[xX][0-9a-fA-F]+", t):
                v = int(t, 16)
                if v >= 2**63: v -= 2**64 * ((v + 2**63) // 2**64)     # hex integers wrap
                return v
            return float.fromhex(t)
        if re.fullmatch(r"\d+", t):
            v = int(t)
            return v if v < 2**63 else float(v)                         # decimal integers that overflow are floats
        return float(t)
    except ValueError:
        raise LuaSyntaxError("line %d: malformed number near '%s'" % (line, t))


def lex(src):
    out = []; i = 0; line = 1; n = len(src)
    if src.startswith("#"):           # shebang line is skipped by the loader
        j = src.find("\n"); i = n if j < 0 else j
    while i < n:
        m = TOK.match(src, i)
        if not m: raise LuaSyntaxError("line %d: unexpected symbol near %r" % (line, src[i]))
        t = m.group(0)
        if m.group("lcom") is not None:
            close = "]" + m.group("lc") + "]"; j = src.find(close, m.end())
            if j < 0: raise LuaSyntaxError("line %d: unfinished long comment" % line)
            line += src.count("\n", i, j); i = j + len(close); continue
        if m.group("lstr") is not None:
            close = "]" + m.group("ls") + "]"; j = src.find(close, m.end())
            if j < 0: raise LuaSyntaxError("line %d: unfinished long string" % line)
            s = src[m.end():j]
            if s.startswith("\r\n"): s = s[2:]
            elif s.startswith("\n"): s = s[1:]
            out.append(("str", s, line)); line += src.count("\n", i, j); i = j + len(close); continue
        if m.group("ws") is not None: line += t.count("\n"); i = m.end(); continue
        if m.group("com") is not None: i = m.end(); continue
        if m.group("str") is not None:
            q = t; j = m.end(); buf = []
            while True:
                if j >= n: raise LuaSyntaxError("line %d: unfinished string near <eof>" % line)
                ch = src[j]
                if ch == q: break
                if ch == "\n" or ch == "\r": raise LuaSyntaxError("line %d: unfinished string (raw newline in a quoted string)" % line)
                if ch == "\\":
                    j += 1
                    if j >= n: raise LuaSyntaxError("line %d: unfinished string near <eof>" % line)
                    e = src[j]
                    if e in ESC:
                        buf.append(ESC[e]); j += 1
                        if e == "\n": line += 1
                    elif e == "\r":
                        buf.append("\n"); j += 1
                        if j < n and src[j] == "\n": j += 1
                    elif e.isdigit() and e.isascii():
                        mm = re.match(r"[0-9]{1,3}", src[j:]); v = int(mm.group(0))
                        if v > 255: raise LuaSyntaxError("line %d: decimal escape too large near '\\%s'" % (line, mm.group(0)))
                        buf.append(chr(v)); j += len(mm.group(0))
                    elif e == "x":
                        mm = re.match(r"x[0-9a-fA-F]{2}", src[j:])
                        if not mm: raise LuaSyntaxError("line %d: hexadecimal digit expected" % line)
                        buf.append(chr(int(mm.group(0)[1:], 16))); j += 3
                    elif e == "z":
                        j += 1
                        while j < n and src[j] in " \t\r\n\f\v":
                            if src[j] == "\n": line += 1
                            j += 1
                    elif e == "u":
                        mm = re.match(r"u\{([0-9a-fA-F]+)\}", src[j:])
                        if not mm: raise LuaSyntaxError("line %d: missing '{' or hexadecimal digit in \\u{xxxx}" % line)
                        cp = int(mm.group(1), 16)
                        if cp > 0x10FFFF: raise LuaSyntaxError("line %d: UTF-8 value too large" % line)
                        buf.append(chr(cp)); j += len(mm.group(0))
                    else: raise LuaSyntaxError("line %d: invalid escape sequence '\\%s'" % (line, e))
                    continue
                buf.append(ch); j += 1
            out.append(("str", "".join(buf), line)); i = j + 1; continue
        k = m.lastgroup
        if m.group("num") is not None:
            # a number immediately followed by a name character is malformed (e.g. 3x, 0xg)
            if m.end() < n and (src[m.end()].isalnum() or src[m.end()] == "_"):
                raise LuaSyntaxError("line %d: malformed number near '%s'" % (line, src[i:m.end() + 1]))
            out.append(("num", _number(t, line), line))
        elif m.group("name") is not None: out.append((("kw" if t in KW else "name"), t, line))
        else: out.append(("op", t, line))
        i = m.end()
    out.append(("eof", None, line)); return out


# precedence (manual §3.4.8), low to high; (left, right) binding powers as in lparser.c
BINPRI = {"or": (1, 1), "and": (2, 2), "<": (3, 3), ">": (3, 3), "<=": (3, 3), ">=": (3, 3), "~=": (3, 3), "==": (3, 3),
          "|": (4, 4), "~": (5, 5), "&": (6, 6), "<<": (7, 7), ">>": (7, 7), "..": (9, 8), "+": (10, 10), "-": (10, 10),
          "*": (11, 11), "/": (11, 11), "//": (11, 11), "%": (11, 11), "^": (14, 13)}
UNARY_PRI = 12


class FuncState:
    def __init__(self, parent):
        self.parent = parent
        self.actvars = []        # names of active locals (innermost last)
        self.blocks = []         # stack of block records
        self.upvals = []         # names captured from enclosing functions
        self.loopdepth = 0


class Block:
    def __init__(self, is_loop, nact):
        self.is_loop = is_loop; self.nact = nact      # number of active locals at block entry
        self.labels = {}                              # name -> (nactvar at label, is_last_candidate index)
        self.pending = []                             # gotos not yet resolved: (name, line, nactvar at goto)


class Parser:
    def __init__(self, toks):
        self.t = toks; self.i = 0; self.fs = None; self.level = 0
        self.max_locals = 0; self.max_upvals = 0

    # ---- token helpers
    def peek(self): return self.t[self.i]
    def nxt(self): self.i += 1; return self.t[self.i - 1]
    def at(self, v):
        k, x, _ = self.t[self.i]; return k in ("op", "kw") and x == v
    def eat(self, v):
        if self.at(v): self.i += 1; return True
        return False
    def near(self):
        k, x, l = self.peek(); return "line %d: near %r" % (l, "<eof>" if k == "eof" else x)
    def expect(self, v):
        if not self.eat(v): raise LuaSyntaxError("%s: '%s' expected" % (self.near(), v))
    def name(self):
        k, x, l = self.nxt()
        if k != "name": raise LuaSyntaxError("line %d: <name> expected near %r" % (l, x))
        return x
    def enter(self):
        self.level += 1
        if self.level > MAXCCALLS: raise LuaSyntaxError("%s: chunk has too many syntax levels (C levels limit %d)" % (self.near(), MAXCCALLS))
    def leave(self): self.level -= 1

    # ---- scoping
    def open_func(self):
        self.fs = FuncState(self.fs)
    def close_func(self):
        self.fs = self.fs.parent
    def new_local(self, n, line):
        self.fs.actvars.append(n)
        if len(self.fs.actvars) > MAXVARS:
            raise LuaSyntaxError("line %d: too many local variables (limit is %d) in function" % (line, MAXVARS))
        self.max_locals = max(self.max_locals, len(self.fs.actvars))
    def resolve(self, n, line):
        """classify a name: local / upvalue / global; registers upvalues up the chain"""
        fs = self.fs; chain = []
        while fs is not None:
            if n in fs.actvars or n in fs.upvals: break
            chain.append(fs); fs = fs.parent
        if fs is None: return "global"
        if not chain: return "local" if n in self.fs.actvars else "upval"
        for f in chain:
            if n not in f.upvals:
                f.upvals.append(n)
                if len(f.upvals) > MAXUPVAL:
                    raise LuaSyntaxError("line %d: too many upvalues (limit is %d) in function" % (line, MAXUPVAL))
                self.max_upvals = max(self.max_upvals, len(f.upvals))
        return "upval"
    def enter_block(self, is_loop):
        self.fs.blocks.append(Block(is_loop, len(self.fs.actvars)))
    def leave_block(self):
        b = self.fs.blocks.pop()
        del self.fs.actvars[b.nact:]
        # unresolved gotos move to the enclosing block (they may match a label there)
        if b.pending:
            if self.fs.blocks:
                outer = self.fs.blocks[-1]
                for (n, line, nact) in b.pending:
                    # leaving the block closes its locals: the goto now counts as issued with the outer block's level
                    outer.pending.append((n, line, min(nact, b.nact)))
                    self._try_resolve(outer)
            else:
                n, line, _ = b.pending[0]
                raise LuaSyntaxError("line %d: no visible label '%s' for goto" % (line, n))
    def _try_resolve(self, blk):
        rest = []
        for (n, line, nact) in blk.pending:
            if n in blk.labels:
                lab_nact = blk.labels[n]
                if lab_nact > nact:
                    raise LuaSyntaxError("line %d: <goto %s> jumps into the scope of a local" % (line, n))
            else: rest.append((n, line, nact))
        blk.pending = rest

    # ---- blocks and statements
    def block_follow(self, with_until=True):
        k, x, _ = self.peek()
        if k == "eof": return True
        return k == "kw" and x in ("end", "else", "elseif", "until")
    def block(self):
        body = []
        while not self.block_follow():
            if self.at("return"):
                l = self.peek()[2]; self.nxt(); es = []
                if not self.block_follow() and not self.at(";"): es = self.exprlist()
                self.eat(";"); body.append(("return", es, l)); break
            self.enter()
            st = self.statement()
            self.leave()
            if st is not None: body.append(st)
        return body
    def scoped_block(self, is_loop=False, pre_locals=()):
        self.enter_block(is_loop)
        for n in pre_locals: self.new_local(n, self.peek()[2])
        if is_loop: self.fs.loopdepth += 1
        b = self.block()
        if is_loop: self.fs.loopdepth -= 1
        self.leave_block()
        return b
    def statement(self):
        k, x, l = self.peek()
        if self.eat(";"): return None
        if self.at("::"):
            self.nxt(); n = self.name(); self.expect("::")
            blk = self.fs.blocks[-1]
            if n in blk.labels: raise LuaSyntaxError("line %d: label '%s' already defined" % (l, n))
            # a label followed only by void statements up to the end of the block is outside the scope of the
            # block's locals (lparser.c labelstat/skipnoopstat)
            j = self.i
            while True:
                kk, xx, _ = self.t[j]
                if kk == "op" and xx == ";": j += 1
                elif kk == "op" and xx == "::" and self.t[j + 1][0] == "name" and self.t[j + 2][1] == "::": j += 3
                else: break
            kk, xx, _ = self.t[j]
            at_end = kk == "eof" or (kk == "kw" and xx in ("end", "else", "elseif", "until"))
            blk.labels[n] = blk.nact if at_end else len(self.fs.actvars)
            self._try_resolve(blk)
            return ("label", n, l)
        if k == "kw":
            if x == "break":
                self.nxt()
                if not any(b.is_loop for b in self.fs.blocks): raise LuaSyntaxError("line %d: break outside a loop at line %d" % (l, l))
                return ("break", l)
            if x == "goto":
                self.nxt(); n = self.name()
                # a label visible in an enclosing block (already seen) resolves at once: backward jump
                for b in reversed(self.fs.blocks):
                    if n in b.labels: return ("goto", n, l)
                self.fs.blocks[-1].pending.append((n, l, len(self.fs.actvars)))
                return ("goto", n, l)
            if x == "do":
                self.nxt(); b = self.scoped_block(); self.expect("end"); return ("do", b, l)
            if x == "while":
                self.nxt(); c = self.expr(); self.expect("do"); b = self.scoped_block(True); self.expect("end"); return ("while", c, b, l)
            if x == "repeat":
                self.nxt()
                self.enter_block(True); self.fs.loopdepth += 1
                self.enter_block(False)
                b = self.block(); self.expect("until"); c = self.expr()      # the condition sees the body's locals
                self.leave_block(); self.fs.loopdepth -= 1; self.leave_block()
                return ("repeat", b, c, l)
            if x == "if":
                self.nxt(); arms = []; c = self.expr(); self.expect("then"); arms.append((c, self.scoped_block())); els = None
                while True:
                    if self.eat("elseif"): c = self.expr(); self.expect("then"); arms.append((c, self.scoped_block()))
                    elif self.eat("else"): els = self.scoped_block(); self.expect("end"); break
                    else: self.expect("end"); break
                return ("if", arms, els, l)
            if x == "for":
                self.nxt(); n1 = self.name()
                if self.eat("="):
                    a = self.expr(); self.expect(","); b = self.expr(); c = self.expr() if self.eat(",") else None
                    self.expect("do")
                    self.enter_block(True); self.fs.loopdepth += 1
                    for h in ("(for index)", "(for limit)", "(for step)"): self.new_local(h, l)
                    body = self.scoped_block(False, (n1,))
                    self.fs.loopdepth -= 1; self.leave_block(); self.expect("end"); return ("fornum", n1, a, b, c, body, l)
                names = [n1]
                while self.eat(","): names.append(self.name())
                self.expect("in"); es = self.exprlist(); self.expect("do")
                self.enter_block(True); self.fs.loopdepth += 1
                for h in ("(for generator)", "(for state)", "(for control)"): self.new_local(h, l)
                body = self.scoped_block(False, names)
                self.fs.loopdepth -= 1; self.leave_block(); self.expect("end")
                return ("forin", names, es, body, l)
            if x == "function":
                self.nxt(); n0 = self.name(); self.resolve(n0, l); target = ("name", n0); is_method = False
                while self.eat("."): target = ("index", target, ("const", self.name()))
                if self.eat(":"): target = ("index", target, ("const", self.name())); is_method = True
                return ("assign", [target], [self.funcbody(is_method, l)], l)
            if x == "local":
                self.nxt()
                if self.eat("function"):
                    n = self.name(); self.new_local(n, l); return ("localfn", n, self.funcbody(False, l), l)
                names = [self.name()]
                while self.eat(","): names.append(self.name())
                es = self.exprlist() if self.eat("=") else []
                for n in names: self.new_local(n, l)
                return ("local", names, es, l)
        e = self.suffixed()
        if self.at("=") or self.at(","):
            targets = [e]
            while self.eat(","): targets.append(self.suffixed())
            self.expect("=")
            for t in targets:
                if t[0] not in ("name", "index"): raise LuaSyntaxError("line %d: syntax error near '=' (cannot assign to this expression)" % l)
            return ("assign", targets, self.exprlist(), l)
        if e[0] != "call": raise LuaSyntaxError("line %d: syntax error near %r (expression is not a statement)" % (l, self.peek()[1]))
        return ("callstmt", e, l)
    def funcbody(self, is_method, line):
        self.open_func()
        self.enter_block(False)
        params = []
        if is_method: params.append("self"); self.new_local("self", line)
        self.expect("(")
        if not self.at(")"):
            while True:
                if self.eat("..."): params.append("..."); break
                n = self.name(); params.append(n); self.new_local(n, line)
                if not self.eat(","): break
        self.expect(")")
        b = self.block()
        self.leave_block()
        self.expect("end")
        self.close_func()
        return ("function", params, b)
    def exprlist(self):
        es = [self.expr()]
        while self.eat(","): es.append(self.expr())
        return es
    def expr(self, limit=0):
        self.enter()
        k, x, l = self.peek()
        if (k == "kw" and x == "not") or (k == "op" and x in ("-", "#", "~")):
            self.nxt(); left = ("un", x, self.expr(UNARY_PRI))
        else:
            left = self.simple()
        while True:
            k, x, l = self.peek()
            if k in ("op", "kw") and x in BINPRI and BINPRI[x][0] > limit:
                self.nxt(); right = self.expr(BINPRI[x][1]); left = ("bin", x, left, right, l)
            else: break
        self.leave()
        return left
    def simple(self):
        k, x, l = self.peek()
        if k == "num" or k == "str": self.nxt(); return ("const", x)
        if k == "kw" and x in ("nil", "true", "false"): self.nxt(); return ("const", {"nil": None, "true": True, "false": False}[x])
        if k == "kw" and x == "function": self.nxt(); return self.funcbody(False, l)
        if k == "op" and x == "...": self.nxt(); return ("vararg",)
        if k == "op" and x == "{": return self.table()
        return self.suffixed()
    def table(self):
        self.expect("{"); arr = []; rec = []; items = []
        while not self.at("}"):
            if self.at("["):
                self.nxt(); kx = self.expr(); self.expect("]"); self.expect("="); items.append(("rec", kx, self.expr()))
            elif self.peek()[0] == "name" and self.t[self.i + 1][0] == "op" and self.t[self.i + 1][1] == "=":
                n = self.name(); self.expect("="); items.append(("rec", ("const", n), self.expr()))
            else: items.append(("pos", self.expr()))
            if not (self.eat(",") or self.eat(";")): break
        self.expect("}")
        return ("table", items)
    def primary(self):
        k, x, l = self.nxt()
        if k == "name":
            self.resolve(x, l); return ("name", x)
        if k == "op" and x == "(":
            e = self.expr(); self.expect(")"); return ("paren", e)
        raise LuaSyntaxError("line %d: unexpected symbol near %r" % (l, "<eof>" if k == "eof" else x))
    def suffixed(self):
        e = self.primary()
        while True:
            k, x, l = self.peek()
            if self.eat("."): e = ("index", e, ("const", self.name()))
            elif self.eat("["): i = self.expr(); self.expect("]"); e = ("index", e, i)
            elif self.eat(":"): n = self.name(); e = ("call", ("method", e, n), self.args(), l)
            elif self.at("(") or k == "str" or self.at("{"): e = ("call", e, self.args(), l)
            else: return e
    def args(self):
        k, x, l = self.peek()
        if k == "str": self.nxt(); return [("const", x)]
        if self.at("{"): return [self.table()]
        self.expect("("); es = [] if self.at(")") else self.exprlist(); self.expect(")"); return es


def parse(src, stats=None):
    """returns the chunk as a list of statements; raises LuaSyntaxError when Lua 5.3 would refuse to load it"""
    p = Parser(lex(src))
    p.open_func(); p.enter_block(False)
    b = p.block()
    if p.peek()[0] != "eof":
        raise LuaSyntaxError("line %d: '<eof>' expected near %r" % (p.peek()[2], p.peek()[1]))
    p.leave_block()
    if stats is not None:
        stats["max_locals"] = p.max_locals; stats["max_upvals"] = p.max_upvals
    return b
