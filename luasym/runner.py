"""Running emitted chunks: concrete mode (validation corpus, replays) and symbolic mode (all hole values)."""
import os, re, sys, threading, time
from luasym.luaparse import parse, LuaSyntaxError
from luasym.interp import Interp, LuaError, Unsupported, classify_error
from vlib.sym import Forker, Cut, Undecided

sys.setrecursionlimit(200000)
threading.stack_size(512 * 1024 * 1024)

_PREAMBLE_CACHE = {}
END_MARK = "-- End Sylt preamble\n"


def split_chunk(lua):
    i = lua.find(END_MARK)
    if i < 0: return "", lua
    return lua[:i + len(END_MARK)], lua[i + len(END_MARK):]


def parse_chunk(lua, stats=None):
    """parses the whole chunk (static limits are properties of the whole chunk)"""
    return parse(lua, stats)


def in_thread(f, *a, **kw):
    """run f in a thread with a big stack (deep Lua recursion = deep python recursion)"""
    box = {}
    def w():
        try: box["r"] = f(*a, **kw)
        except BaseException as e: box["e"] = e
    t = threading.Thread(target=w); t.start(); t.join()
    if "e" in box: raise box["e"]
    return box["r"]


def run_concrete(ast, max_steps=3_000_000):
    """returns (events, outcome, interp); outcome = ('ok',) | classified error tuple | ('cut', why)"""
    it = Interp(None, max_steps=max_steps)
    try:
        it.run(ast); out = ("ok",)
    except LuaError as e: out = classify_error(e)
    except Cut as e: out = ("cut", str(e))
    except RecursionError: out = ("resource", "python recursion")
    return it.events, out, it


def run_symbolic(ast, base, holes_hook=None, loop_bound=4, call_depth=4, max_paths=256, timeout_ms=5000, stats=None, max_steps=400_000):
    """explores all feasible paths. Returns (paths, forker); paths = list of dict(pc, kind, events, outcome, undeclared, order_dependent)"""
    fk = Forker(base, stats, timeout_ms, max_paths)
    def thunk():
        it = Interp(fk, max_steps=max_steps, loop_bound=loop_bound, call_depth=call_depth)
        try:
            it.run(ast); out = ("ok",)
        except LuaError as e: out = classify_error(e)
        except Unsupported as e:
            raise Undecided("unsupported: " + str(e))
        except RecursionError: out = ("resource", "python recursion")
        except Cut as e:
            # the path is cut by a bound (loop / call depth / steps): what it did BEFORE the cut is still what the chunk does
            fk.cut_paths += 1; out = ("cut", str(e))
        return {"events": it.events, "outcome": out, "undeclared": list(it.undeclared_reads), "order_dependent": it.order_dependent,
                "global_writes": dict(it.global_writes)}
    res = fk.explore(thunk)
    paths = []
    for pc, kind, val in res:
        if kind == "ok": d = dict(val); d["pc"] = pc; d["kind"] = "ok"
        else: d = {"pc": pc, "kind": kind, "why": val, "events": [], "outcome": (kind,), "undeclared": [], "order_dependent": False}
        paths.append(d)
    return paths, fk


# ------------------------------------------------------------------ the repo's own programs as validation corpus
def expectations(path):
    exp = []
    for line in open(path, errors="replace"):
        if line.startswith("// error:"):
            t = line[len("// error:"):].strip()
            exp.append("runtime" if (t.startswith("#") or t == "Runtime") else ("syntax" if t.startswith("@") else "compile"))
    return exp


def corpus(root):
    files = []
    for d, _, fs in os.walk(root):
        for f in fs:
            if f.endswith(".sy") and not f.startswith("_") and "/_" not in d[len(root):]: files.append(os.path.join(d, f))      # `_x` = helper of a multi-file test
    files.sort()
    return files


def validate_one(sylt, f, cwd):
    import subprocess, tempfile
    exp = expectations(f)
    fd, out = tempfile.mkstemp(suffix=".lua", prefix="val_"); os.close(fd); os.remove(out)
    try:
        r = subprocess.run([sylt, "-o", out, f], capture_output=True, text=True, cwd=cwd, timeout=120)
        compiled = r.returncode == 0 and os.path.exists(out)
        if not compiled:
            return ("compile-rejected:" + ("expected" if any(e in ("compile", "syntax") for e in exp) else "UNEXPECTED"), r.stdout[-300:])
        src = open(out, errors="surrogateescape").read()
    finally:
        if os.path.exists(out): os.remove(out)
    try: ast = parse(src)
    except LuaSyntaxError as e: return ("lua-does-not-load", str(e))
    events, outcome, it = run_concrete(ast)
    want_fail = "runtime" in exp
    if any(e in ("compile", "syntax") for e in exp): return ("accepted-but-error-expected", "")
    if want_fail: return ("agree(runtime failure)" if outcome[0] != "ok" else "DISAGREE(expected failure, ran ok)", str(outcome))
    return ("agree(ok)" if outcome[0] == "ok" else "DISAGREE(%s)" % (outcome,), "")


if __name__ == "__main__":
    sylt, root = sys.argv[1], sys.argv[2]
    def main():
        stats = {}; problems = []; t0 = time.time()
        for f in corpus(root):
            v, msg = validate_one(sylt, f, os.path.dirname(root.rstrip("/")) or "/")
            stats[v] = stats.get(v, 0) + 1
            if "DISAGREE" in v or "UNEXPECTED" in v or v.startswith(("accepted-but", "lua-does")): problems.append((f, v, msg))
        print("time %.1fs" % (time.time() - t0))
        for k in sorted(stats): print("  %-45s %d" % (k, stats[k]))
        for p in problems[:60]: print("   !", p[0].replace(root, ""), "|", p[1], "|", p[2][:200])
    in_thread(main)
