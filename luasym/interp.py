"""Lua 5.3 interpreter over the AST of luaparse, for concrete *and* symbolic values (vlib.sym).
Semantics follow the reference manual §3.3/§3.4/§2.4 (metamethods) and §6 for the library subset that
preamble.lua and emitted chunks use. Type tags are always concrete; payloads may be z3 terms; every branch on a
symbolic condition goes through Forker.branch (re-execution forking)."""
import math, re, sys
import z3
from vlib.sym import (SInt, SFloat, SBool, SStr, Forker, Cut, Infeasible, Undecided, is_int, is_float, is_num, is_str, is_sym,
                      iterm, fterm, bterm, mk_int, mk_bool, to_float, rope_eq, rope_term, norm_rope, fmt_float, F64, RNE, FFLOOR, I2F)


class LuaError(Exception):
    def __init__(self, msg, kind="error"):
        self.msg, self.kind = msg, kind
    def __str__(self): return "%s: %s" % (self.kind, self.msg)
class Unsupported(Exception): pass


class Table:
    __slots__ = ("d", "sym", "meta", "id")
    _n = 0
    def __init__(self):
        self.d = {}; self.sym = []; self.meta = None
        Table._n += 1; self.id = Table._n
class Func:
    """closure: `caps` are the visibility horizons of the captured chain (a local declared after the function
    was created is not in the function's scope, even in the same block)"""
    __slots__ = ("params", "body", "env", "name", "caps")
    def __init__(self, params, body, env, name="?"):
        self.params, self.body, self.env, self.name = params, body, env, name
        self.caps = [h for _, h in chain(env)]
class Builtin:
    __slots__ = ("f", "name")
    def __init__(self, f, name): self.f, self.name = f, name

class Break(Exception): pass
class Goto(Exception):
    def __init__(self, l): self.l = l
class Return(Exception):
    def __init__(self, vs): self.vs = vs

class Env:
    """one block activation. `idx[name]` = declaration index inside this block, `count` = locals declared so far.
    `cap` (only on the root Env of a function activation) = horizons of the captured chain."""
    __slots__ = ("vars", "up", "idx", "count", "cap")
    def __init__(self, up, cap=None): self.vars = {}; self.up = up; self.idx = {}; self.count = 0; self.cap = cap
    def declare(self, n, v):
        self.vars[n] = v; self.idx[n] = self.count; self.count += 1


def chain(env):
    """(Env, horizon) pairs visible from env, innermost first"""
    e = env; caps = None; k = 0
    while e is not None:
        if caps is None:
            yield e, e.count
            if e.cap is not None: caps = e.cap; k = 0
        else:
            yield e, caps[k]; k += 1
        e = e.up


def find_env(n, env):
    e = env; caps = None; k = 0
    while e is not None:
        if caps is None:
            if n in e.vars: return e
            if e.cap is not None: caps = e.cap; k = 0
        else:
            if n in e.vars and e.idx[n] < caps[k]: return e
            k += 1
        e = e.up
    return None


def tname(v):
    if v is None: return "nil"
    if isinstance(v, (bool, SBool)): return "boolean"
    if is_num(v): return "number"
    if is_str(v): return "string"
    if isinstance(v, Table): return "table"
    return "function"


def wrap64(v):
    return ((v + 2**63) % 2**64) - 2**63


def normkey(k):
    """Lua: float keys with integral value are converted to integers"""
    if isinstance(k, float) and k == math.floor(k) and not math.isinf(k): return int(k)
    return k


STR_LIMIT = 1 << 16          # bounds: a path that builds a longer string, or runs one loop longer, is cut (counted, excluded from the claim)
CONCRETE_LOOP_LIMIT = 20000


class Interp:
    def __init__(self, forker=None, max_steps=3_000_000, loop_bound=None, call_depth=None, on_event=None):
        self.fk = forker
        self.G = Table(); self.events = []; self.steps = 0; self.max_steps = max_steps
        self.loop_bound = loop_bound; self.call_depth = call_depth; self.depth = 0
        self.undeclared_reads = []; self.global_writes = {}
        self.order_dependent = False
        self.install()

    # ------------------------------------------------------------------ forking
    def truthy(self, v):
        if v is None or v is False: return False
        if isinstance(v, SBool): return self.fk.branch(v)
        return True
    def decide_bool(self, c):
        if isinstance(c, bool): return c
        return self.fk.branch(c)

    # ------------------------------------------------------------------ library
    def install(self):
        g = self.G.d
        B = lambda name: (lambda f: g.__setitem__(name, Builtin(f, name)) or f)
        def reg(tbl, name, f): tbl.d[name] = Builtin(f, name)
        def lua_assert(*a):
            if not a: raise LuaError("bad argument #1 to 'assert' (value expected)", "error")
            if not self.truthy(a[0]): raise LuaError(a[1] if len(a) > 1 else "assertion failed!", "assert")
            return list(a)
        g["assert"] = Builtin(lua_assert, "assert")
        def setmt(t, m=None):
            if not isinstance(t, Table): raise LuaError("bad argument #1 to 'setmetatable' (table expected)", "type")
            t.meta = m; return [t]
        g["setmetatable"] = Builtin(setmt, "setmetatable")
        g["getmetatable"] = Builtin(lambda t=None: [t.meta if isinstance(t, Table) else (self.strmeta if is_str(t) else None)], "getmetatable")
        g["type"] = Builtin(lambda *a: [tname(a[0])] if a else self._err("bad argument #1 to 'type' (value expected)"), "type")
        g["tostring"] = Builtin(lambda v=None: [self.tostring(v)], "tostring")
        g["print"] = Builtin(self.lua_print, "print")
        g["rawget"] = Builtin(lambda t, k: [self.rawget(t, k)], "rawget")
        g["rawset"] = Builtin(lambda t, k, v: (self.rawset(t, k, v), [t])[1], "rawset")
        g["rawequal"] = Builtin(lambda a, b: [self.raweq(a, b)], "rawequal")
        g["rawlen"] = Builtin(lambda t: [self.length(t, raw=True)], "rawlen")
        g["error"] = Builtin(self.lua_error, "error")
        g["tonumber"] = Builtin(self.tonumber, "tonumber")
        g["next"] = Builtin(self.lua_next, "next")
        def pairs(t=None):
            h = self.metaof(t, "__pairs")
            if h is not None: return (self.call(h, [t]) + [None, None, None])[:3]
            if not isinstance(t, Table): raise LuaError("bad argument #1 to 'for iterator' (table expected, got %s)" % tname(t), "type")
            keys = self.ordered_keys(t); pos = [0]
            def nx(*_):
                while pos[0] < len(keys):
                    k = keys[pos[0]]; pos[0] += 1
                    v = self.rawget(t, k)
                    if v is not None: return [k, v]
                return [None]
            return [Builtin(nx, "next"), t, None]
        g["pairs"] = Builtin(pairs, "pairs")
        def ipairs(t=None):
            def nx(_t, i):
                v = self.index(t, i + 1)
                return [None] if v is None else [i + 1, v]
            return [Builtin(nx, "ipairs_iter"), t, 0]
        g["ipairs"] = Builtin(ipairs, "ipairs")
        def select(n, *a):
            if n == "#": return [len(a)]
            if n < 0: n = len(a) + n + 1
            return list(a[n - 1:])
        g["select"] = Builtin(select, "select")
        def unpack(t, i=1, j=None):
            if j is None: j = self.length(t)
            if is_sym(i) or is_sym(j): raise Unsupported("unpack with symbolic bounds")
            return [self.index(t, x) for x in range(i, j + 1)]
        g["unpack"] = Builtin(unpack, "unpack")
        def pcall(f=None, *a):
            try: return [True] + self.call(f, list(a))
            except LuaError as e: return [False, e.msg]
        g["pcall"] = Builtin(pcall, "pcall")
        g["_VERSION"] = "Lua 5.3"
        mathT = Table(); strT = Table(); tabT = Table(); osT = Table(); ioT = Table()
        g["math"] = mathT; g["string"] = strT; g["table"] = tabT; g["os"] = osT; g["io"] = ioT
        g["_G"] = self.G
        self.strmeta = Table(); self.strmeta.d["__index"] = strT
        # ---- math
        def num_arg(x, fn, i=1):
            if not is_num(x):
                if isinstance(x, str):
                    c = self.str2num(x)
                    if c is not None: return c
                raise LuaError("bad argument #%d to '%s' (number expected, got %s)" % (i, fn, "no value" if x is None else tname(x)), "type")
            return x
        def m_floor(x=None):
            x = num_arg(x, "floor")
            if is_int(x): return [x]
            if isinstance(x, SFloat):
                if x.ratio is not None:
                    a_, b_ = x.ratio
                    if self.fk.branch(b_ == 0): raise Unsupported("math.floor of n/0")
                    return [mk_int(z3.If(b_ > 0, a_ / b_, (-a_) / (-b_)))]
                return [SInt(FFLOOR(x.t))]
            if math.isinf(x) or math.isnan(x): return [x]
            return [math.floor(x)]
        def m_ceil(x=None):
            x = num_arg(x, "ceil")
            if is_int(x): return [x]
            if isinstance(x, SFloat): raise Unsupported("math.ceil symbolic")
            return [math.ceil(x)]
        def m_abs(x=None):
            x = num_arg(x, "abs")
            if isinstance(x, SInt): return [mk_int(z3.If(x.t < 0, -x.t, x.t))]
            if isinstance(x, SFloat): return [SFloat(z3.fpAbs(x.t))]
            return [abs(x)]
        def fl1(name, f):
            def g_(x=None):
                x = num_arg(x, name)
                if is_sym(x): raise Unsupported("math.%s on a symbolic value" % name)
                try: return [f(float(x))]
                except (ValueError, OverflowError): return [math.nan]
            return g_
        def m_modf(x=None):
            x = num_arg(x, "modf")
            if is_sym(x):
                if isinstance(x, SInt): return [to_float(x), 0.0]
                raise Unsupported("math.modf on a symbolic float")
            if isinstance(x, int): return [float(x), 0.0]
            if math.isinf(x): return [x, 0.0]
            if math.isnan(x): return [x, x]
            ip = float(math.trunc(x)); return [ip, x - ip]
        def m_minmax(name, pick_lt):
            def f(*a):
                if not a: raise LuaError("bad argument #1 to '%s' (number expected, got no value)" % name, "type")
                best = num_arg(a[0], name)
                for i, x in enumerate(a[1:]):
                    x = num_arg(x, name, i + 2)
                    c = self.lt(x, best) if pick_lt else self.lt(best, x)
                    if self.decide_bool(c): best = x
                return [best]
            return f
        def m_random(*a):
            self.events.append(("nondeterministic", "math.random"))
            if not a: return [0.5]
            lo, hi = (1, a[0]) if len(a) == 1 else (a[0], a[1])
            return [lo]
        def m_tointeger(x=None):
            if is_int(x): return [x]
            if isinstance(x, float) and x == math.floor(x) and not math.isinf(x): return [int(x)]
            return [None]
        def m_type(x=None):
            if is_int(x): return ["integer"]
            if is_float(x): return ["float"]
            return [None]
        def m_pow(a, b):
            return [self.arith("^", a, b)]
        for n, f in [("floor", m_floor), ("ceil", m_ceil), ("abs", m_abs), ("sqrt", fl1("sqrt", lambda x: math.sqrt(x) if x >= 0 else math.nan)),
                     ("sin", fl1("sin", math.sin)), ("cos", fl1("cos", math.cos)), ("tan", fl1("tan", math.tan)), ("exp", fl1("exp", math.exp)),
                     ("log", fl1("log", lambda x: math.log(x) if x > 0 else (-math.inf if x == 0 else math.nan))),
                     ("modf", m_modf), ("max", m_minmax("max", False)), ("min", m_minmax("min", True)), ("random", m_random),
                     ("randomseed", lambda *a: []), ("tointeger", m_tointeger), ("type", m_type), ("pow", m_pow),
                     ("atan2", lambda y, x: [math.atan2(float(y), float(x))] if not (is_sym(x) or is_sym(y)) else self._unsup("atan2")),
                     ("atan", lambda y, x=1.0: [math.atan2(float(y), float(x))] if not (is_sym(x) or is_sym(y)) else self._unsup("atan")),
                     ("fmod", lambda a, b: [math.fmod(a, b)] if not (is_sym(a) or is_sym(b)) else self._unsup("fmod"))]:
            reg(mathT, n, f)
        mathT.d["pi"] = math.pi; mathT.d["huge"] = math.inf; mathT.d["maxinteger"] = 2**63 - 1; mathT.d["mininteger"] = -2**63
        # ---- string
        def s_arg(s, fn):
            if is_num(s): return self.tostring(s)
            if not is_str(s): raise LuaError("bad argument #1 to '%s' (string expected, got %s)" % (fn, "no value" if s is None else tname(s)), "type")
            return s
        def s_len(s=None):
            s = s_arg(s, "len")
            return [len(s.encode("utf-8", "surrogateescape"))] if isinstance(s, str) else [SInt(z3.Length(rope_term(s)))]
        def s_byte(s=None, i=1, j=None):
            s = s_arg(s, "byte")
            if is_sym(s) or is_sym(i): raise Unsupported("string.byte on a symbolic string")
            b = s.encode("utf-8", "surrogateescape")
            if j is None: j = i
            if i < 0: i = len(b) + i + 1
            if j < 0: j = len(b) + j + 1
            return [b[x - 1] for x in range(max(i, 1), min(j, len(b)) + 1)] or []
        def s_sub(s=None, i=1, j=-1):
            s = s_arg(s, "sub")
            if is_sym(s) or is_sym(i) or is_sym(j): raise Unsupported("string.sub on symbolic values")
            b = s.encode("utf-8", "surrogateescape"); n = len(b)
            if i < 0: i = max(n + i + 1, 1)
            elif i == 0: i = 1
            if j < 0: j = n + j + 1
            elif j > n: j = n
            return [b[i - 1:j].decode("utf-8", "surrogateescape") if i <= j else ""]
        def s_gmatch(s, pat):
            s = s_arg(s, "gmatch")
            if is_sym(s): raise Unsupported("string.gmatch on a symbolic string")
            if pat != "([^%s]+)": raise Unsupported("string.gmatch pattern " + repr(pat))
            parts = re.findall(r"[^ \t\n\r\f\v]+", s); it = iter(parts)
            def nx(*_):
                for p in it: return [p]
                return [None]
            return [Builtin(nx, "gmatch_iter")]
        def s_rep(s, n, sep=""):
            if is_sym(s) or is_sym(n): raise Unsupported("string.rep symbolic")
            return [sep.join([s] * max(n, 0))]
        def s_format(f, *a):
            if is_sym(f) or any(is_sym(x) for x in a): raise Unsupported("string.format symbolic")
            f2 = re.sub(r"%([-+ #0]*\d*(?:\.\d+)?)([a-zA-Z])", lambda m: "%" + m.group(1) + {"i": "d", "q": "s"}.get(m.group(2), m.group(2)), f)
            try: return [f2 % tuple(a)]
            except (TypeError, ValueError): raise LuaError("bad argument to 'format'", "type")
        def s_char(*a): return ["".join(chr(x) for x in a)]
        for n, f in [("len", s_len), ("byte", s_byte), ("sub", s_sub), ("gmatch", s_gmatch), ("rep", s_rep), ("format", s_format), ("char", s_char),
                     ("upper", lambda s: [s.upper()] if isinstance(s, str) else self._unsup("upper")), ("lower", lambda s: [s.lower()] if isinstance(s, str) else self._unsup("lower")),
                     ("reverse", lambda s: [s[::-1]] if isinstance(s, str) else self._unsup("reverse"))]:
            reg(strT, n, f)
        # ---- table
        def t_insert(*a):
            if len(a) < 2: raise LuaError("wrong number of arguments to 'insert'", "error")
            t = a[0]
            if not isinstance(t, Table): raise LuaError("bad argument #1 to 'insert' (table expected, got %s)" % tname(t), "type")
            n = self.length(t)
            if len(a) == 2: self.setindex(t, self.arith("+", n, 1), a[1]); return []
            if len(a) != 3: raise LuaError("wrong number of arguments to 'insert'", "error")
            pos, v = a[1], a[2]
            if is_sym(pos) or is_sym(n): raise Unsupported("table.insert at a symbolic position")
            if not is_int(pos): raise LuaError("bad argument #2 to 'insert' (number expected, got %s)" % tname(pos), "type")
            if pos < 1 or pos > n + 1: raise LuaError("bad argument #2 to 'insert' (position out of bounds)", "error")
            for i in range(n, pos - 1, -1): self.setindex(t, i + 1, self.index(t, i))
            self.setindex(t, pos, v); return []
        def t_remove(t, pos=None):
            n = self.length(t)
            if is_sym(n) or is_sym(pos): raise Unsupported("table.remove symbolic")
            if pos is None:
                if n == 0: return [None]
                pos = n
            if n + 1 == pos: v = self.index(t, pos); self.setindex(t, pos, None); return [v]
            if n == 0 and pos in (0, n): return [self.index(t, pos)]
            if pos < 1 or pos > n + 1: raise LuaError("bad argument #1 to 'remove' (position out of bounds)", "error")
            v = self.index(t, pos)
            for i in range(pos, n): self.setindex(t, i, self.index(t, i + 1))
            self.setindex(t, n, None); return [v]
        def t_concat(t, sep="", i=1, j=None):
            if j is None: j = self.length(t)
            out = []
            for x in range(i, j + 1):
                v = self.index(t, x)
                if not (is_str(v) or is_num(v)): raise LuaError("invalid value (at index %d) in table for 'concat'" % x, "type")
                if out: out.append(sep)
                out.append(v)
            r = ""
            for p in out: r = self.concat(r, p)
            return [r]
        for n, f in [("insert", t_insert), ("remove", t_remove), ("unpack", unpack), ("concat", t_concat)]: reg(tabT, n, f)
        osT.d["time"] = Builtin(lambda *a: (self.events.append(("nondeterministic", "os.time")), [0])[1], "time")
        osT.d["clock"] = Builtin(lambda *a: (self.events.append(("nondeterministic", "os.clock")), [0.0])[1], "clock")
        def require(name):
            self.events.append(("require", name)); return [True]
        g["require"] = Builtin(require, "require")

    def _err(self, m): raise LuaError(m, "error")
    def _unsup(self, m): raise Unsupported(m)

    def lua_print(self, *a):
        parts = []
        for i, x in enumerate(a):
            if i: parts.append("\t")
            s = self.tostring(x)
            if not is_str(s): raise LuaError("'tostring' must return a string to 'print'", "type")
            parts.extend([s] if isinstance(s, str) else s.parts)
        parts = norm_rope(parts)
        text = "".join(parts) if all(isinstance(p, str) for p in parts) else SStr(parts)
        self.events.append(("print", self.snapshot(a[0]) if len(a) == 1 else ("multi", [self.snapshot(x) for x in a]), text))
        return []
    def snapshot(self, v, depth=0):
        """abstraction from Lua runtime values to Sylt values (by the runtime's own `_type` tags)"""
        if depth > 8: return ("deep",)
        if v is None: return ("luanil",)
        if isinstance(v, (bool, SBool)): return ("bool", v)
        if is_int(v): return ("int", v)
        if is_float(v): return ("float", v)
        if is_str(v): return ("str", v)
        if isinstance(v, Table):
            if v is self.G.d.get("__NIL"): return ("nil",)
            ty = v.meta.d.get("_type") if v.meta is not None else None
            if ty in ("tuple", "list"):
                n = self.length(v, raw=True)
                return (ty, [self.snapshot(self.rawget(v, i), depth + 1) for i in range(1, n + 1)])
            if ty == "blob":
                return ("blob", {k: self.snapshot(x, depth + 1) for k, x in v.d.items() if isinstance(k, str) and not isinstance(x, (Func, Builtin))})
            if ty == "variant":
                return ("variant", self.rawget(v, 1), self.snapshot(self.rawget(v, 2), depth + 1))
            if ty in ("dict", "set"):
                # order-independent abstraction: a set is the collection of its stored elements, a dict the collection of its stored (key, value) tuples
                return (ty, sorted(repr(self.snapshot(x, depth + 1)) for k, x in v.d.items()))
            return ("table", v.id)
        return ("fn",)
    def lua_error(self, msg=None, *_):
        raise LuaError(msg, "error")
    def tonumber(self, v=None, base=None):
        if is_num(v): return [v]
        if isinstance(v, str):
            return [self.str2num(v)]
        if isinstance(v, SStr): raise Unsupported("tonumber of a symbolic string")
        return [None]
    @staticmethod
    def str2num(s):
        t = s.strip(" \t\n\r\f\v")
        try:
            if re.fullmatch(r"[-+]?\d+", t):
                v = int(t); return v if -2**63 <= v < 2**63 else float(v)
            if re.fullmatch(r"[-+]?0[xX][0-9a-fA-F]+", t): return wrap64(int(t, 16))
            if re.fullmatch(r"[-+]?(\d+\.?\d*|\.\d+)([eE][-+]?\d+)?", t): return float(t)
            if re.fullmatch(r"[-+]?0[xX][0-9a-fA-F]*\.?[0-9a-fA-F]*([pP][-+]?\d+)?", t): return float.fromhex(t)
        except ValueError: pass
        return None
    def lua_next(self, t, k=None):
        keys = self.ordered_keys(t)
        if k is None: idx = 0
        else:
            idx = None
            for i, kk in enumerate(keys):
                if kk is k or (not isinstance(kk, (Table, Func, Builtin)) and not is_sym(kk) and not is_sym(k) and type(kk) == type(k) and kk == k): idx = i + 1; break
            if idx is None: raise LuaError("invalid key to 'next'", "error")
        while idx < len(keys):
            v = self.rawget(t, keys[idx])
            if v is not None: return [keys[idx], v]
            idx += 1
        return [None]

    # ------------------------------------------------------------------ tables
    def ordered_keys(self, t):
        """array part ascending, then the other keys in insertion order (the manual leaves the order unspecified;
        callers that let it influence the trace are flagged order_dependent)"""
        n = 0
        while (n + 1) in t.d: n += 1
        rest = [k for k in t.d if not (isinstance(k, int) and not isinstance(k, bool) and 1 <= k <= n)]
        if len(rest) + len(t.sym) > 1: self.order_dependent = True
        return list(range(1, n + 1)) + rest + [e[0] for e in t.sym]
    def _hashable(self, k):
        return k if not isinstance(k, float) else normkey(k)
    def rawget(self, t, k):
        if k is None: return None
        if not is_sym(k):
            k = self._hashable(k)
            if isinstance(k, float) and k != k: return None
            v = t.d.get(k) if not (isinstance(k, bool)) else t.d.get(("bool", k))
            if v is not None: return v
            if not t.sym: return None
            # symbolic entries of the same tag
            cands = [(i, e) for i, e in enumerate(t.sym) if self._same_tag(e[0], k)]
            if not cands: return None
            opts = [(i, self._key_eq_term(e[0], k)) for i, e in cands]
            opts.append(("none", z3.And([z3.Not(c) for _, c in opts])))
            ch = self.fk.decide(opts)
            return None if ch == "none" else t.sym[ch][1]
        # symbolic key
        opts = []
        for ck in t.d:
            if isinstance(ck, tuple): continue
            if self._same_tag(k, ck): opts.append((("c", ck), self._key_eq_term(k, ck)))
        for i, e in enumerate(t.sym):
            if e[0] is k: return e[1]
            if self._same_tag(e[0], k): opts.append((("s", i), self._key_eq_term(e[0], k)))
        if not opts: return None
        opts = [(l, c) for l, c in opts if c is not False]
        for l, c in opts:
            if c is True: return t.d[l[1]] if l[0] == "c" else t.sym[l[1]][1]
        opts.append(("none", z3.And([z3.Not(c) for _, c in opts]) if opts else True))
        ch = self.fk.decide(opts)
        if ch == "none": return None
        return t.d[ch[1]] if ch[0] == "c" else t.sym[ch[1]][1]
    @staticmethod
    def _same_tag(a, b):
        return (is_int(a) and is_int(b)) or (is_str(a) and is_str(b)) or (is_float(a) and is_float(b)) or (isinstance(a, (bool, SBool)) and isinstance(b, (bool, SBool)))
    def _key_eq_term(self, a, b):
        if is_int(a): r = iterm(a) == iterm(b)
        elif is_str(a): r = rope_eq(a, b)
        elif is_float(a): r = z3.fpEQ(fterm(a), fterm(b))
        else: r = bterm(a) == bterm(b)
        if isinstance(r, bool): return r
        r = z3.simplify(r)
        if z3.is_true(r): return True
        if z3.is_false(r): return False
        return r
    def rawset(self, t, k, v):
        if k is None: raise LuaError("table index is nil", "type")
        if isinstance(k, float) and k != k: raise LuaError("table index is NaN", "type")
        if not is_sym(k):
            k = self._hashable(k)
            hk = ("bool", k) if isinstance(k, bool) else k
            if hk in t.d or not any(self._same_tag(e[0], k) for e in t.sym):
                if v is None: t.d.pop(hk, None)
                else: t.d[hk] = v
                return
            opts = [(i, self._key_eq_term(e[0], k)) for i, e in enumerate(t.sym) if self._same_tag(e[0], k)]
            opts.append(("none", z3.And([z3.Not(c) for _, c in opts])))
            ch = self.fk.decide(opts)
            if ch == "none":
                if v is not None: t.d[hk] = v
            elif v is None: del t.sym[ch]
            else: t.sym[ch][1] = v
            return
        opts = []
        for ck in list(t.d):
            if isinstance(ck, tuple): continue
            if self._same_tag(k, ck): opts.append((("c", ck), self._key_eq_term(k, ck)))
        for i, e in enumerate(t.sym):
            if e[0] is k: opts = [(("s", i), True)]; break
            if self._same_tag(e[0], k): opts.append((("s", i), self._key_eq_term(e[0], k)))
        opts = [(l, c) for l, c in opts if c is not False]
        hit = [l for l, c in opts if c is True]
        if hit: ch = hit[0]
        elif opts:
            opts.append(("none", z3.And([z3.Not(c) for _, c in opts])))
            ch = self.fk.decide(opts)
        else: ch = "none"
        if ch == "none":
            if v is not None:
                if isinstance(k, SInt): t.d[self.fk.concretize(k.t)] = v       # a fresh integer key is made concrete (forking)
                else: t.sym.append([k, v])
        elif ch[0] == "c":
            if v is None: del t.d[ch[1]]
            else: t.d[ch[1]] = v
        else:
            if v is None: del t.sym[ch[1]]
            else: t.sym[ch[1]][1] = v
    def length(self, t, raw=False):
        if isinstance(t, str): return len(t.encode("utf-8", "surrogateescape"))
        if isinstance(t, SStr): return SInt(z3.Length(rope_term(t)))
        if not isinstance(t, Table): raise LuaError("attempt to get length of a %s value" % tname(t), "type")
        if not raw:
            h = self.metaof(t, "__len")
            if h is not None: return self.call(h, [t])[0]
        if any(is_int(e[0]) for e in t.sym): raise Unsupported("length of a table with symbolic integer keys")
        n = 0
        while (n + 1) in t.d: n += 1
        return n
    def metaof(self, v, ev):
        if isinstance(v, Table):
            if v.meta is None: return None
            return v.meta.d.get(ev)
        if is_str(v): return self.strmeta.d.get(ev)
        return None
    def index(self, o, k):
        for _ in range(100):
            if isinstance(o, Table):
                v = self.rawget(o, k)
                if v is not None: return v
                h = self.metaof(o, "__index")
                if h is None: return None
            else:
                h = self.metaof(o, "__index")
                if h is None: raise LuaError("attempt to index a %s value" % tname(o), "type")
            if isinstance(h, (Func, Builtin)): return self.first(self.call(h, [o, k]))
            o = h
        raise LuaError("'__index' chain too long; possible loop", "error")
    def setindex(self, o, k, v):
        for _ in range(100):
            if isinstance(o, Table):
                h = self.metaof(o, "__newindex")
                if h is None or self.rawget(o, k) is not None:
                    self.rawset(o, k, v); return
            else:
                h = self.metaof(o, "__newindex")
                if h is None: raise LuaError("attempt to index a %s value" % tname(o), "type")
            if isinstance(h, (Func, Builtin)): self.call(h, [o, k, v]); return
            o = h
        raise LuaError("'__newindex' chain too long; possible loop", "error")
    @staticmethod
    def first(rs): return rs[0] if rs else None

    # ------------------------------------------------------------------ conversions
    def tostring(self, v):
        h = self.metaof(v, "__tostring") if isinstance(v, Table) else None
        if h is not None:
            r = self.first(self.call(h, [v]))
            if not is_str(r): raise LuaError("'__tostring' must return a string", "type")
            return r
        if v is None: return "nil"
        if v is True: return "true"
        if v is False: return "false"
        if isinstance(v, SBool): return "true" if self.fk.branch(v) else "false"
        if isinstance(v, float): return fmt_float(v)
        if isinstance(v, int): return str(v)
        if isinstance(v, SInt): return SStr([("i", v.t)])
        if isinstance(v, SFloat): return SStr([("f", v.t)])
        if is_str(v): return v
        if isinstance(v, Table): return "table: 0x%08x" % v.id
        if isinstance(v, Builtin): return "builtin: " + v.name
        return "function: 0x%08x" % (id(v) & 0xffffffff)

    # ------------------------------------------------------------------ operators
    def arith(self, op, a, b):
        a0, b0 = a, b
        if isinstance(a, str):
            c = self.str2num(a)
            if c is not None: a = c
        if isinstance(b, str):
            c = self.str2num(b)
            if c is not None: b = c
        if is_num(a) and is_num(b):
            if not (is_sym(a) or is_sym(b)): return self.arith_concrete(op, a, b)
            return self.arith_sym(op, a, b)
        ev = {"+": "__add", "-": "__sub", "*": "__mul", "/": "__div", "%": "__mod", "^": "__pow", "//": "__idiv",
              "&": "__band", "|": "__bor", "~": "__bxor", "<<": "__shl", ">>": "__shr"}[op]
        h = self.metaof(a0, ev)
        if h is None: h = self.metaof(b0, ev)
        if h is None:
            bad = b0 if is_num(a) else a0
            raise LuaError("attempt to perform arithmetic on a %s value" % tname(bad), "type")
        return self.first(self.call(h, [a0, b0]))
    def arith_concrete(self, op, a, b):
        ints = isinstance(a, int) and isinstance(b, int)
        try:
            if op == "+": return wrap64(a + b) if ints else float(a) + float(b)
            if op == "-": return wrap64(a - b) if ints else float(a) - float(b)
            if op == "*": return wrap64(a * b) if ints else float(a) * float(b)
            if op == "/":
                a, b = float(a), float(b)
                if b == 0: return math.nan if (a == 0 or a != a) else math.copysign(math.inf, a) * math.copysign(1, b)
                return a / b
            if op == "//":
                if ints:
                    if b == 0: raise LuaError("attempt to perform 'n//0'", "error")
                    return wrap64(a // b)
                a, b = float(a), float(b)
                if b == 0: return math.nan if (a == 0 or a != a) else math.copysign(math.inf, a) * math.copysign(1, b)
                return float(math.floor(a / b))
            if op == "%":
                if ints:
                    if b == 0: raise LuaError("attempt to perform 'n%%0'", "error")
                    return a % b
                a, b = float(a), float(b)
                if b == 0 or math.isinf(a) or a != a or b != b: return math.nan
                if math.isinf(b): return a if (a >= 0) == (b > 0) else b
                r = math.fmod(a, b)
                if r != 0 and (r < 0) != (b < 0): r += b
                return r
            if op == "^":
                a, b = float(a), float(b)
                try: return math.pow(a, b)
                except OverflowError: return math.inf
                except ValueError: return math.nan
            if op in ("&", "|", "~", "<<", ">>"):
                def toint(x):
                    if isinstance(x, int): return x
                    if x == math.floor(x) and not math.isinf(x): return int(x)
                    raise LuaError("number has no integer representation", "error")
                x, y = toint(a) % 2**64, toint(b)
                if op == "&": r = x & (y % 2**64)
                elif op == "|": r = x | (y % 2**64)
                elif op == "~": r = x ^ (y % 2**64)
                else:
                    if op == ">>": y = -y
                    r = 0 if abs(y) >= 64 else ((x << y) if y >= 0 else (x >> -y))
                return wrap64(r % 2**64)
        except OverflowError:
            return math.inf
        raise LuaError("bad arithmetic operator " + op)
    def arith_sym(self, op, a, b):
        if is_int(a) and is_int(b) and op in ("+", "-", "*", "//", "%"):
            x, y = iterm(a), iterm(b)
            if op == "+": return mk_int(x + y)
            if op == "-": return mk_int(x - y)
            if op == "*": return mk_int(x * y)
            if self.fk.branch(y == 0): raise LuaError("attempt to perform 'n%s0'" % ("//" if op == "//" else "%%"), "error")
            fd = z3.If(y > 0, x / y, (-x) / (-y))
            if op == "//": return mk_int(fd)
            return mk_int(x - fd * y)
        if op == "/" and is_int(a) and is_int(b):
            # quotient of two bounded integers: remembered exactly, so that math.floor(a / b) is integer floor division
            return SFloat(z3.fpDiv(RNE, fterm(to_float(a)), fterm(to_float(b))), ratio=(iterm(a), iterm(b)))
        x, y = fterm(to_float(a)), fterm(to_float(b))
        if op == "+": return SFloat(z3.fpAdd(RNE, x, y))
        if op == "-": return SFloat(z3.fpSub(RNE, x, y))
        if op == "*": return SFloat(z3.fpMul(RNE, x, y))
        if op == "/": return SFloat(z3.fpDiv(RNE, x, y))
        raise Unsupported("symbolic float operator " + op)
    def unm(self, v):
        if isinstance(v, str):
            c = self.str2num(v)
            if c is not None: v = c
        if isinstance(v, bool): pass
        elif isinstance(v, int): return wrap64(-v)
        elif isinstance(v, float): return -v
        elif isinstance(v, SInt): return mk_int(-v.t)
        elif isinstance(v, SFloat): return SFloat(z3.fpNeg(v.t))
        h = self.metaof(v, "__unm")
        if h is None: raise LuaError("attempt to perform arithmetic on a %s value" % tname(v), "type")
        return self.first(self.call(h, [v, v]))
    def raweq(self, a, b):
        """python bool or SBool"""
        if a is b and not isinstance(a, (float, SFloat)): return True
        if a is None or b is None: return False
        if isinstance(a, (bool, SBool)) or isinstance(b, (bool, SBool)):
            if not (isinstance(a, (bool, SBool)) and isinstance(b, (bool, SBool))): return False
            if isinstance(a, bool) and isinstance(b, bool): return a == b
            return mk_bool(bterm(a) == bterm(b))
        if is_num(a) and is_num(b):
            if not (is_sym(a) or is_sym(b)): return a == b
            if is_int(a) and is_int(b): return mk_bool(iterm(a) == iterm(b))
            return mk_bool(z3.fpEQ(fterm(to_float(a)), fterm(to_float(b))))
        if is_str(a) and is_str(b):
            r = rope_eq(a, b)
            return r if isinstance(r, bool) else mk_bool(r)
        return False
    def eq(self, a, b):
        if isinstance(a, Table) and isinstance(b, Table):
            if a is b: return True
            h = self.metaof(a, "__eq")
            if h is None: h = self.metaof(b, "__eq")        # Lua 5.3: first operand's handler, else the second's
            if h is None: return False
            return self.truthy(self.first(self.call(h, [a, b])))
        return self.raweq(a, b)
    def lt(self, a, b, ev="__lt"):
        if is_num(a) and is_num(b):
            if not (is_sym(a) or is_sym(b)): return (a < b) if ev == "__lt" else (a <= b)
            if is_int(a) and is_int(b): return mk_bool(iterm(a) < iterm(b) if ev == "__lt" else iterm(a) <= iterm(b))
            x, y = fterm(to_float(a)), fterm(to_float(b))
            return mk_bool(z3.fpLT(x, y) if ev == "__lt" else z3.fpLEQ(x, y))
        if is_str(a) and is_str(b):
            if isinstance(a, str) and isinstance(b, str):
                ab, bb = a.encode("utf-8", "surrogateescape"), b.encode("utf-8", "surrogateescape")
                return (ab < bb) if ev == "__lt" else (ab <= bb)
            x, y = rope_term(a), rope_term(b)
            return mk_bool(x < y if ev == "__lt" else x <= y)
        h = self.metaof(a, ev)
        if h is None: h = self.metaof(b, ev)
        if h is not None: return self.truthy(self.first(self.call(h, [a, b])))
        if ev == "__le":
            h = self.metaof(a, "__lt")
            if h is None: h = self.metaof(b, "__lt")
            if h is not None: return not self.truthy(self.first(self.call(h, [b, a])))
        if tname(a) == tname(b): raise LuaError("attempt to compare two %s values" % tname(a), "type")
        raise LuaError("attempt to compare %s with %s" % (tname(a), tname(b)), "type")
    def concat(self, a, b):
        ok = lambda x: is_str(x) or is_num(x)
        if ok(a) and ok(b):
            sa, sb = self.tostring(a), self.tostring(b)
            if isinstance(sa, str) and isinstance(sb, str):
                if self.fk is not None and len(sa) + len(sb) > STR_LIMIT: raise Cut("string longer than %d characters" % STR_LIMIT)
                return sa + sb
            r = SStr(([sa] if isinstance(sa, str) else sa.parts) + ([sb] if isinstance(sb, str) else sb.parts))
            if len(r.parts) > 4096: raise Cut("string of more than 4096 pieces")
            return r
        h = self.metaof(a, "__concat")
        if h is None: h = self.metaof(b, "__concat")
        if h is None: raise LuaError("attempt to concatenate a %s value" % tname(a if not ok(a) else b), "type")
        return self.first(self.call(h, [a, b]))

    # ------------------------------------------------------------------ calls
    def call(self, f, args):
        if isinstance(f, Func):
            self.depth += 1
            if self.call_depth is not None and self.depth > self.call_depth:
                self.depth -= 1; raise Cut("call depth %d" % self.call_depth)
            if self.depth > 190:
                self.depth -= 1; raise LuaError("stack overflow", "resource")
            try:
                env = Env(f.env, f.caps)
                ps = f.params; n = len(args)
                for i, p in enumerate(ps):
                    if p == "...": env.declare("...", args[i:]); break
                    env.declare(p, args[i] if i < n else None)
                try: self.exec_block(f.body, env)
                except Return as r: return r.vs
                return []
            finally:
                self.depth -= 1
        if isinstance(f, Builtin):
            try: r = f.f(*args)
            except TypeError as e:
                if "positional argument" in str(e) or "required" in str(e): raise LuaError("bad argument to '%s' (%s)" % (f.name, e), "type")
                raise
            return r if r is not None else []
        h = self.metaof(f, "__call")
        if h is not None: return self.call(h, [f] + list(args))
        raise LuaError("attempt to call a %s value" % tname(f), "type")

    # ------------------------------------------------------------------ evaluation
    def lookup(self, n, env):
        e = find_env(n, env)
        if e is not None: return e.vars[n]
        v = self.G.d.get(n)
        if v is None and n[0] == "V" and n[1:].isdigit(): self.undeclared_reads.append(n)
        return v
    def ev(self, e, env):
        k = e[0]
        if k == "const": return e[1]
        if k == "name": return self.lookup(e[1], env)
        if k == "paren": return self.ev(e[1], env)
        if k == "index": return self.index(self.ev(e[1], env), self.ev(e[2], env))
        if k == "call": return self.first(self.evcall(e, env))
        if k == "function": return Func(e[1], e[2], env)
        if k == "vararg":
            va = self.lookup("...", env); return va[0] if va else None
        if k == "table":
            t = Table(); pos = 0; items = e[1]
            for i, it in enumerate(items):
                if it[0] == "pos":
                    x = it[1]
                    if i == len(items) - 1 and x[0] in ("call", "vararg"):
                        for v in self.evmulti(x, env):
                            pos += 1
                            if v is not None: t.d[pos] = v
                    else:
                        v = self.ev(x, env); pos += 1
                        if v is not None: t.d[pos] = v
                else:
                    kk = self.ev(it[1], env); v = self.ev(it[2], env)
                    self.rawset(t, kk, v)
            return t
        if k == "un":
            v = self.ev(e[2], env); op = e[1]
            if op == "not":
                if isinstance(v, SBool): return mk_bool(z3.Not(v.t))
                return v is None or v is False
            if op == "#": return self.length(v)
            if op == "-": return self.unm(v)
            if op == "~":
                if isinstance(v, int) and not isinstance(v, bool): return wrap64(~v)
                h = self.metaof(v, "__bnot")
                if h is None: raise LuaError("attempt to perform bitwise operation on a %s value" % tname(v), "type")
                return self.first(self.call(h, [v, v]))
        if k == "bin":
            op = e[1]
            if op == "and":
                a = self.ev(e[2], env); return self.ev(e[3], env) if self.truthy(a) else a
            if op == "or":
                a = self.ev(e[2], env); return a if self.truthy(a) else self.ev(e[3], env)
            a = self.ev(e[2], env); b = self.ev(e[3], env)
            if op == "==": return self.eq(a, b)
            if op == "~=":
                r = self.eq(a, b)
                return (not r) if isinstance(r, bool) else mk_bool(z3.Not(r.t))
            if op == "<": return self.lt(a, b)
            if op == "<=": return self.lt(a, b, "__le")
            if op == ">": return self.lt(b, a)
            if op == ">=": return self.lt(b, a, "__le")
            if op == "..": return self.concat(a, b)
            return self.arith(op, a, b)
        raise LuaError("bad expr " + k)
    def evmulti(self, e, env):
        if e[0] == "call": return self.evcall(e, env)
        if e[0] == "vararg": return list(self.lookup("...", env) or [])
        return [self.ev(e, env)]
    def evlist(self, es, env):
        out = []; n = len(es)
        for i, e in enumerate(es):
            if i == n - 1: out.extend(self.evmulti(e, env))
            else: out.append(self.ev(e, env))
        return out
    def evcall(self, e, env):
        self.steps += 1
        if self.steps > self.max_steps: raise Cut("step budget")
        f = e[1]
        if f[0] == "method":
            o = self.ev(f[1], env); fn = self.index(o, f[2]); args = [o] + self.evlist(e[2], env)
        else:
            fn = self.ev(f, env); args = self.evlist(e[2], env)
        if not isinstance(fn, (Func, Builtin)) and self.metaof(fn, "__call") is None:
            what = ""
            if f[0] == "name": what = " (%s '%s')" % ("global" if self._is_global(f[1], env) else "local", f[1])
            elif f[0] == "index" and f[2][0] == "const": what = " (field '%s')" % (f[2][1],)
            elif f[0] == "method": what = " (method '%s')" % f[2]
            raise LuaError("attempt to call a %s value%s" % (tname(fn), what), "type")
        return self.call(fn, args)
    def _is_global(self, n, env):
        return find_env(n, env) is None
    def assign(self, t, v, env):
        if t[0] == "name":
            n = t[1]; e = find_env(n, env)
            if e is not None: e.vars[n] = v; return
            if n[0] == "V" and n[1:].isdigit(): self.global_writes[n] = self.global_writes.get(n, 0) + 1
            if v is None: self.G.d.pop(n, None)
            else: self.G.d[n] = v
        else: self.setindex(t[1], t[2], v)
    def exec_block(self, body, up):
        env = Env(up); i = 0; n = len(body)
        while i < n:
            try:
                st = body[i]
                # re-declaration of a name in the same block is a new variable: open a new scope segment
                if (st[0] == "local" and any(nm in env.vars for nm in st[1])) or (st[0] == "localfn" and st[1] in env.vars):
                    env = Env(env)
                self.exec_stmt(st, env); i += 1
            except Goto as g:
                idx = None
                for j, s in enumerate(body):
                    if s[0] == "label" and s[1] == g.l: idx = j; break
                if idx is None: raise
                # jumping backwards over local declarations ends their scope: fresh variables afterwards
                if idx <= i:
                    keep = set()
                    for s in body[:idx]:
                        if s[0] == "local": keep.update(s[1])
                        elif s[0] == "localfn": keep.add(s[1])
                    env2 = Env(up)
                    for kname in keep:
                        if kname in env.vars: env2.declare(kname, env.vars[kname])
                    # closures that captured `env` keep it; statements after the label see fresh locals
                    if len(keep) == len(env.vars): env2 = env
                    env = env2
                i = idx
    def exec_stmt(self, s, env):
        k = s[0]
        self.steps += 1
        if self.steps > self.max_steps: raise Cut("step budget")
        if k == "local":
            es = s[2]; names = s[1]
            if len(es) == 1 and len(names) == 1 and es[0][0] not in ("call", "vararg"):
                env.declare(names[0], self.ev(es[0], env)); return
            vs = self.evlist(es, env)
            for i, n in enumerate(names): env.declare(n, vs[i] if i < len(vs) else None)
        elif k == "callstmt": self.evcall(s[1], env)
        elif k == "assign":
            ts, es = s[1], s[2]
            if len(ts) == 1 and len(es) == 1:
                t = ts[0]
                if t[0] == "name":
                    self.assign(t, self.ev(es[0], env), env)
                else:
                    o = self.ev(t[1], env); kk = self.ev(t[2], env)
                    self.setindex(o, kk, self.ev(es[0], env))
                return
            # multiple assignment: all expressions are evaluated before any assignment
            pre = []
            for t in ts:
                pre.append(t if t[0] == "name" else ("index", self.ev(t[1], env), self.ev(t[2], env)))
            vs = self.evlist(es, env)
            for i, t in enumerate(pre): self.assign(t, vs[i] if i < len(vs) else None, env)
        elif k == "if":
            for c, b in s[1]:
                if self.truthy(self.ev(c, env)): self.exec_block(b, env); return
            if s[2] is not None: self.exec_block(s[2], env)
        elif k == "while":
            it = 0; d0 = len(self.fk.decisions) if self.fk else 0
            while self.truthy(self.ev(s[1], env)):
                it += 1; self._loopcheck(it, d0)
                try: self.exec_block(s[2], env)
                except Break: break
        elif k == "return": raise Return(self.evlist(s[1], env))
        elif k == "do": self.exec_block(s[1], env)
        elif k == "localfn":
            env.declare(s[1], None); env.vars[s[1]] = Func(s[2][1], s[2][2], env, s[1])
        elif k == "break": raise Break()
        elif k == "goto": raise Goto(s[1])
        elif k == "label": pass
        elif k == "repeat":
            it = 0; d0 = len(self.fk.decisions) if self.fk else 0
            while True:
                it += 1; self._loopcheck(it, d0)
                # the condition can see the body's locals: run body and condition in one scope
                e2 = Env(env)
                try:
                    self.exec_block_in(s[1], e2)
                except Break: break
                if self.truthy(self.ev(s[2], e2)): break
        elif k == "fornum":
            a = self.ev(s[2], env); b = self.ev(s[3], env); c = self.ev(s[4], env) if s[4] else 1
            for x, w in ((a, "initial"), (b, "limit"), (c, "step")):
                if isinstance(x, str) and self.str2num(x) is not None: continue
                if not is_num(x): raise LuaError("'for' %s value must be a number" % w, "type")
            if is_sym(c): raise Unsupported("numeric for with symbolic step")
            if c == 0: raise LuaError("'for' step is zero", "error")
            allint = is_int(a) and is_int(b) and is_int(c)
            if not allint:
                a, b, c = to_float(a), to_float(b), to_float(c)
            i = a; it = 0; d0 = len(self.fk.decisions) if self.fk else 0
            while True:
                cond = self.lt(i, b, "__le") if c > 0 else self.lt(b, i, "__le")
                if not self.decide_bool(cond): break
                it += 1; self._loopcheck(it, d0)
                e2 = Env(env); e2.declare(s[1], i)
                try: self.exec_block(s[5], e2)
                except Break: break
                i = self.arith("+", i, c)
        elif k == "forin":
            vs = self.evlist(s[2], env); f, st, ctl = (vs + [None, None, None])[:3]
            it = 0; d0 = len(self.fk.decisions) if self.fk else 0
            while True:
                rs = self.call(f, [st, ctl])
                if not rs or rs[0] is None: break
                it += 1; self._loopcheck(it, d0)
                ctl = rs[0]; e2 = Env(env)
                for i, n in enumerate(s[1]): e2.declare(n, rs[i] if i < len(rs) else None)
                try: self.exec_block(s[3], e2)
                except Break: break
        else: raise LuaError("bad stmt " + k)
    def exec_block_in(self, body, env):
        """like exec_block but in a given environment (repeat-until scope)"""
        i = 0; n = len(body)
        while i < n:
            try:
                self.exec_stmt(body[i], env); i += 1
            except Goto as g:
                idx = None
                for j, s in enumerate(body):
                    if s[0] == "label" and s[1] == g.l: idx = j; break
                if idx is None: raise
                i = idx
    def _loopcheck(self, it, d0):
        if self.fk is not None and it > CONCRETE_LOOP_LIMIT: raise Cut("more than %d iterations of one loop" % CONCRETE_LOOP_LIMIT)
        if self.loop_bound is not None and it > self.loop_bound and self.fk is not None and len(self.fk.decisions) > d0:
            raise Cut("loop bound %d" % self.loop_bound)
    def setindex_t(self, t, env): pass
    def run(self, ast):
        self.exec_block(ast, None)


def _patch_assign_index():
    # `assign` on a pre-evaluated ("index", obj, key) target
    orig = Interp.assign
    def assign(self, t, v, env):
        if t[0] == "index" and not isinstance(t[1], tuple):
            self.setindex(t[1], t[2], v); return
        if t[0] == "index":
            self.setindex(self.ev(t[1], env), self.ev(t[2], env), v); return
        orig(self, t, v, env)
    Interp.assign = assign
_patch_assign_index()


def classify_error(e):
    """maps a LuaError to the event classes of DESIGN §E-LUA"""
    if e.kind == "assert":
        m = e.msg if isinstance(e.msg, str) else "<symbolic>"
        if m == "Assert failed!": return ("assert_failed",)
        if isinstance(m, str) and m.startswith("!!CRASH!!"): return ("crash", m)
        return ("runtime_assert", m)
    if e.kind == "type": return ("dynamic_type_error", str(e.msg))
    if e.kind == "resource": return ("resource", str(e.msg))
    return ("error", str(e.msg) if not is_sym(e.msg) else "<symbolic>")
