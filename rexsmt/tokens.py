"""E-REX: the token definitions of sylt-tokenizer/src/token.rs as z3 regular languages.
The #[token("..")] / #[regex(r"..", .., priority = n)] attributes are the declarative source that logos
compiles; they are re-read from /repo on every run. logos itself (longest match, priority on ties) is trusted."""
import re
import z3

S = z3.StringSort()
RS = z3.ReSort(S)


class RegexSyntax(Exception): pass


def _unescape_rust(s, raw):
    if raw: return s
    out = []; i = 0
    while i < len(s):
        if s[i] == "\\" and i + 1 < len(s):
            c = s[i + 1]
            out.append({"n": "\n", "t": "\t", "r": "\r", "\\": "\\", '"': '"', "0": "\0", "'": "'"}.get(c, c)); i += 2
        else: out.append(s[i]); i += 1
    return "".join(out)


def read_tokens(path):
    """returns list of dicts: {variant, kind: token|regex, text, priority, skip}"""
    src = open(path).read()
    out = []
    pending = []
    for line in src.split("\n"):
        t = line.strip()
        m = re.match(r'#\[token\("((?:[^"\\]|\\.)*)"(.*)\)\]$', t)
        if m: pending.append({"kind": "token", "text": _unescape_rust(m.group(1), False), "rest": m.group(2)}); continue
        m = re.match(r'#\[regex\(r#"(.*?)"#(.*)\)\]$', t) or re.match(r'#\[regex\(r"((?:[^"])*)"(.*)\)\]$', t) or re.match(r'#\[regex\("((?:[^"\\]|\\.)*)"(.*)\)\]$', t)
        if m:
            raw = t.startswith('#[regex(r')
            pending.append({"kind": "regex", "text": _unescape_rust(m.group(1), raw), "rest": m.group(2)}); continue
        if t.startswith("#["):
            if t.startswith("#[error"): pending.append({"kind": "error", "text": "", "rest": ""})
            continue
        m = re.match(r"([A-Z]\w*)(\(.*\))?,?$", t)
        if m and pending:
            for p in pending:
                pr = re.search(r"priority\s*=\s*(\d+)", p["rest"])
                out.append({"variant": m.group(1), "kind": p["kind"], "text": p["text"], "priority": int(pr.group(1)) if pr else None, "skip": "logos::skip" in p["rest"],
                            "has_callback": "|lex|" in p["rest"]})
            pending = []
        elif m: pending = []
    return out


# ------------------------------------------------------------------ regex -> z3
def to_z3(rx):
    p = _P(rx); r = p.alt()
    if p.i != len(rx): raise RegexSyntax("trailing %r in %r" % (rx[p.i:], rx))
    return r


DIGIT = z3.Range("0", "9")          # logos \d is Unicode Nd; ASCII digits stand for the class (stated assumption)
ANYCHAR = z3.AllChar(RS)


class _P:
    def __init__(self, s): self.s = s; self.i = 0
    def peek(self): return self.s[self.i] if self.i < len(self.s) else None
    def alt(self):
        parts = [self.seq()]
        while self.peek() == "|":
            self.i += 1; parts.append(self.seq())
        return parts[0] if len(parts) == 1 else z3.Union(*parts)
    def seq(self):
        items = []
        while self.peek() is not None and self.peek() not in "|)":
            a = self.atom()
            while self.peek() in ("*", "+", "?"):
                op = self.s[self.i]; self.i += 1
                a = z3.Star(a) if op == "*" else (z3.Plus(a) if op == "+" else z3.Option(a))
            items.append(a)
        if not items: return z3.Re(z3.StringVal(""))
        return items[0] if len(items) == 1 else z3.Concat(*items)
    def atom(self):
        c = self.peek()
        if c == "(":
            self.i += 1
            if self.s.startswith("?:", self.i): self.i += 2
            r = self.alt()
            if self.peek() != ")": raise RegexSyntax("missing ) in " + self.s)
            self.i += 1; return r
        if c == "[": return self.cls()
        if c == ".": self.i += 1; return z3.Diff(ANYCHAR, z3.Re(z3.StringVal("\n")))
        if c == "\\":
            self.i += 2; e = self.s[self.i - 1]
            if e == "d": return DIGIT
            if e == "w": return z3.Union(z3.Range("a", "z"), z3.Range("A", "Z"), DIGIT, z3.Re(z3.StringVal("_")))
            if e == "s": return z3.Union(*[z3.Re(z3.StringVal(x)) for x in " \t\n\r\f\v"])
            return z3.Re(z3.StringVal({"n": "\n", "t": "\t", "r": "\r"}.get(e, e)))
        self.i += 1
        return z3.Re(z3.StringVal(c))
    def cls(self):
        self.i += 1; neg = False
        if self.peek() == "^": neg = True; self.i += 1
        parts = []
        first = True
        while self.peek() is not None and (self.peek() != "]" or first):
            first = False
            c = self.s[self.i]
            if c == "\\":
                e = self.s[self.i + 1]; self.i += 2
                if e == "d": parts.append(DIGIT); continue
                c = {"n": "\n", "t": "\t", "r": "\r"}.get(e, e)
            else: self.i += 1
            if self.peek() == "-" and self.i + 1 < len(self.s) and self.s[self.i + 1] != "]":
                hi = self.s[self.i + 1]; self.i += 2
                parts.append(z3.Range(c, hi))
            else: parts.append(z3.Re(z3.StringVal(c)))
        if self.peek() != "]": raise RegexSyntax("missing ] in " + self.s)
        self.i += 1
        u = parts[0] if len(parts) == 1 else z3.Union(*parts)
        return z3.Diff(ANYCHAR, u) if neg else u


def languages(tokens):
    """variant -> z3 regex (union of its spellings)"""
    out = {}
    for t in tokens:
        if t["kind"] == "token": r = z3.Re(z3.StringVal(t["text"]))
        elif t["kind"] == "regex": r = to_z3(t["text"])
        else: continue
        out[t["variant"]] = z3.Union(out[t["variant"]], r) if t["variant"] in out else r
    return out


LUA_RESERVED = "and break do else elseif end false for function goto if in local nil not or repeat return then true until while".split()
