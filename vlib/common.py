"""Shared plumbing for every check: scratch copy of /repo's working tree, native build,
MIR dumps, evidence writer, known-findings reader, replay directories, exit codes.

Nothing here decides a property."""
import fcntl, hashlib, json, os, shutil, subprocess, sys, time

VERIF = os.path.dirname(os.path.dirname(os.path.abspath(__file__)))
REPO = os.environ.get("VERIF_REPO", "/repo")
BUILD = os.path.join(VERIF, ".build")
SCRATCH = os.environ.get("VERIF_SCRATCH", "/tmp/sylt_verif_scratch")   # recreated on every run
EVID = os.path.join(VERIF, "evidence")
REPLAYS = os.path.join(VERIF, "replays")
KNOWN = os.path.join(VERIF, "known_findings.json")

EXIT_OK, EXIT_VIOLATION, EXIT_INCONCLUSIVE = 0, 1, 2

ENV = dict(os.environ, CARGO_NET_OFFLINE="true", CARGO_TERM_COLOR="never")


class Inconclusive(Exception):
    """encoder / solver could not decide; never a pass, never a violation"""


def log(*a):
    print(*a, file=sys.stderr, flush=True)


def tier_from_args(argv):
    t = os.environ.get("VERIF_TIER")
    for i, a in enumerate(argv):
        if a == "--tier" and i + 1 < len(argv):
            t = argv[i + 1]
    return t if t in ("quick", "thorough") else "quick"


def seed():
    try:
        return int(os.environ.get("VERIF_SEED", "0"))
    except ValueError:
        return 0


# ------------------------------------------------------------------ builds
class _Lock:
    def __init__(self, name):
        os.makedirs(BUILD, exist_ok=True)
        self.path = os.path.join(BUILD, name + ".lock")

    def __enter__(self):
        self.f = open(self.path, "w")
        fcntl.flock(self.f, fcntl.LOCK_EX)
        return self

    def __exit__(self, *a):
        fcntl.flock(self.f, fcntl.LOCK_UN)
        self.f.close()


def _tree_hash(root):
    h = hashlib.sha256()
    for d, dirs, files in os.walk(root):
        dirs[:] = sorted(x for x in dirs if x not in ("target", ".git"))
        for f in sorted(files):
            p = os.path.join(d, f)
            if not (f.endswith((".rs", ".toml", ".lua", ".sy", ".lock"))):
                continue
            h.update(os.path.relpath(p, root).encode())
            with open(p, "rb") as fh:
                h.update(fh.read())
    return h.hexdigest()[:16]


def _sync():
    """copy /repo's *working tree* to the fixed scratch path. Files are compared by checksum and a file whose content changed gets the
    time of the copy as its mtime (no -t): cargo decides freshness by mtime, and a source file that differs from the last build but
    carries an older mtime (another clone of the repository, a file restored from git) would otherwise not be rebuilt."""
    src = os.path.join(SCRATCH, "src")
    os.makedirs(src, exist_ok=True)
    subprocess.run(["rsync", "-rlpgoD", "--checksum", "--delete", "--exclude", "/target", "--exclude", "/.git", "--exclude", "/tests",
                    "--exclude", "/docs", "--exclude", "/res", REPO + "/", src + "/"], check=True)
    return src


def _run(cmd, cwd, what, env=None, out=None):
    t0 = time.time()
    r = subprocess.run(cmd, cwd=cwd, env=env or ENV, stdout=out or subprocess.PIPE, stderr=subprocess.PIPE, text=True)
    if r.returncode != 0:
        log("BUILD FAILED (%s):\n%s" % (what, (r.stderr or "")[-3000:]))
        raise Inconclusive("build failed: " + what)
    log("[build] %s %.1fs" % (what, time.time() - t0))
    return r


def artifacts(need_native=True, need_mir=(), need_replay=False):
    """Builds from /repo's current working tree and returns a dict with paths:
       sylt (native binary), mir[crate] (MIR text), replay (native replay tool), hash.
       Artifacts are cached under .build/art/<tree-hash>/, so concurrent checks of the same tree build once."""
    with _Lock("build"):
        src = _sync()
        h = _tree_hash(src)
        art = os.path.join(BUILD, "art", h)
        os.makedirs(art, exist_ok=True)
        os.utime(art, None)                      # last use, for _gc_art
        res = {"hash": h, "dir": art, "mir": {}}
        sylt = os.path.join(art, "sylt")
        if need_native and not os.path.exists(sylt):
            _run(["cargo", "build", "--offline", "-p", "sylt", "--target-dir", os.path.join(BUILD, "native")], src, "native sylt")
            shutil.copy2(os.path.join(BUILD, "native", "debug", "sylt"), sylt + ".tmp")
            os.replace(sylt + ".tmp", sylt)
        res["sylt"] = sylt
        for crate in need_mir:
            out = os.path.join(art, crate + ".mir")
            if not os.path.exists(out):
                main = _crate_root(src, crate)
                if crate == "sylt": main = os.path.join(src, "sylt", "src", "lib.rs")
                os.utime(main, None)
                with open(out + ".tmp", "w") as fh:
                    _run(["cargo", "+nightly", "rustc", "--offline", "-p", crate, "--lib", "--target-dir", os.path.join(BUILD, "mir"),
                          "--", "-Zunpretty=mir", "-C", "debug-assertions=off", "-C", "overflow-checks=on"], src, "MIR " + crate, out=fh)
                if os.path.getsize(out + ".tmp") < 1000:
                    raise Inconclusive("empty MIR dump for " + crate)
                os.replace(out + ".tmp", out)
                # restore mtime so the native incremental build is not invalidated
            res["mir"][crate] = out
        if need_replay:
            rh = hashlib.sha256()
            for f in ("Cargo.toml", "src/main.rs"): rh.update(open(os.path.join(VERIF, "replay", f), "rb").read())
            rp = os.path.join(art, "replay-" + rh.hexdigest()[:10])
            if not os.path.exists(rp):
                rsrc = os.path.join(SCRATCH, "replay")
                if os.path.exists(rsrc):
                    shutil.rmtree(rsrc)
                shutil.copytree(os.path.join(VERIF, "replay"), rsrc)
                shutil.copy2(os.path.join(src, "Cargo.lock"), os.path.join(rsrc, "Cargo.lock"))
                _run(["cargo", "build", "--offline", "--target-dir", os.path.join(BUILD, "replay")], rsrc, "replay tool")
                shutil.copy2(os.path.join(BUILD, "replay", "debug", "sylt-replay"), rp + ".tmp")
                os.replace(rp + ".tmp", rp)
            res["replay"] = rp
        res["src"] = src
        _gc_art(keep=h)
    return res


def _crate_root(src, crate):
    import re
    toml = open(os.path.join(src, crate, "Cargo.toml")).read()
    m = re.search(r'\[lib\][^\[]*?path\s*=\s*"([^"]+)"', toml, re.S)
    return os.path.join(src, crate, m.group(1) if m else "src/lib.rs")


def _gc_art(keep, maxn=6, min_age_s=6 * 3600):
    """drops cached artifact sets beyond the newest `maxn`, but never one used in the last hours (a long thorough run may still need it)"""
    d = os.path.join(BUILD, "art")
    ents = sorted((os.path.getmtime(os.path.join(d, e)), e) for e in os.listdir(d))
    now = time.time()
    for mt, e in ents[:-maxn]:
        if e != keep and now - mt > min_age_s:
            shutil.rmtree(os.path.join(d, e), ignore_errors=True)


def repo_path(rel):
    """sources are read from /repo's working tree directly"""
    return os.path.join(REPO, rel)


# ------------------------------------------------------------------ compile helper (native binary)
def compile_sy(sylt, files, main="main.sy", extra=(), workdir=None, timeout=60):
    """files: {relative path: text}. Returns (rc, lua_text or None, stdout+stderr)."""
    import tempfile
    d = workdir or tempfile.mkdtemp(prefix="sy_", dir=os.path.join(SCRATCH))
    try:
        for rel, text in files.items():
            p = os.path.join(d, rel)
            os.makedirs(os.path.dirname(p), exist_ok=True)
            with open(p, "w") as fh:
                fh.write(text)
        out = os.path.join(d, "__out.lua")
        r = subprocess.run([sylt, "-o", out] + list(extra) + [main], cwd=d, capture_output=True, text=True, timeout=timeout)
        lua = None
        if os.path.exists(out):
            lua = open(out, errors="surrogateescape").read()
        return r.returncode, lua, r.stdout + r.stderr
    finally:
        if workdir is None:
            shutil.rmtree(d, ignore_errors=True)


# ------------------------------------------------------------------ known findings
def known_findings(pid):
    if not os.path.exists(KNOWN):
        return []
    data = json.load(open(KNOWN))
    return [f for f in data.get("findings", []) if f.get("property") == pid]


class Findings:
    """Collects counterexamples of one run; decides exit status against the committed known-findings file.
    A counterexample has a role *signature* (string). Listed signature -> KNOWN-FINDING line; otherwise VIOLATION."""

    def __init__(self, pid):
        self.pid = pid
        self.known = {f["signature"]: f for f in known_findings(pid)}
        self.seen_known = {}
        self.violations = []
        self.inconclusive = []

    def report(self, signature, what, replay_files=None, cmd=None):
        if signature in self.known:
            self.seen_known.setdefault(signature, what)
            return "known"
        if any(sig == signature for sig, _, _ in self.violations):
            self.duplicates = getattr(self, "duplicates", 0) + 1        # one VIOLATION line per signature
            return "violation"
        path = write_replay(self.pid, signature, what, replay_files or {}, cmd)
        self.violations.append((signature, what, path))
        return "violation"

    def undecided(self, what):
        self.inconclusive.append(what)

    def finish(self):
        for sig, what in self.seen_known.items():
            print("KNOWN-FINDING: property=%s %s :: %s" % (self.pid, sig, what))
        for sig, what, path in self.violations:
            print("VIOLATION property=%s replay=%s" % (self.pid, path))
            print("  signature=%s :: %s" % (sig, what))
        if self.violations:
            return EXIT_VIOLATION
        if self.inconclusive:
            for w in self.inconclusive[:20]:
                print("INCONCLUSIVE property=%s %s" % (self.pid, w))
            return EXIT_INCONCLUSIVE
        return EXIT_OK


def write_replay(pid, signature, what, files, cmd=None):
    sha = hashlib.sha1((signature + "\n" + what).encode()).hexdigest()[:12]
    d = os.path.join(REPLAYS, pid, sha)
    os.makedirs(d, exist_ok=True)
    for name, text in files.items():
        p = os.path.join(d, name)
        os.makedirs(os.path.dirname(p), exist_ok=True)
        with open(p, "w", errors="surrogateescape") as fh:
            fh.write(text)
    with open(os.path.join(d, "README.txt"), "w") as fh:
        fh.write("property: %s\nsignature: %s\n%s\n" % (pid, signature, what))
        if cmd:
            fh.write("\nreplay: %s\n" % cmd)
    return d


# ------------------------------------------------------------------ evidence
def write_evidence(pid, tier, level, coverage, assumptions, wall_s, violations=0):
    os.makedirs(EVID, exist_ok=True)
    ev = {"property_id": pid, "tier": tier, "seed": seed(), "level": level, "coverage": coverage,
          "assumptions": assumptions, "wall_s": round(wall_s, 2), "violations": violations}
    tmp = os.path.join(EVID, pid + ".json.tmp")
    with open(tmp, "w") as fh:
        json.dump(ev, fh, indent=1, default=str)
    os.replace(tmp, os.path.join(EVID, pid + ".json"))


class SolverStats:
    def __init__(self):
        self.queries = 0; self.sat = 0; self.unsat = 0; self.unknown = 0; self.time = 0.0

    def check(self, solver, *assumptions):
        import z3
        t0 = time.time()
        r = solver.check(*assumptions)
        if r == z3.unknown and not assumptions:
            # one retry in a fresh solver with a long time-out before the query counts as unknown
            s2 = z3.Solver(); s2.set("timeout", 60000); s2.add(solver.assertions()); r = s2.check()
        self.time += time.time() - t0
        self.queries += 1
        if r == z3.sat: self.sat += 1
        elif r == z3.unsat: self.unsat += 1
        else: self.unknown += 1
        return r

    def as_dict(self):
        return {"queries": self.queries, "sat": self.sat, "unsat": self.unsat, "unknown": self.unknown, "solver_s": round(self.time, 3)}
