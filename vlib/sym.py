"""Symbolic value layer shared by E-LUA (emitted Lua) and E-SY (reference semantics):
z3-backed scalars with a concrete type tag, string ropes, and the re-execution forker.

Type tags are always concrete; only payloads are symbolic."""
import math, time
import z3

F64 = z3.Float64()
RNE = z3.RNE()


class Infeasible(Exception): pass
class Cut(Exception):
    """a stated bound (loop iterations, call depth, steps) was reached on this path"""
class Undecided(Exception):
    """solver answered unknown on a feasibility query"""


class SInt:
    __slots__ = ("t",)
    def __init__(self, t): self.t = t
    def __repr__(self): return "SInt(%s)" % self.t
class SFloat:
    """`ratio` = (a, b) z3 Int terms when the value is the float quotient of two (bounded) integers a / b"""
    __slots__ = ("t", "ratio")
    def __init__(self, t, ratio=None): self.t = t; self.ratio = ratio
    def __repr__(self): return "SFloat(%s)" % self.t
class SBool:
    __slots__ = ("t",)
    def __init__(self, t): self.t = t
    def __repr__(self): return "SBool(%s)" % self.t
class SStr:
    """rope: list of pieces; piece = python str | ('i', Int term) | ('f', FP term) | ('s', String term)"""
    __slots__ = ("parts",)
    def __init__(self, parts): self.parts = norm_rope(parts)
    def __repr__(self): return "SStr(%r)" % (self.parts,)


def norm_rope(parts):
    out = []
    for p in parts:
        if isinstance(p, str):
            if p == "": continue
            if out and isinstance(out[-1], str): out[-1] += p
            else: out.append(p)
        else: out.append(p)
    return out


def is_sym(v): return isinstance(v, (SInt, SFloat, SBool, SStr))
def is_int(v): return (isinstance(v, int) and not isinstance(v, bool)) or isinstance(v, SInt)
def is_float(v): return isinstance(v, (float, SFloat))
def is_num(v): return is_int(v) or is_float(v)
def is_str(v): return isinstance(v, (str, SStr))
def is_bool(v): return isinstance(v, (bool, SBool))


def iterm(v): return v.t if isinstance(v, SInt) else z3.IntVal(v)
def fterm(v):
    if isinstance(v, SFloat): return v.t
    return z3.FPVal(v, F64)
def bterm(v): return v.t if isinstance(v, SBool) else z3.BoolVal(bool(v))


I2F = z3.Function("i2f", z3.IntSort(), F64)      # uninterpreted int->float (see DESIGN: exact when concrete)
FFLOOR = z3.Function("ffloor", F64, z3.IntSort())
FMT_F = z3.Function("fmt_float", F64, z3.StringSort())


def to_float(v):
    if isinstance(v, float): return v
    if isinstance(v, int): return float(v)
    if isinstance(v, SFloat): return v
    return SFloat(I2F(v.t))


def mk_int(t):
    t = z3.simplify(t)
    if z3.is_int_value(t): return t.as_long()
    return SInt(t)


def mk_bool(t):
    t = z3.simplify(t)
    if z3.is_true(t): return True
    if z3.is_false(t): return False
    return SBool(t)


def mk_float(t):
    return SFloat(t)


def fp_const_value(t):
    """python float of an FP numeral term, else None"""
    t = z3.simplify(t)
    if not z3.is_fp_value(t): return None
    if t.isNaN(): return math.nan
    if t.isInf(): return -math.inf if t.isNegative() else math.inf
    if t.isZero(): return -0.0 if t.isNegative() else 0.0
    return _fpnum(t)


def _fpnum(t):
    import struct
    sign = 1 if t.sign() else 0
    e = t.exponent_as_long(True); m = t.significand_as_long()
    bits = (sign << 63) | (e << 52) | m
    return struct.unpack(">d", struct.pack(">Q", bits))[0]


# ------------------------------------------------------------------ ropes -> z3 strings
def int_to_str_term(t):
    return z3.If(t >= 0, z3.IntToStr(t), z3.Concat(z3.StringVal("-"), z3.IntToStr(-t)))


def rope_term(v):
    parts = [v] if isinstance(v, str) else v.parts
    ts = []
    for p in parts:
        if isinstance(p, str): ts.append(z3.StringVal(p))
        elif p[0] == "i": ts.append(int_to_str_term(p[1]))
        elif p[0] == "f": ts.append(FMT_F(p[1]))
        else: ts.append(p[1])
    if not ts: return z3.StringVal("")
    if len(ts) == 1: return ts[0]
    return z3.Concat(*ts)


def rope_eq(a, b):
    """z3 Bool (or python bool) for equality of two strings (python str or SStr)"""
    if isinstance(a, str) and isinstance(b, str): return a == b
    pa = [a] if isinstance(a, str) else a.parts
    pb = [b] if isinstance(b, str) else b.parts
    pa = norm_rope(pa); pb = norm_rope(pb)
    if len(pa) == len(pb):
        conds = []; aligned = True
        for x, y in zip(pa, pb):
            if isinstance(x, str) and isinstance(y, str):
                if x != y:
                    # differing constants at the same position between identical neighbours: still could be equal
                    # as whole strings only if neighbours are symbolic; fall back to the string theory
                    aligned = False; break
            elif isinstance(x, tuple) and isinstance(y, tuple) and x[0] == y[0]:
                if x[0] == "i": conds.append(x[1] == y[1])
                elif x[0] == "f": conds.append(x[1] == y[1])
                else: conds.append(x[1] == y[1])
            else:
                aligned = False; break
        if aligned:
            # piecewise equality is sufficient; it is also necessary when at most one piece is symbolic
            nsym = sum(1 for x in pa if not isinstance(x, str))
            if nsym <= 1 or all(isinstance(x, str) or x[0] == "i" for x in pa) and _separated(pa):
                return z3.And(conds) if conds else True
    return rope_term(a) == rope_term(b)


def _separated(parts):
    """int pieces separated by constant pieces that cannot be part of a decimal integer rendering"""
    for i, p in enumerate(parts):
        if isinstance(p, tuple):
            if i + 1 < len(parts):
                q = parts[i + 1]
                if not isinstance(q, str) or q[0].isdigit() or q[0] == "-": return False
    return True


def concrete_str(v, model):
    """render a rope under a z3 model (floats through python's %.14g like Lua 5.3)"""
    if isinstance(v, str): return v
    out = []
    for p in v.parts:
        if isinstance(p, str): out.append(p)
        elif p[0] == "i": out.append(str(model.eval(p[1], model_completion=True).as_long()))
        elif p[0] == "s": out.append(model.eval(p[1], model_completion=True).as_string())
        else:
            f = fp_const_value(model.eval(p[1], model_completion=True)); out.append(fmt_float(f))
    return "".join(out)


def fmt_float(f):
    import re
    if f != f: return "-nan" if math.copysign(1, f) < 0 else "nan"
    if f in (math.inf, -math.inf): return "inf" if f > 0 else "-inf"
    t = "%.14g" % f
    return t + ".0" if re.fullmatch(r"-?\d+", t) else t


# ------------------------------------------------------------------ forker (re-execution with a decision log)
class Forker:
    def __init__(self, base=(), stats=None, timeout_ms=5000, max_paths=256):
        self.base = list(base); self.stats = stats
        self.timeout_ms = timeout_ms; self.max_paths = max_paths
        self.solver = None; self.pc = []; self.decisions = []; self.prefix = []; self.pending = []
        self.cut_paths = 0; self.undecided = 0; self.queries = 0; self.solver_s = 0.0
        self.concrete = False        # in concrete mode no solver exists; deciding on a symbolic term is an error

    def _check(self, c):
        self.queries += 1
        t0 = time.time()
        self.solver.push(); self.solver.add(c)
        r = self.solver.check()
        if r == z3.unknown:
            # one retry in a fresh solver with a long time-out before the path is given up as undecided
            s2 = z3.Solver(); s2.set("timeout", 60000); s2.add(self.solver.assertions()); r = s2.check()
        self.solver.pop()
        dt = time.time() - t0; self.solver_s += dt
        if self.stats is not None:
            self.stats.queries += 1; self.stats.time += dt
            if r == z3.sat: self.stats.sat += 1
            elif r == z3.unsat: self.stats.unsat += 1
            else: self.stats.unknown += 1
        return r

    def decide(self, options):
        """options: list of (label, z3 Bool | True). Returns the label taken on this path."""
        i = len(self.decisions)
        if i < len(self.prefix):
            choice = self.prefix[i]
        else:
            feas = []
            for lab, c in options:
                if c is True: feas.append(lab); continue
                if c is False: continue
                r = self._check(c)
                if r == z3.sat: feas.append(lab)
                elif r != z3.unsat:
                    import os
                    if os.environ.get("VERIF_DEBUG"):
                        with open("/tmp/unknown_query.smt2", "w") as fh:
                            self.solver.push(); self.solver.add(c); fh.write(self.solver.sexpr()); self.solver.pop()
                    raise Undecided("feasibility of %s" % (str(c)[:200],))
            if not feas: raise Infeasible()
            choice = feas[0]
            for alt in feas[1:]:
                self.pending.append(self.decisions + [alt])
        self.decisions.append(choice)
        for lab, c in options:
            if lab == choice and c is not True:
                self.pc.append(c); self.solver.add(c)
        return choice

    def concretize(self, t, limit=24):
        """forks over every feasible value of the Int term t (bounded by `limit` values) -> python int on this path"""
        t = z3.simplify(t)
        if z3.is_int_value(t): return t.as_long()
        i = len(self.decisions)
        if i < len(self.prefix):
            choice = self.prefix[i]
        else:
            vals = []; r = None
            self.solver.push()
            while len(vals) <= limit:
                self.queries += 1; t0 = time.time()
                r = self.solver.check(); self.solver_s += time.time() - t0
                if self.stats is not None:
                    self.stats.queries += 1; self.stats.time += time.time() - t0
                    if r == z3.sat: self.stats.sat += 1
                    elif r == z3.unsat: self.stats.unsat += 1
                    else: self.stats.unknown += 1
                if r != z3.sat: break
                v = self.solver.model().eval(t, model_completion=True).as_long(); vals.append(v); self.solver.add(t != v)
            self.solver.pop()
            if r == z3.sat: raise Undecided("more than %d values for a symbolic table key" % limit)
            if r != z3.unsat: raise Undecided("enumerating values of %s" % (str(t)[:100],))
            if not vals: raise Infeasible()
            choice = vals[0]
            for alt in vals[1:]: self.pending.append(self.decisions + [alt])
        self.decisions.append(choice)
        c = t == choice
        self.pc.append(c); self.solver.add(c)
        return choice

    def branch(self, cond):
        """cond: python bool, SBool or z3 Bool -> python bool on this path"""
        if isinstance(cond, bool): return cond
        t = cond.t if isinstance(cond, SBool) else cond
        t = z3.simplify(t)
        if z3.is_true(t): return True
        if z3.is_false(t): return False
        return self.decide([(True, t), (False, z3.Not(t))])

    def assume(self, c):
        self.pc.append(c); self.solver.add(c)

    def explore(self, thunk):
        """runs thunk() once per feasible path. Returns list of (pc, kind, value) with kind in ok|cut|undecided."""
        results = []; self.pending = [[]]; n = 0
        while self.pending:
            if n >= self.max_paths:
                self.cut_paths += len(self.pending); break
            self.prefix = self.pending.pop(); self.decisions = []; self.pc = []
            self.solver = z3.Solver(); self.solver.set("timeout", self.timeout_ms)
            for b in self.base: self.solver.add(b)
            n += 1
            try:
                out = thunk()
                results.append((list(self.pc), "ok", out))
            except Infeasible:
                n -= 1; continue
            except Cut as e:
                self.cut_paths += 1; results.append((list(self.pc), "cut", str(e)))
            except Undecided as e:
                self.undecided += 1; results.append((list(self.pc), "undecided", str(e)))
        return results
