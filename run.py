#!/usr/bin/env python3
"""Entry point of every registered check:  python3-vt /verif/run.py <ID> --tier quick|thorough
exit 0 = held on everything explored (or only listed known findings), 1 = VIOLATION line printed, 2 = inconclusive."""
import importlib, os, sys, time, traceback
sys.path.insert(0, os.path.dirname(os.path.abspath(__file__)))
from vlib import common


def main():
    if len(sys.argv) < 2:
        print("usage: run.py <ID>|setup [--tier quick|thorough]"); return 2
    what = sys.argv[1]
    if what == "setup":
        common.artifacts(need_native=True, need_mir=("sylt-tokenizer", "sylt-parser", "sylt-common", "sylt-compiler"), need_replay=os.path.isdir(os.path.join(common.VERIF, "replay")))
        print("setup ok"); return 0
    tier = common.tier_from_args(sys.argv)
    mod = importlib.import_module("checks." + what)
    try:
        return mod.run(tier)
    except common.Inconclusive as e:
        print("INCONCLUSIVE property=%s %s" % (what, e)); return 2
    except Exception:
        traceback.print_exc()
        print("INCONCLUSIVE property=%s internal error in the checking machinery" % what); return 2


if __name__ == "__main__":
    from luasym.runner import in_thread
    sys.exit(in_thread(main))
