"""Shared driver of the translation-validation checks: runs templates through
real compiler -> E-LUA (symbolic) vs E-SY (symbolic), replays every counterexample concretely against a fresh
compilation, and reports through the known-findings discipline."""
import json, multiprocessing as mp, os, sys, time, traceback
from vlib import common
from syltsem import tv
from luasym.runner import in_thread

_CTX = {}


def _work(job):
    idx, tdict, tier, oracle_name = job
    def go():
        stats = common.SolverStats()
        try:
            prog = None
            if tdict.get("ref_text"):
                from syltsem import parse as SP
                prog = SP.strip_parens(SP.parse_program(tdict["ref_text"]))
            tpl = tv.Template(tdict["name"], text=tdict["text"], prog=prog, domains=tdict.get("dom"), role=tdict.get("role"), extra_files=tdict.get("files"))
        except Exception as e:
            return {"name": tdict["name"], "status": "template_error", "why": "%s: %s" % (type(e).__name__, e), "stats": stats.as_dict()}
        try:
            oracle = _CTX["oracles"][oracle_name]
            if oracle_name == "soundness":
                r = tv.check_soundness(_CTX["sylt"], tpl, tv.Bounds(tier), stats)
            else:
                r = tv.check_template(_CTX["sylt"], tpl, tv.Bounds(tier), stats, oracle=oracle)
            r["name"] = tdict["name"]; r["role"] = tdict.get("role", tdict["name"])
            # replay each counterexample against a fresh compilation of the concretised program
            confirmed = []
            for d in r.get("diffs", []):
                try:
                    if oracle_name == "soundness": differs, info = tv.replay_soundness(_CTX["sylt"], tpl, d["holes"])
                    elif oracle == "equiv": differs, info = tv.replay_concrete(_CTX["sylt"], tpl, d["holes"])
                    else: differs, info = _CTX["replays"][oracle_name](_CTX["sylt"], tpl, d["holes"])
                except Exception as e:
                    differs, info = None, {"why": "replay raised %s: %s" % (type(e).__name__, e)}
                d["replayed"] = differs; d["replay"] = info
            r["stats"] = stats.as_dict()
            r.pop("lua", None)
            return r
        except Exception as e:
            return {"name": tdict["name"], "status": "engine_error", "why": "%s: %s\n%s" % (type(e).__name__, e, traceback.format_exc()[-1500:]), "stats": stats.as_dict()}
    return in_thread(go)


def run_templates(sylt, templates, tier, oracle_name="equiv", oracles=None, replays=None, procs=None):
    _CTX["sylt"] = sylt
    _CTX["oracles"] = dict({"equiv": "equiv", "soundness": "soundness"}, **(oracles or {}))
    _CTX["replays"] = replays or {}
    jobs = [(i, t, tier, oracle_name) for i, t in enumerate(templates)]
    procs = procs or min(16, max(1, len(jobs)))
    ctx = mp.get_context("fork")
    with ctx.Pool(procs) as pool:
        return pool.map(_work, jobs, chunksize=1)


def summarize(results):
    agg = {"programs": len(results), "ok": 0, "diff": 0, "rejected": 0, "load_error": 0, "undecided": 0, "stuck": 0, "engine_error": 0, "template_error": 0,
           "paths_ref": 0, "paths_lua": 0, "cut_paths": 0, "queries": 0, "sat": 0, "unsat": 0, "unknown": 0, "solver_s": 0.0}
    for r in results:
        agg[r["status"]] = agg.get(r["status"], 0) + 1
        agg["paths_ref"] += r.get("paths_ref", 0); agg["paths_lua"] += r.get("paths_lua", 0); agg["cut_paths"] += r.get("cut", 0)
        st = r.get("stats", {})
        for k in ("queries", "sat", "unsat", "unknown"): agg[k] += st.get(k, 0)
        if r.get("case_split"): agg["case_split_templates"] = agg.get("case_split_templates", 0) + 1; agg["case_split_valuations"] = agg.get("case_split_valuations", 0) + r["case_split"]
        agg["solver_s"] = round(agg["solver_s"] + st.get("solver_s", 0.0), 3)
    return agg


def tv_check(pid, tier, templates, sylt, t0, oracle_name="equiv", oracles=None, replays=None, assumptions=(), extra_cov=None,
             expect_accept=True, sig_of=None, rejected_is_violation=False):
    """runs templates, maps outcomes to findings, writes evidence, returns exit code"""
    results = run_templates(sylt, templates, tier, oracle_name, oracles, replays)
    fnd = common.Findings(pid)
    agg = summarize(results)
    samples = []; confirmed = 0; witnesses = 0; undecided_generated = []
    for r in results:
        name = r["name"]; role = r.get("role", name)
        st = r["status"]
        if st == "template_error" and name.startswith("pert_"):
            pass        # the perturbation produced text outside the reference reader's subset: counted, not decided
        elif st in ("engine_error", "template_error", "stuck"):
            fnd.undecided("template %s: %s %s" % (name, st, (r.get("why") or "")[:300]))
        elif st == "undecided" and name.startswith(("rand_", "pert_")):
            # a generated template the solver could not decide (after a 60 s retry): excluded from the claim, listed in the evidence
            undecided_generated.append(name); print("NOTE template %s: solver returned unknown on %d queries - not decided, excluded from the claim" % (name, r.get("undecided", 0)))
        elif st == "undecided":
            fnd.undecided("template %s: solver returned unknown on %d queries" % (name, r.get("undecided", 0)))
        elif st == "rejected" and rejected_is_violation:
            fnd.report("rejected:" + role, "template %s (a documented use) is rejected by the compiler: %s" % (name, r.get("compiler_output", "")[:400]), {"main.sy": r.get("source", "")},
                       cmd="sylt -o out.lua main.sy   # must be accepted")
        elif st == "rejected" and expect_accept and not name.startswith("rand_"):
            fnd.undecided("template %s: rejected by the compiler (template is meant to be well typed): %s" % (name, r.get("compiler_output", "")[:300]))
        elif st == "load_error":
            sig = (sig_of or default_sig)(r, None, "load_error")
            fnd.report(sig, "emitted Lua does not load for template %s: %s" % (name, r["load_error"]), {"main.sy": r["source"], "out.lua": r.get("lua") or ""})
        elif st == "diff":
            for d in r["diffs"]:
                if d.get("replayed") is True:
                    confirmed += 1
                    sig = (sig_of or default_sig)(r, d, "diff")
                    info = d.get("replay", {})
                    fnd.report(sig, "template %s holes=%s: source denotes %s, emitted Lua does %s" % (name, d["holes"], json.dumps(info.get("ref"))[:300], json.dumps(info.get("lua_trace"))[:300]),
                               {"main.sy": info.get("source", ""), "out.lua": info.get("lua", ""), "expected.json": json.dumps(info.get("ref"), indent=1), "actual.json": json.dumps(info.get("lua_trace"), indent=1)},
                               cmd="sylt -o out.lua main.sy && lua out.lua   # compare with expected.json")
                    break
                else:
                    fnd.undecided("template %s: counterexample %s did not reproduce concretely (%s)" % (name, d["holes"], str(d.get("replay", {}).get("why"))[:200]))
        if r.get("paths_lua", 0) > 0: witnesses += 1
        if len(samples) < 4 and st in ("ok", "diff"):
            samples.append({"template": name, "role": role, "status": st, "paths_ref": r.get("paths_ref"), "paths_lua": r.get("paths_lua"), "queries": r.get("queries"), "source": r.get("source", "")[:600]})
    cov = {"programs": agg["programs"], "disagreements_checked": confirmed, "samples": samples,
           "evaluations": agg["paths_lua"], "distinct_nontrivial": witnesses,
           "rule": "one evaluation = one feasible symbolic path of the emitted chunk; a template is non-trivial when at least one of its paths ran to an outcome",
           "status_counts": {k: agg[k] for k in ("ok", "diff", "rejected", "load_error", "undecided", "stuck", "engine_error", "template_error")},
           "paths_ref": agg["paths_ref"], "paths_lua": agg["paths_lua"], "cut_paths": agg["cut_paths"],
           "solver": {k: agg[k] for k in ("queries", "sat", "unsat", "unknown", "solver_s")},
           "bounds": vars(tv.Bounds(tier)),
           "functions_encoded": ["emitted chunk + sylt-compiler/src/preamble.lua (executed symbolically by luasym)", "reference: syltsem/ref.py"],
           "undecided_generated_templates": undecided_generated, "known_findings_seen": sorted(fnd.seen_known)}
    if extra_cov: cov.update(extra_cov)
    rc = fnd.finish()
    common.write_evidence(pid, tier, "translation_validation", cov, list(assumptions), time.time() - t0, violations=len(fnd.violations))
    print("%s: %d templates, %d ok, %d confirmed counterexamples, %d lua paths, %d cut, %d solver queries (%.1fs solver), wall %.1fs" %
          (pid, agg["programs"], agg["ok"], confirmed, agg["paths_lua"], agg["cut_paths"], agg["queries"], agg["solver_s"], time.time() - t0))
    return rc


def default_sig(r, d, kind):
    return "%s:%s" % (kind, r.get("role", r["name"]))


TV_ASSUMPTIONS = [
    "program structure is a bounded family of templates; only hole values and the control paths they induce are decided by the solver",
    "E-LUA (luasym) is a faithful Lua 5.3 for the constructs used; validated by running tests/**/*.sy (222 executable programs) in concrete mode",
    "integers are mathematical: int holes are bounded to [0, 2^31) or tighter, so no 64-bit wrap occurs",
    "int->float conversion of a symbolic int, math.floor of a symbolic float and float->string are uninterpreted functions (exact on constants)",
    "string holes range over [a-z0-9 ]{0,3}",
    "paths cut by a loop/call-depth bound are excluded from the claim and counted in cut_paths",
]
