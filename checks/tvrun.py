"""Shared driver of the translation-validation checks: runs templates through
real compiler -> E-LUA (symbolic) vs E-SY (symbolic), replays every counterexample concretely against a fresh
compilation, and reports through the known-findings discipline."""
import json, multiprocessing as mp, os, sys, time, traceback
from vlib import common
from syltsem import tv
from luasym.runner import in_thread

_CTX = {}


def _work(job):
    idx, tdict, tier, oracle_name = job
    def go():
        stats = common.SolverStats()
        try:
            tpl = tv.Template(tdict["name"], text=tdict["text"], domains=tdict.get("dom"), role=tdict.get("role"), extra_files=tdict.get("files"))
        except Exception as e:
            return {"name": tdict["name"], "status": "template_error", "why": "%s: %s" % (type(e).__name__, e), "stats": stats.as_dict()}
        try:
            oracle = _CTX["oracles"][oracle_name]
            r = tv.check_template(_CTX["sylt"], tpl, tv.Bounds(tier), stats, oracle=oracle)
            r["name"] = tdict["name"]; r["role"] = tdict.get("role", tdict["name"])
            # replay each counterexample against a fresh compilation of the concretised program
            confirmed = []
            for d in r.get("diffs", []):
                try:
                    differs, info = tv.replay_concrete(_CTX["sylt"], tpl, d["holes"]) if oracle == "equiv" else _CTX["replays"][oracle_name](_CTX["sylt"], tpl, d["holes"])
                except Exception as e:
                    differs, info = None, {"why": "replay raised %s: %s" % (type(e).__name__, e)}
                d["replayed"] = differs; d["replay"] = info
            r["stats"] = stats.as_dict()
            r.pop("lua", None)
            return r
        except Exception as e:
            return {"name": tdict["name"], "status": "engine_error", "why": "%s: %s\n%s" % (type(e).__name__, e, traceback.format_exc()[-1500:]), "stats": stats.as_dict()}
    return in_thread(go)


def run_templates(sylt, templates, tier, oracle_name="equiv", oracles=None, replays=None, procs=None):
    _CTX["sylt"] = sylt
    _CTX["oracles"] = dict({"equiv": "equiv"}, **(oracles or {}))
    _CTX["replays"] = replays or {}
    jobs = [(i, t, tier, oracle_name) for i, t in enumerate(templates)]
    procs = procs or min(16, max(1, len(jobs)))
    ctx = mp.get_context("fork")
    with ctx.Pool(procs) as pool:
        return pool.map(_work, jobs, chunksize=1)


def summarize(results):
    agg = {"programs": len(results), "ok": 0, "diff": 0, "rejected": 0, "load_error": 0, "undecided": 0, "stuck": 0, "engine_error": 0, "template_error": 0,
           "paths_ref": 0, "paths_lua": 0, "cut_paths": 0, "queries": 0, "sat": 0, "unsat": 0, "unknown": 0, "solver_s": 0.0}
    for r in results:
        agg[r["status"]] = agg.get(r["status"], 0) + 1
        agg["paths_ref"] += r.get("paths_ref", 0); agg["paths_lua"] += r.get("paths_lua", 0); agg["cut_paths"] += r.get("cut", 0)
        st = r.get("stats", {})
        for k in ("queries", "sat", "unsat", "unknown"): agg[k] += st.get(k, 0)
        agg["solver_s"] = round(agg["solver_s"] + st.get("solver_s", 0.0), 3)
    return agg
