"""C20 - driver contract: exit status, all-or-nothing output, flags.
 (1) K-driver: `sylt::run_file_with_reader` is executed from MIR with Args.output a z3 choice over {"-", FILE}; the
     compilation, the file system and io::Write are contract stubs with symbolic outcomes (compile Ok(L bytes) / Err;
     File::create ok / fails; the file may exist with older, longer content; Write::write may accept n <= len bytes;
     write_all is all-or-error). z3 decides on every path: compile Err => no file-system effect at all; result Ok =>
     FILE holds exactly the L bytes (created/truncated, nothing lost); a write error => result Err.
 (2) K-emit: `lua::Generator::generate` is executed from MIR on the IR of a small program with the same Write
     contract stub: every byte offered to the writer is accepted (no unchecked short write).
 (3) native: z3 chooses `--require` module names from a small regular language; the emitted chunk must contain exactly
     one `require "<M without a trailing .lua>"` right after the preamble; `-o -` and `-o FILE` give the same bytes;
     exit status 0 iff accepted; a rejected program leaves FILE untouched / absent; re-compiling a shorter program into
     an existing FILE leaves exactly the new program; an unwritable FILE gives a non-zero status; a short-writing
     io::Write (REPLAY `short`) receives the complete program; `--no-std` does not change what assert-only programs do."""
import os, re, shutil, subprocess, tempfile, time, traceback
import z3
from vlib import common

PROG_OK = "start :: fn do\n    x := 1 + 2\n    x <=> 3\nend\n"
PROG_OK2 = "f :: fn a: int -> int do\n    ret a * 2\nend\nstart :: fn do\n    f(2) <=> 4\n    (1, 2) + (3, 4) <=> (4, 6)\n    if f(1) > 1 do\n        \"a\" + \"b\" <=> \"ab\"\n    end\nend\n"
PROG_BAD = "start :: fn do\n    x := 1 + \"s\"\nend\n"
PROG_FAILS = "start :: fn do\n    1 <=> 2\nend\n"


def kdriver(stats):
    from mirsym import core as M
    art = common.artifacts(need_mir=("sylt", "sylt-common", "sylt-tokenizer"), need_replay=True)
    m = M.Machine([art["mir"]["sylt"], art["mir"]["sylt-common"]], common.REPO, src_files=["sylt-tokenizer/src/tokenizer.rs", "sylt-common/src/lib.rs", "sylt-common/src/error.rs", "sylt-common/src/ty.rs", "sylt/src/lib.rs"])
    ex = m.ex
    out_sel = z3.Int("output"); comp_ok = z3.Bool("compile_ok"); L = z3.Int("L"); create_ok = z3.Bool("create_ok"); existed = z3.Bool("file_existed"); old_len = z3.Int("old_len")
    base = [out_sel >= 0, out_sel <= 1, L >= 1, L <= 2**20, old_len >= 0, old_len <= 2**21]
    ev = []            # events of the current path
    def dr(v):
        while isinstance(v, M.Ref): v = v.get()
        return v
    def truth(b):
        if isinstance(b, bool): return b
        return ex.decide([(True, b), (False, z3.Not(b))])
    ioerr = lambda: M.EnumV("Result", 1, [M.Opaque("io::Error")])
    def s_compile(a):
        if truth(comp_ok):
            w = dr(a[2]) if len(a) > 2 else None
            ev.append(("compile_wrote", L, "buffer" if isinstance(w, M.VecV) else repr(w))); return M.EnumV("Result", 0, [M.TupleV([])])
        return M.EnumV("Result", 1, [M.VecV([M.Opaque("compile error")])])
    def s_create(a):
        if truth(create_ok):
            ev.append(("create_truncate",)); return M.EnumV("Result", 0, [M.Opaque("File")])
        ev.append(("create_failed",)); return ioerr()
    def s_open_options_open(a):
        opts = dr(a[0]); flags = getattr(opts, "flags", {})
        if truth(create_ok):
            ev.append(("open", dict(flags))); return M.EnumV("Result", 0, [M.Opaque("File")])
        ev.append(("create_failed",)); return ioerr()
    def s_write(a):
        n = z3.Int("accepted%d" % len(ev)); okw = z3.Bool("write_ok%d" % len(ev))
        if truth(okw):
            for c in (n >= 0, n <= L): ex.pc.append(c); ex.solver.add(c)
            ev.append(("write", n, repr(dr(a[0])))); return M.EnumV("Result", 0, [n])
        ev.append(("write_failed",)); return ioerr()
    def s_write_all(a):
        okw = z3.Bool("write_all_ok%d" % len(ev))
        if truth(okw):
            ev.append(("write", L, repr(dr(a[0])))); return M.EnumV("Result", 0, [M.TupleV([])])
        ev.append(("write_failed",)); return ioerr()
    class Opts:
        def __init__(self): self.flags = {}
    def s_oo_new(a): return Opts()
    def oo_flag(name):
        def f(a):
            o = dr(a[0]); o.flags[name] = dr(a[1]); return a[0]
        return f
    ex.stubs.update({"compile_with_reader_to_writer": s_compile, "File::create": s_create, "OpenOptions::new": s_oo_new, "OpenOptions::write": oo_flag("write"), "OpenOptions::create": oo_flag("create"),
                     "OpenOptions::truncate": oo_flag("truncate"), "OpenOptions::append": oo_flag("append"), "OpenOptions::open": s_open_options_open,
                     "as std::io::Write>::write": s_write, "as std::io::Write>::write_all": s_write_all, "as Write>::write": s_write, "as Write>::write_all": s_write_all,
                     "as std::io::Write>::by_ref": lambda a: a[0], "as Write>::by_ref": lambda a: a[0], "as std::io::Write>::flush": lambda a: M.EnumV("Result", 0, [M.TupleV([])]),
                     "stdout": lambda a: M.Opaque("stdout"), "Path::new": lambda a: dr(a[0]), "Path::display": lambda a: M.Opaque("display"), "as Deref>::deref": lambda a: a[0],
                     "Rc::new": lambda a: M.BoxV(a[0]), "std::fs::write": lambda a: s_write_all(a)})
    _orig_model = ex.model
    def model(callee, a):
        c = M.strip_gen(callee)
        if re.match(r"^<&PathBuf as PartialEq<&&Path>>::eq$", c) or re.match(r"^<.*Path.* as PartialEq.*>::eq$", c):
            x, y = dr(a[0]), dr(a[1]); return x == y
        if c.endswith("Result::expect") or c.endswith("Result::unwrap"):
            r = dr(a[0])
            if r.disc != 0: raise M.Panic("expect/unwrap on Err")
            return r.fields[0]
        return _orig_model(callee, a)
    ex.model = model
    def mk():
        del ev[:]
        out = M.ChoiceV(out_sel, [M.EnumV("Option", 1, ["-"]), M.EnumV("Option", 1, ["out.lua"])])
        fields = {"dump_tree": False, "output": out, "require": M.EnumV("Option", 0, []), "no_std": False, "verbosity": 0, "help": False, "args": M.VecV(["main.sy"])}
        order = m.structs["Args"]
        return [M.Ref([M.StructV("Args", [fields.get(f, M.Opaque(f)) for f in order])], 0), M.Opaque("reader")]
    f = [fn for n, fn in m.fns.items() if n.split("::")[-1] == "run_file_with_reader"][0]
    def thunk():
        try: r = ex.run(f, mk()); return ("ok", r, list(ev))
        except M.Panic as e: return ("panic", str(e), list(ev))
    ex.base = list(base); ex.steps = 0; ex.queries = 0
    results = [(pc, out[0], out[1], out[2]) for pc, (_, out) in ex.explore(thunk)]
    checks = []
    def prove(name, pc, goal, info):
        s = z3.Solver(); s.set("timeout", 20000); s.add(base); s.add(pc); s.add(z3.Not(goal))
        r = stats.check(s)
        rec = {"obligation": name, "verdict": "holds" if r == z3.unsat else str(r), "events": [str(e)[:60] for e in info]}
        if r == z3.sat: rec["model"] = str(s.model())[:300]
        checks.append(rec)
    for pc, kind, r, events in results:
        is_file = out_sel == 1
        fs = [e for e in events if e[0] in ("create_truncate", "open", "write", "write_failed", "create_failed")]
        compiled = any(e[0] == "compile_wrote" for e in events)
        if kind == "panic":
            # a panic is a non-zero exit; the file must then be untouched unless it was created and written completely
            untouched = not any(e[0] in ("create_truncate", "open", "write") for e in events)
            prove("panic path leaves FILE untouched", pc, z3.BoolVal(untouched), events); continue
        ok = r.disc == 0
        if not compiled:
            prove("compile error => Err and no file-system effect", pc, z3.And(z3.BoolVal(not ok), z3.BoolVal(len(fs) == 0)), events); continue
        if ok:
            # FILE mode: file must hold exactly L bytes
            wrote = [e[1] for e in events if e[0] == "write" and "File" in e[2]]
            created = any(e[0] == "create_truncate" for e in events)
            opened = [e for e in events if e[0] == "open"]
            trunc = created or any(e[1].get("truncate") is True for e in opened)
            total = sum(wrote) if wrote else z3.IntVal(0)
            final_len = total if trunc else z3.If(z3.And(existed, old_len > total), old_len, total)
            goal_file = z3.And(final_len == L, total == L) if (created or opened) else z3.BoolVal(False)
            prove("result Ok => FILE holds exactly the program (output=FILE)", pc, z3.Implies(is_file, goal_file), events)
            prove("result Ok with output='-' => no file is created", pc, z3.Implies(out_sel == 0, z3.BoolVal(not (created or opened))), events)
            sink = [e[2] for e in events if e[0] == "compile_wrote"][0]
            to_stdout = [e[1] for e in events if e[0] == "write" and "stdout" in e[2]]
            checked = z3.BoolVal(sink == "buffer") if True else None
            tot_out = sum(to_stdout) if to_stdout else z3.IntVal(0)
            prove("result Ok with output='-' => all L bytes reached stdout through checked writes", pc, z3.Implies(out_sel == 0, z3.And(checked, tot_out == L)), events)
        else:
            prove("result Err after a successful compile only when an I/O operation failed", pc, z3.BoolVal(any(e[0] in ("write_failed", "create_failed") for e in events)), events)
    # reachability witnesses: the obligations above are vacuous unless each kind of outcome is actually reached for each output mode
    def reach(name, want):
        hit = False
        for pc, kind, r, events in results:
            if not want(kind, r, events): continue
            s = z3.Solver(); s.add(base); s.add(pc)
            if stats.check(s) == z3.sat: hit = True; break
        checks.append({"obligation": "witness: " + name, "verdict": "holds" if hit else "unreached", "events": []})
    isok = lambda kind, r: kind == "ok" and r.disc == 0
    iserr = lambda kind, r: kind == "ok" and r.disc != 0
    reach("Ok with a file written", lambda k, r, ev: isok(k, r) and any(e[0] == "write" and "File" in e[2] for e in ev))
    reach("Ok with stdout written", lambda k, r, ev: isok(k, r) and any(e[0] == "write" and "stdout" in e[2] for e in ev))
    reach("Err from the compiler", lambda k, r, ev: iserr(k, r) and not any(e[0] == "compile_wrote" for e in ev))
    reach("Err from a failed write", lambda k, r, ev: iserr(k, r) and any(e[0] == "write_failed" for e in ev))
    reach("create fails (Err or panic)", lambda k, r, ev: any(e[0] == "create_failed" for e in ev))
    return {"paths": len(results), "steps": ex.steps, "queries": ex.queries, "checks": checks, "art": art}


def kemit(stats):
    """lua::generate from MIR on a real IR with the Write contract stub"""
    from mirsym import core as M, pipeline as P
    pl = P.Pipeline(); ex = pl.m.ex
    out = pl.front_to_ir({"main.sy": "pr: fn *X -> void : external\n" + PROG_OK2.replace("<=>", "==").replace("    f(2) == 4", "    pr(f(2) == 4)").replace("    (1, 2) + (3, 4) == (4, 6)", "    pr((1, 2) + (3, 4) == (4, 6))").replace('        "a" + "b" == "ab"', '        pr("a" + "b" == "ab")')}, no_std=True)
    if "ir" not in out or out["ir"][0] != "ok": raise common.Inconclusive("K-emit: the sample program did not reach the IR: %s" % {k: v[0] for k, v in out.items()})
    ir = out["ir"][1]
    (pc, (k, usage)), = pl.usages(M.Ref([ir], 0)) if False else pl.m.explore("count_usages", lambda: [ir.items])
    if k != "ok": raise common.Inconclusive("count_usages: " + str(usage))
    offered = []; accepted = []
    def dr(v):
        while isinstance(v, M.Ref): v = v.get()
        return v
    def s_write(a):
        i = len(offered); Li = z3.Int("len%d" % i); ni = z3.Int("acc%d" % i)
        for c in (Li >= 0, Li <= 4096, ni >= 0, ni <= Li): ex.pc.append(c); ex.solver.add(c)
        offered.append(Li); accepted.append(ni); return M.EnumV("Result", 0, [ni])
    def s_write_all(a):
        i = len(offered); Li = z3.Int("len%d" % i)
        for c in (Li >= 0, Li <= 4096): ex.pc.append(c); ex.solver.add(c)
        offered.append(Li); accepted.append(Li); return M.EnumV("Result", 0, [M.TupleV([])])
    ex.stubs.update({"as std::io::Write>::write": s_write, "as Write>::write": s_write, "as std::io::Write>::write_all": s_write_all, "as Write>::write_all": s_write_all,
                     "timed_handle": lambda a: M.Opaque("handle")})
    gen = [n for n in pl.m.fns if n.endswith("::generate") and n.startswith("lua::<impl")][0]
    def mk():
        del offered[:]; del accepted[:]
        g = M.StructV("Generator", [M.Ref([usage], 0), M.Ref([M.Opaque("writer")], 0), M.MapV("hash")])
        order = pl.m.structs.get("Generator")
        if order:
            vals = {"usage_count": M.Ref([usage], 0), "out": M.Ref([M.Opaque("writer")], 0), "lut": M.MapV("hash")}
            g = M.StructV("Generator", [vals[f] for f in order])
        return [M.Ref([g], 0), M.Ref([ir], 0), M.EnumV("Option", 0, [])]
    res = pl.m.explore(gen, mk, [])
    checks = []
    for pc, (k, v) in res:
        if k != "ok": checks.append({"obligation": "generate does not panic", "verdict": "sat", "what": str(v)[:200]}); continue
        s = z3.Solver(); s.set("timeout", 20000); s.add(pc); s.add(sum(accepted) != sum(offered) if offered else z3.BoolVal(False))
        r = stats.check(s)
        checks.append({"obligation": "every byte offered to the writer is accepted (%d write calls)" % len(offered), "verdict": "holds" if r == z3.unsat else str(r)})
    return {"paths": len(res), "steps": ex.steps, "checks": checks, "writes": len(offered)}


# ------------------------------------------------------------------ native
def native(art, tier, stats, fnd):
    sylt = art["sylt"]; n = 0
    d = tempfile.mkdtemp(prefix="c20_", dir=common.SCRATCH)
    def run(args, cwd=d):
        return subprocess.run([sylt] + args, cwd=cwd, capture_output=True, text=True, timeout=60)
    try:
        for name, text in (("ok.sy", PROG_OK), ("ok2.sy", PROG_OK2), ("bad.sy", PROG_BAD)): open(os.path.join(d, name), "w").write(text)
        # exit status and all-or-nothing
        for prog, accept in (("ok.sy", True), ("ok2.sy", True), ("bad.sy", False)):
            out = os.path.join(d, "o_%s.lua" % prog)
            r = run(["-o", out, prog]); n += 1
            if (r.returncode == 0) != accept: fnd.report("exit-status:" + ("accepted" if accept else "rejected"), "%s: exit status %d" % (prog, r.returncode), {"main.sy": open(os.path.join(d, prog)).read()})
            if not accept and os.path.exists(out): fnd.report("file-created-on-error", "a rejected program left %s behind (%d bytes)" % (os.path.basename(out), os.path.getsize(out)), {"main.sy": PROG_BAD})
            if not accept and "error" not in (r.stdout + r.stderr).lower(): fnd.report("errors-not-printed", "rejected program printed no error", {"main.sy": PROG_BAD})
            if accept:
                r2 = run(["-o", "-", prog]); n += 1
                if r2.stdout != open(out).read(): fnd.report("stdout-differs-from-file", "%s: `-o -` and `-o FILE` give different bytes" % prog, {"main.sy": open(os.path.join(d, prog)).read()})
        # one rejected program per phase that can reject (parser, resolver, dependency order, type checker, entry point): exit status 1, an error printed, no FILE;
        # with `-o -` nothing but the report on stdout
        phases = {"syntax": "start :: fn do\n    x := ) 1\nend\n", "unresolved_name": "start :: fn do\n    print(nope)\nend\n", "initialiser_depends_on_itself": "a :: a + 1\nstart :: fn do\nend\n",
                  "initialiser_depends_on_itself_after_start": "start :: fn do\nend\ncounter :: if 1 < 2 do counter + 1 else 0 end\n", "list_contains_itself": "xs :: [xs]\nstart :: fn do\nend\n",
                  "initialiser_calls_function_of_itself": "idf :: fn v: int -> int do ret v end\ny :: idf(y)\nstart :: fn do\nend\n", "two_initialisers_in_a_cycle": "a :: b + 1\nb :: a + 1\nstart :: fn do\nend\n",
                  "cycle_with_a_definition_leading_into_it": "lead :: a + 1\na :: a * 2\nstart :: fn do\n    print(lead)\nend\n", "type_mismatch": PROG_BAD, "assignment_to_constant": "k :: 1\nstart :: fn do\n    k = 2\nend\n",
                  "no_start": "helper :: fn do\nend\n", "start_with_parameter": "start :: fn a: int do\nend\n", "duplicate_definition": "d :: 1\nd :: 2\nstart :: fn do\nend\n", "break_outside_loop": "start :: fn do\n    break\nend\n"}
        for ph, text in phases.items():
            for extra in ([], ["--no-std"]):
                pf = os.path.join(d, "ph_%s.sy" % ph); open(pf, "w").write(text); out = os.path.join(d, "ph_%s.lua" % ph)
                if os.path.exists(out): os.remove(out)
                r = run(["-o", out] + extra + [pf]); r2 = run(["-o", "-"] + extra + [pf]); n += 2
                what = None
                if r.returncode != 1 or r2.returncode != 1: what = "exit status %d (-o FILE) / %d (-o -)" % (r.returncode, r2.returncode)
                elif "error" not in (r.stdout + r.stderr).lower() or "error" not in (r2.stdout + r2.stderr).lower(): what = "no error is printed"
                elif os.path.exists(out): what = "FILE was created (%d bytes)" % os.path.getsize(out)
                elif "-- End Sylt preamble" in r2.stdout: what = "`-o -` printed a program although the exit status is 1"
                if what: fnd.report("rejected-program:%s" % ph, "a program rejected for `%s`%s: %s" % (ph.replace("_", " "), " with --no-std" if extra else "", what), {"main.sy": text}, cmd="sylt -o out.lua %smain.sy; echo $?; ls out.lua" % ("--no-std " if extra else "")); break
        # "prints every error": k independent errors planted -> each one is reported
        multi = {"three_missing_modules": ({"m.sy": "use audio\nuse video\nuse net/socket\nstart :: fn do\nend\n"}, ["audio", "video", "socket"]),
                 "missing_modules_and_syntax_error": ({"m.sy": "use audio\nuse video\nx := ) 1\nstart :: fn do\nend\n"}, ["audio", "video", "m.sy:3"]),
                 "missing_module_inside_import": ({"m.sy": "use lib\nuse gone\nstart :: fn do\nend\n", "lib.sy": "use also_gone\nv :: 1\n"}, ["gone.sy", "also_gone"]),
                 "three_syntax_errors": ({"m.sy": "a := ) 1\nb := 2\nc := ] 3\nd := } 4\nstart :: fn do\nend\n"}, ["m.sy:1", "m.sy:3", "m.sy:4"]),
                 "two_unreadable_and_one_missing": ({"m.sy": "use d1\nuse d2\nuse d3\nstart :: fn do\nend\n", "d1.sy/keep": "", "d2.sy/keep": ""}, ["d1", "d2", "d3"])}
        for name, (mfiles, needles) in multi.items():
            dd = tempfile.mkdtemp(prefix="c20m_", dir=common.SCRATCH)
            try:
                for rel, text in mfiles.items():
                    pth = os.path.join(dd, rel); os.makedirs(os.path.dirname(pth), exist_ok=True); open(pth, "w").write(text)
                r = subprocess.run([sylt, "-o", "out.lua", "m.sy"], cwd=dd, capture_output=True, text=True, timeout=60); n += 1
                outp = r.stdout + r.stderr
                missing = [x for x in needles if x not in outp]
                if r.returncode == 0 or missing: fnd.report("errors-not-all-printed:" + name, "%s: exit %d, no report mentions %s (%d independent errors planted)" % (name, r.returncode, missing, len(needles)), mfiles, cmd="sylt -o out.lua m.sy")
            finally: shutil.rmtree(dd, ignore_errors=True)
        # existing FILE: rejected program leaves it untouched; shorter program replaces it completely
        tgt = os.path.join(d, "keep.lua"); open(tgt, "w").write("-- old content\n" * 2000)
        before = open(tgt).read(); r = run(["-o", tgt, "bad.sy"]); n += 1
        if open(tgt).read() != before: fnd.report("file-touched-on-error", "a rejected program modified the existing FILE", {"main.sy": PROG_BAD})
        r = run(["-o", tgt, "ok2.sy"]); r2 = run(["-o", tgt, "ok.sy"]); ref = run(["-o", "-", "ok.sy"]); n += 3
        if open(tgt).read() != ref.stdout: fnd.report("stale-tail-in-file", "compiling a shorter program into an existing FILE does not leave exactly the new program (%d vs %d bytes)" % (os.path.getsize(tgt), len(ref.stdout)), {"v1.sy": PROG_OK2, "v2.sy": PROG_OK}, cmd="sylt -o out.lua v1.sy && sylt -o out.lua v2.sy && sylt -o - v2.sy | cmp - out.lua")
        # FILE already exists in a state related to the new output: empty, a cut-off earlier output, the output plus a tail, identical
        for state, make in (("empty", lambda o: ""), ("cut_off_earlier_output", lambda o: o[:5000]), ("output_plus_tail", lambda o: o + "-- appended\n"), ("identical", lambda o: o), ("same_length_different_bytes", lambda o: "x" * len(o))):
            pre = os.path.join(d, "pre_%s.lua" % state); open(pre, "w").write(make(ref.stdout))
            r3 = run(["-o", pre, "ok.sy"]); n += 1
            if r3.returncode != 0 or open(pre).read() != ref.stdout:
                fnd.report("existing-file-not-replaced:" + state, "FILE existed (%s): after `sylt -o FILE` (exit %d) it holds %d bytes, `-o -` prints %d" % (state.replace("_", " "), r3.returncode, os.path.getsize(pre), len(ref.stdout)), {"main.sy": PROG_OK},
                           cmd="sylt -o - main.sy > want.lua; <prepare out.lua: %s>; sylt -o out.lua main.sy; cmp want.lua out.lua" % state)
        # run mode (no -o): the interpreter is whatever `lua` is on PATH - stand-ins that succeed, fail, or do not exist
        luadir = {}
        for kind, body in (("succeeds", "#!/bin/sh\ncat > \"$LUA_CAPTURE\"\n"), ("reports_an_error", "#!/bin/sh\ncat > \"$LUA_CAPTURE\"\necho 'lua: boom' >&2\n"), ("absent", None)):
            ld = os.path.join(d, "bin_" + kind); os.makedirs(ld); luadir[kind] = ld
            if body is not None:
                lp = os.path.join(ld, "lua"); open(lp, "w").write(body); os.chmod(lp, 0o755)
        for kind in ("succeeds", "reports_an_error", "absent"):
            for prog, accept in (("ok.sy", True), ("bad.sy", False)):
                cap = os.path.join(d, "cap_%s_%s" % (kind, prog))
                env = dict(os.environ, PATH=luadir[kind] + ":/bin:/usr/bin" if kind != "absent" else luadir[kind], LUA_CAPTURE=cap)
                r = subprocess.run([sylt, prog], cwd=d, capture_output=True, text=True, timeout=60, env=env); n += 1
                want_ok = accept and kind == "succeeds"
                if (r.returncode == 0) != want_ok:
                    fnd.report("exit-status:run-mode:%s:%s" % (kind, "accepted" if accept else "rejected"), "run mode, `lua` on PATH %s, program %s: exit status %d (%s)" % (kind.replace("_", " "), "accepted" if accept else "rejected", r.returncode, (r.stdout + r.stderr).replace("\n", " ")[-160:]),
                               {"main.sy": PROG_OK if accept else PROG_BAD, "lua": "a stand-in `lua` that %s" % kind.replace("_", " ")}, cmd="PATH=<dir with that lua> sylt main.sy; echo $?")
                elif accept and kind != "absent" and (not os.path.exists(cap) or open(cap).read() != run(["-o", "-", prog]).stdout):
                    fnd.report("run-mode-program-differs", "run mode hands `lua` a program that differs from what `-o -` prints", {"main.sy": PROG_OK})
        # unwritable path
        r = run(["-o", os.path.join(d, "no_such_dir", "x.lua"), "ok.sy"]); n += 1
        if r.returncode == 0: fnd.report("exit-status:unwritable-output", "an unwritable FILE gives exit status 0", {"main.sy": PROG_OK})
        elif "panicked" in r.stderr or r.returncode != 1: fnd.report("panic:unwritable-output", "`-o no_such_dir/x.lua`: the failure to create FILE is not reported as an error, the process panics (exit %d): %s" % (r.returncode, r.stderr.replace("\n", " ")[:200]), {"main.sy": PROG_OK}, cmd="sylt -o no_such_dir/x.lua main.sy; echo $?")
        for bad_out in (".", os.path.join(d, "ok.sy", "x.lua")):          # FILE is a directory / lies below a regular file
            r2 = run(["-o", bad_out, "ok.sy"]); n += 1
            if r2.returncode == 0: fnd.report("exit-status:unwritable-output", "`-o %s` (not creatable) gives exit status 0" % os.path.basename(bad_out), {"main.sy": PROG_OK})
            elif "panicked" in r2.stderr or r2.returncode != 1: fnd.report("panic:unwritable-output", "`-o %s`: the process panics (exit %d): %s" % (bad_out.replace(d, "<dir>"), r2.returncode, r2.stderr.replace("\n", " ")[:200]), {"main.sy": PROG_OK})
        # --require: module names chosen by z3
        x = z3.String("m"); s = z3.Solver(); s.set("timeout", 10000)
        seg = z3.Plus(z3.Union(z3.Range("a", "c"), z3.Re("_")))
        lang = z3.Concat(seg, z3.Star(z3.Concat(z3.Union(z3.Re("."), z3.Re("/")), seg)), z3.Option(z3.Re(".lua")))
        s.add(z3.InRe(x, lang), z3.Length(x) <= 9)
        names = []
        for extra in ([z3.SuffixOf(z3.StringVal(".lua"), x)], [z3.Contains(x, z3.StringVal(".")), z3.Not(z3.SuffixOf(z3.StringVal(".lua"), x))], [z3.Contains(x, z3.StringVal("/"))], [z3.Contains(x, z3.StringVal(".lua."))], []):
            s.push(); s.add(extra)
            for _ in range(1 if tier == "quick" else 4):
                if stats.check(s) != z3.sat: break
                v = s.model()[x].as_string(); names.append(v); s.add(x != z3.StringVal(v))
            s.pop()
        base_out = run(["-o", "-", "ok.sy"]).stdout
        # names that are not plain identifiers: the chunk is tokenised with the Lua lexer of E-LUA; after the preamble it must read `require <string M>` followed by exactly the tokens of the chunk without --require
        from luasym import luaparse
        y = z3.String("q"); s2 = z3.Solver(); s2.set("timeout", 10000)
        anyc = z3.Union(z3.Range("a", "c"), z3.Re('"'), z3.Re("\\"), z3.Re(" "), z3.Re(";"), z3.Re("-"), z3.Re("]"), z3.Re("'"))
        s2.add(z3.InRe(y, z3.Plus(anyc)), z3.Length(y) <= 6, z3.Length(y) >= 1, z3.Not(z3.PrefixOf(z3.StringVal("-"), y)))
        odd = []
        for extra in ([z3.Contains(y, z3.StringVal('"'))], [z3.Contains(y, z3.StringVal("\\"))], [z3.SuffixOf(z3.StringVal("\\"), y)], [z3.Contains(y, z3.StringVal('";'))], [z3.Contains(y, z3.StringVal("--"))], [z3.Contains(y, z3.StringVal("]]"))], [z3.Contains(y, z3.StringVal(" "))]):
            s2.push(); s2.add(extra)
            for _ in range(1 if tier == "quick" else 4):
                if stats.check(s2) != z3.sat: break
                v = s2.model()[y].as_string(); v = v.encode().decode("unicode_escape") if "\\u{" not in v and "\\x" in v else v
                odd.append(v); s2.add(y != z3.StringVal(v))
            s2.pop()
        def _after_preamble(text):
            i = text.rfind("-- End Sylt preamble"); return None if i < 0 else text[i + len("-- End Sylt preamble"):]
        base_toks = [(k, v) for k, v, _ in luaparse.lex(_after_preamble(base_out) or "")]
        for mname in odd + ['a"; os.exit(0) --', "a\\", 'x" .. "y', "two words", "li\nne"]:
            r = run(["-o", "-", "--require", mname, "ok.sy"]); n += 1
            tail = _after_preamble(r.stdout)
            try: toks = [(k, v) for k, v, _ in luaparse.lex(tail)] if tail is not None else None
            except Exception as e: toks = ("lex error", str(e)[:80])
            if not (r.returncode == 0 and isinstance(toks, list) and toks[:2] == [("name", "require"), ("str", mname)] and toks[2:] == base_toks):
                fnd.report("require-flag:not-a-plain-name", "--require %r: after the preamble the chunk must read `require <the string M>` and then the unchanged program; got %s" % (mname, str(toks[:6] if isinstance(toks, list) else toks)[:200]),
                           {"main.sy": PROG_OK}, cmd="sylt -o - --require %r main.sy | grep -n -A1 'End Sylt preamble'" % mname)
        for mname in names + ["ext", "ext.lua", "game.ext", "a.b.lua"]:
            r = run(["-o", "-", "--require", mname, "ok.sy"]); n += 1
            exp = mname[:-4] if mname.endswith(".lua") else mname
            reqs = re.findall(r'^require "([^"]*)"', r.stdout, re.M)
            ok = r.returncode == 0 and reqs == [exp]
            if ok:
                i = r.stdout.index('require "%s"' % exp); pre_end = r.stdout.rfind("-- End Sylt preamble", 0, i)
                between = r.stdout[pre_end + len("-- End Sylt preamble"):i].strip()
                stripped = r.stdout.replace('require "%s"\n' % exp, "", 1).replace('require "%s"' % exp, "", 1)
                ok = pre_end >= 0 and between == "" and stripped.replace("\n", "") == base_out.replace("\n", "")
            if not ok: fnd.report("require-flag", "--require %s: expected exactly one `require \"%s\"` right after the preamble and nothing else changed; got requires %s" % (mname, exp, reqs), {"main.sy": PROG_OK}, cmd="sylt -o - --require %s main.sy | grep -n require" % mname)
        # the require line does not depend on what the program contains or on the other flags: programs with / without externals, with / without the bundled std, -o - and -o FILE
        progs = {"noext.sy": "start :: fn do\n    x := 1\n    x += 2\nend\n", "withext.sy": "hook: fn int -> void : external\nstart :: fn do\n    hook(1)\nend\n",
                 "imports_only.sy": "use noext\nstart :: fn do\n    noext.start()\nend\n"}
        for pn, text in progs.items(): open(os.path.join(d, pn), "w").write(text)
        for pn in progs:
            for extra in (["--no-std"], []):
                b0 = run(["-o", "-"] + extra + [pn]); r1 = run(["-o", "-", "--require", "game.ext"] + extra + [pn]); outf = os.path.join(d, "rq.lua")
                r2 = run(["-o", outf, "--require", "game.ext"] + extra + [pn]); n += 3
                want = b0.stdout.replace("-- End Sylt preamble", "-- End Sylt preamble\x00", 1)
                got = r1.stdout.replace('require "game.ext"', "\x00", 1)
                ok = b0.returncode == 0 and r1.returncode == 0 and r2.returncode == 0 and r1.stdout.count('require "game.ext"') == 1 and got.replace("\n", "") == want.replace("\n", "") and open(outf).read() == r1.stdout
                if not ok:
                    fnd.report("require-flag:program-or-flags-dependent", "`--require game.ext %s%s`: expected the chunk of the same compile without --require plus exactly one `require \"game.ext\"` right after the preamble, on stdout and in FILE alike; requires found: %d (stdout), %d (FILE)" % (" ".join(extra) + (" " if extra else ""), pn, r1.stdout.count('require "game.ext"'), open(outf).read().count('require "game.ext"') if os.path.exists(outf) else -1),
                               {"main.sy": progs[pn], "noext.sy": progs["noext.sy"]}, cmd="sylt -o - --require game.ext %s main.sy | grep -c 'require \"game.ext\"'" % " ".join(extra)); break
        # short-writing io::Write
        for k in (1, 7, 4096):
            r = subprocess.run([art["replay"], "short", "ok2.sy", str(k)], cwd=d, capture_output=True, text=True, timeout=60); n += 1
            if "equal=true" not in r.stdout: fnd.report("short-write-loses-bytes", "a writer accepting at most %d bytes per write() call receives an incomplete program: %s" % (k, r.stdout.strip()), {"main.sy": PROG_OK2}, cmd="sylt-replay short main.sy %d" % k)
        # --no-std on assert-only programs: same behaviour (E-LUA concrete)
        from luasym.luaparse import parse
        from luasym import runner
        for prog in ("ok.sy", "ok2.sy"):
            a = run(["-o", "-", prog]).stdout; b = run(["-o", "-", "--no-std", prog]).stdout; n += 2
            ra = runner.run_concrete(parse(a))[1]; rb = runner.run_concrete(parse(b))[1]
            if ra != rb: fnd.report("no-std-changes-behaviour", "%s: with std %s, with --no-std %s" % (prog, ra, rb), {"main.sy": open(os.path.join(d, prog)).read()})
        open(os.path.join(d, "fails.sy"), "w").write(PROG_FAILS)
        a = run(["-o", "-", "fails.sy"]).stdout; b = run(["-o", "-", "--no-std", "fails.sy"]).stdout; n += 2
        if runner.run_concrete(parse(a))[1] != runner.run_concrete(parse(b))[1] or runner.run_concrete(parse(a))[1][0] != "assert_failed":
            fnd.report("no-std-changes-behaviour", "failing assert program behaves differently with --no-std", {"main.sy": PROG_FAILS})
        # a program that does not use the standard library but defines a global that the bundled preamble also binds
        pre = open(common.repo_path("std/preamble.sy")).read()
        bound = re.findall(r"^\s+(\w+),", pre, re.M) + re.findall(r"^use (\w+)", pre, re.M)
        zx = z3.String("nm"); zs = z3.Solver(); zs.add(z3.Or([zx == z3.StringVal(b) for b in bound if b[0].islower()])); picks = []
        for _ in range(2 if tier == "quick" else 8):
            if stats.check(zs) != z3.sat: break
            v = zs.model()[zx].as_string(); picks.append(v); zs.add(zx != z3.StringVal(v))
        for nm in picks:
            text = "%s :: fn a: int, b: int -> int do\n    if a > b do\n        ret a\n    end\n    ret b\nend\nstart :: fn do\n    %s(1, 2) <=> 2\nend\n" % (nm, nm)
            open(os.path.join(d, "own.sy"), "w").write(text)
            a = run(["-o", "-", "own.sy"]); b = run(["-o", "-", "--no-std", "own.sy"]); n += 2
            if (a.returncode == 0) != (b.returncode == 0):
                fnd.report("no-std-changes-acceptance:user-global-named-like-a-preamble-binding", "a program that defines its own global %r (and uses nothing of std) exits %d with the bundled std and %d with --no-std: %s" % (nm, a.returncode, b.returncode, (a.stdout + a.stderr)[-160:].replace("\n", " ")), {"main.sy": text}, cmd="sylt -o - main.sy; sylt --no-std -o - main.sy")
        # stdout that cannot take the output
        try:
            with open("/dev/full", "w") as full: r = subprocess.run([sylt, "-o", "-", "ok.sy"], cwd=d, stdout=full, stderr=subprocess.PIPE, text=True, timeout=60); n += 1
            if r.returncode == 0: fnd.report("stdout-write-error-ignored", "`sylt -o - ok.sy > /dev/full` exits 0 although nothing could be written", {"main.sy": PROG_OK}, cmd="sylt -o - main.sy > /dev/full; echo $?")
        except OSError: pass
    finally: shutil.rmtree(d, ignore_errors=True)
    return n


def run(tier):
    t0 = time.time(); stats = common.SolverStats(); fnd = common.Findings("C20")
    try: kd = kdriver(stats)
    except Exception as e:
        # the driver no longer has a shape the kernel can execute (an std call without a contract stub): no verdict from the kernel, the native part still runs
        fnd.undecided("K-driver could not be executed on this tree (%s: %s)" % (type(e).__name__, str(e)[:200]))
        kd = {"paths": 0, "steps": 0, "queries": 0, "checks": [], "art": common.artifacts(need_mir=("sylt", "sylt-common", "sylt-tokenizer"), need_replay=True)}
    for c in kd["checks"]:
        if c["verdict"] == "unreached": fnd.undecided("K-driver: %s is not reached by any explored path (the obligations would be vacuous)" % c["obligation"]); continue
        if c["verdict"] != "holds": fnd.report("driver:" + re.sub(r"[^a-zA-Z ]", "", c["obligation"])[:50].strip().replace(" ", "_"), "%s: %s; events %s %s" % (c["obligation"], c["verdict"], c["events"], c.get("model", "")), {"obligation.txt": str(c)})
    try: ke = kemit(stats)
    except common.Inconclusive as e:
        fnd.undecided(str(e)); ke = {"paths": 0, "steps": 0, "checks": [], "writes": 0}
    except Exception as e:
        fnd.undecided("K-emit could not run (%s: %s)" % (type(e).__name__, str(e)[:200])); ke = {"paths": 0, "steps": 0, "checks": [], "writes": 0}
    if ke["paths"] and ke["writes"] == 0: fnd.undecided("K-emit: generate performed no write call (vacuous)")
    for c in ke["checks"]:
        if c["verdict"] != "holds": fnd.report("emitter:unchecked-short-write", "%s: %s %s" % (c["obligation"], c["verdict"], c.get("what", "")), {"obligation.txt": str(c)})
    nat = native(kd["art"], tier, stats, fnd)
    cov = {"states": max(1, kd["paths"] + ke["paths"]), "transitions": max(1, stats.queries + kd["queries"]), "traces_validated_against_impl": nat, "samples": (kd["checks"][:3] + ke["checks"][:1]) or [{"note": "none"}],
           "driver_paths": kd["paths"], "driver_obligations": len(kd["checks"]), "emitter_write_calls": ke["writes"], "mir_statements": kd["steps"] + ke["steps"], "solver": stats.as_dict(),
           "functions_encoded": ["sylt::run_file_with_reader", "sylt_compiler::lua::Generator::generate (+ its closures)", "intermediate::count_usages"],
           "bounds": {"output": ["-", "FILE"], "program_length": "1 <= L <= 2^20 (symbolic)", "emitter_program": "one small program (IR of ~60 instructions)"}, "known_findings_seen": sorted(fnd.seen_known)}
    rc = fnd.finish()
    common.write_evidence("C20", tier, "model_checking", cov, ["io::Write / std::fs / compile_with_reader_to_writer are contract stubs with symbolic outcomes; the process itself (exit code mapping in main, the `lua` child of run mode) is exercised natively only",
                          "run mode (no -o) is not encoded", "format! is opaque: buffer lengths are symbolic"], time.time() - t0, len(fnd.violations))
    print("C20: driver %d paths / %d obligations, emitter %d write calls, %d native runs, wall %.1fs" % (kd["paths"], len(kd["checks"]), ke["writes"], nat, time.time() - t0))
    return rc
