"""Shared driver for the K-tc checks (C03 C04 C05 C08 ...): templates with z3-selected positions are pushed through
the real resolver / dependency order / type checker (from MIR); for every accepted path the query
`pc AND must_reject(selectors)` has to be unsat; a model is rendered to concrete Sylt and replayed on the native
binary before it is reported. Optionally the dual direction (`must_accept`) is checked on rejected paths."""
import importlib, multiprocessing as mp, time, traceback
import z3
from vlib import common

_CTX = {}


def work(job):
    try:
        from mirsym import ktc, macros as X
        k = _CTX.get("kernel")
        if k is None: k = _CTX["kernel"] = ktc.Kernel()
        t0 = time.time()
        r = k.explore(job["text"], lit_kinds=job.get("lits"), tys=job.get("tys", ["int", "float", "str", "bool"]), ops=job.get("ops"), files=job.get("files"))
        if "error" in r: return {"name": job["name"], "status": "template_error", "why": r["error"]}
        S = r["sels"]
        I = lambda n, v: ktc.sel_is(S, n, v)
        mod = importlib.import_module(job["module"])
        spec = mod.SPECS[job["spec"]]
        must_reject = spec(S, I)
        must_accept = mod.ACCEPT_SPECS[job["spec"]](S, I) if job["spec"] in getattr(mod, "ACCEPT_SPECS", {}) else None
        acc = rej = panics = 0; cex = []; nq = 0; solver_s = 0.0; samples = []
        for pc, (kind, out) in r["paths"]:
            if kind != "ok":
                panics += 1; cex.append({"kind": "panic", "what": str(out)[:200], "assignment": _assign(r, pc, S)}); continue
            goal = must_reject if out["accepted"] else must_accept
            if out["accepted"]: acc += 1
            else: rej += 1
            if goal is None: continue
            s = z3.Solver(); s.set("timeout", 10000); s.add(r["base"]); s.add(pc); s.add(goal)
            t1 = time.time(); res = s.check(); solver_s += time.time() - t1; nq += 1
            if res == z3.sat:
                a = ktc.model_assignment(s.model(), S)
                cex.append({"kind": "accepted_mismatch" if out["accepted"] else "rejected_valid", "assignment": a, "concrete": X.render_concrete(ktc.PRELUDE + job["text"], a), "phase": out.get("phase"), "files": job.get("files")})
            elif res != z3.unsat: cex.append({"kind": "unknown"})
            if len(samples) < 2: samples.append({"pc": [str(c)[:80] for c in pc][:6], "accepted": out["accepted"], "verdict": str(res)})
        disagree = []; ndiff = 0
        for pc, (kind, out) in r["paths"]:
            if kind != "ok": continue
            a = _assign(r, pc, S)
            if not a and S: continue
            conc = X.render_concrete(ktc.PRELUDE + job["text"], a)
            ok, nout = native_accepts(k.pl.art["sylt"], conc, job.get("files")); ndiff += 1
            if not ok and "syntax error" in nout: continue      # the concrete spelling of a choice node does not parse in this context (e.g. a do-block as the only statement of a case arm): nothing to compare
            if ok != out["accepted"]: disagree.append({"assignment": a, "kernel": "accepted" if out["accepted"] else "rejected (%s)" % out.get("phase"), "native": "accepted" if ok else "rejected"})
        return {"name": job["name"], "status": "ok", "paths": len(r["paths"]), "accepted": acc, "rejected": rej, "panics": panics, "cex": cex, "queries": nq + r["queries"], "solver_s": solver_s,
                "steps": r["steps"], "wall_s": time.time() - t0, "samples": samples, "core": job.get("core", job["name"]), "placement": job.get("placement", ""), "disagree": disagree[:5], "native_differential": ndiff}
    except Exception as e:
        return {"name": job["name"], "status": "engine_error", "why": "%s: %s %s" % (type(e).__name__, str(e)[:300], traceback.format_exc()[-700:])}


def _assign(r, pc, S):
    from mirsym import ktc
    s = z3.Solver(); s.add(r["base"]); s.add(pc)
    return ktc.model_assignment(s.model(), S) if s.check() == z3.sat else {}


def native_accepts(sylt, text, files=None):
    rc, lua, out = common.compile_sy(sylt, dict({"main.sy": text}, **(files or {})), extra=["--no-std"])
    return rc == 0 and lua is not None, out


def run_check(pid, tier, jobs, t0, functions, bounds, assumptions, sig_keys=None, allow_vacuous=()):
    from mirsym import pipeline
    art = common.artifacts(need_mir=pipeline.CRATES, need_replay=True)
    with mp.get_context("fork").Pool(min(16, max(1, len(jobs)))) as pool: results = pool.map(work, jobs, chunksize=1)
    fnd = common.Findings(pid)
    tot = {"paths": 0, "accepted": 0, "rejected": 0, "queries": 0, "steps": 0, "solver_s": 0.0}; samples = []; replayed = 0
    for r in results:
        if r["status"] != "ok":
            fnd.undecided("%s: %s %s" % (r["name"], r["status"], r.get("why", "")[:400])); continue
        for k in tot: tot[k] += r.get(k, 0)
        replayed += r.get("native_differential", 0)
        for dg in r.get("disagree", []):
            fnd.undecided("%s: the front end executed from MIR says %s, the native binary %s for %s (the encoding disagrees with the implementation)" % (r["name"], dg["kernel"], dg["native"], dg["assignment"]))
        if (r["accepted"] == 0 or (r["rejected"] == 0 and not r["cex"])) and not any(r["name"].startswith(v) for v in allow_vacuous):
            fnd.undecided("vacuity: template %s has %d accepted and %d rejected paths" % (r["name"], r["accepted"], r["rejected"]))
        for c in r["cex"]:
            a = c.get("assignment", {})
            skey = ",".join("%s=%s" % kv for kv in sorted(a.items()) if not kv[0].startswith("lit") or (sig_keys and kv[0] in sig_keys))
            if c["kind"] == "accepted_mismatch":
                ok, out = native_accepts(art["sylt"], c["concrete"], c.get("files")); replayed += 1
                if ok:
                    fnd.report("accepted:%s:%s" % (r["core"], skey), "%s with %s must be rejected but is accepted (template %s)" % (r["core"], a, r["name"]), {"main.sy": c["concrete"]},
                               cmd="sylt --no-std -o out.lua main.sy   # must be rejected")
                else: fnd.undecided("%s: counterexample %s is rejected natively (encoder disagrees with the binary)" % (r["name"], a))
            elif c["kind"] == "rejected_valid":
                ok, out = native_accepts(art["sylt"], c["concrete"], c.get("files")); replayed += 1
                if not ok:
                    fnd.report("rejected:%s:%s" % (r["core"], skey), "%s with %s is valid but is rejected (template %s): %s" % (r["core"], a, r["name"], out[-200:].replace("\n", " ")), {"main.sy": c["concrete"]},
                               cmd="sylt --no-std -o out.lua main.sy   # must be accepted")
                else: fnd.undecided("%s: counterexample %s is accepted natively (encoder disagrees with the binary)" % (r["name"], a))
            elif c["kind"] == "panic":
                fnd.report("panic:%s" % r["core"], "%s: the compiler panics (%s) for %s" % (r["name"], c["what"], a), {"template.txt": r["name"]})
            else: fnd.undecided("%s: solver unknown" % r["name"])
        if len(samples) < 4: samples.append({"template": r["name"], "paths": r["paths"], "accepted": r["accepted"], "rejected": r["rejected"], "queries": r["queries"], "sample_queries": r["samples"]})
    cov = {"states": max(1, tot["paths"]), "transitions": max(1, tot["queries"]), "traces_validated_against_impl": replayed, "samples": samples or [{"note": "no template ran"}],
           "templates": len(jobs), "accepted_paths": tot["accepted"], "rejected_paths": tot["rejected"], "mir_statements": tot["steps"], "solver_s": round(tot["solver_s"], 2),
           "functions_encoded": functions, "bounds": bounds, "known_findings_seen": sorted(fnd.seen_known)}
    rc = fnd.finish()
    common.write_evidence(pid, tier, "model_checking", cov, assumptions, time.time() - t0, len(fnd.violations))
    print("%s: %d templates, %d paths (%d accepted, %d rejected), %d queries, %d native replays, wall %.1fs" % (pid, len(jobs), tot["paths"], tot["accepted"], tot["rejected"], tot["queries"], replayed, time.time() - t0))
    return rc


KTC_ASSUMPTIONS = ["tokenizer and parser run natively (REPLAY tool) to build the AST; resolver, dependency order and type checker run from the MIR dump of /repo's working tree",
                   "std models (iterators, Option/Result, Vec, BTreeMap/HashMap, String) per mirsym/models2.py and core.py; format!/bake_type opaque; find_similar_name stubbed (help text only)",
                   "templates are compiled without the bundled std (`pr` declared external in the template)",
                   "program structure is a bounded template family; the z3 selectors (literal kind, operator, declared type, arity, alternative snippet) are decided by the solver"]
KTC_FUNCTIONS = ["name_resolution::resolve", "dependency::initialization_order", "typechecker::solve (+ everything they call, executed from MIR)"]
