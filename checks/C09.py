"""C09 - names resolve lexically; consistent renaming changes nothing.
K-resolve: scope templates (every binder kind: global, parameter, block-, branch-, loop-local, case binding, closure
parameter, local function, redeclaration) are parsed natively with one placeholder identifier per occurrence; the
NAME of every local occurrence is then a z3 choice over {x, y, g} (g is also a global), so one exploration covers
"all names distinct" through "maximal shadowing". The real `name_resolution::resolve` runs from MIR; for every path
  - each use must resolve to the declaration the lexical rule selects (an If-chain over the name selectors), or the
    program must be rejected exactly when some use has no visible declaration of that name;
  - the IR (real dependency order, type checker and IR lowering from MIR) must be identical for all name choices that
    induce the same binding structure (renaming changes nothing).
Counterexamples are rendered with concrete names, compiled natively and run in E-LUA: every declaration holds a
distinct number, every use prints, so the printed numbers show which declaration each use reads."""
import multiprocessing as mp, re, time, traceback
import z3
from vlib import common

NAMES = ["x", "y", "g", "Xs"]      # two lowercase local names, the name of a global, and a capitalised local name (legal for every binder except a case binding)
G_ID = 0        # the global `g`


class B:
    """builder of one template: text with placeholders n<i>, occurrence table, scope structure for the reference"""
    def __init__(self):
        self.n = 0; self.kind = {}; self.lines = []; self.struct = None
    def occ(self, kind):
        self.n += 1; self.kind[self.n] = kind; return self.n


# structure: list of statements
#  ("decl", d, [uses in initialiser])   ("use", u)   ("assign", u)   ("block", body)   ("if", [cond uses], then, else|None)
#  ("loop1", d, [uses in initialiser]) = `loop false n := ..` (body is a single declaration)   ("loop", [cond uses], body)   ("case", d, arm, else)   ("closure", d, [param decls], body)   ("localfn", d, [param decls], body)   ("redecl", d, [uses])
def T(*s): return list(s)


def templates():
    out = []
    def mk(name, build):
        b = B(); st = build(b); out.append((name, b, st))
    mk("block_shadow", lambda b: T(("decl", b.occ("d"), []), ("block", T(("use", b.occ("u")), ("decl", b.occ("d"), [b.occ("u")]), ("use", b.occ("u")))), ("use", b.occ("u"))))
    mk("if_else_branches", lambda b: T(("decl", b.occ("d"), []), ("if", [b.occ("u")], T(("decl", b.occ("d"), []), ("use", b.occ("u"))), T(("use", b.occ("u")), ("decl", b.occ("d"), []))), ("use", b.occ("u"))))
    mk("loop_local", lambda b: T(("decl", b.occ("d"), []), ("loop", [b.occ("u")], T(("decl", b.occ("d"), [b.occ("u")]), ("use", b.occ("u")))), ("use", b.occ("u"))))
    mk("case_binding", lambda b: T(("decl", b.occ("d"), []), ("case", b.occ("d"), T(("use", b.occ("u")), ("decl", b.occ("d"), []), ("use", b.occ("u"))), T(("use", b.occ("u")))), ("use", b.occ("u"))))
    mk("case_else_local", lambda b: T(("decl", b.occ("d"), []), ("case", b.occ("d"), T(("decl", b.occ("d"), []), ("use", b.occ("u"))), T(("decl", b.occ("d"), []), ("use", b.occ("u")))), ("use", b.occ("u"))))
    mk("closure_params", lambda b: T(("decl", b.occ("d"), []), ("closure", b.occ("d"), [b.occ("d")], T(("use", b.occ("u")), ("decl", b.occ("d"), []), ("use", b.occ("u")))), ("use", b.occ("u"))))
    mk("use_before_decl", lambda b: T(("use", b.occ("u")), ("decl", b.occ("d"), [b.occ("u")]), ("use", b.occ("u")), ("redecl", b.occ("d"), [b.occ("u")]), ("use", b.occ("u"))))
    mk("local_function_recursion", lambda b: T(("localfn", b.occ("d"), [b.occ("d")], T(("use", b.occ("u")), ("use", b.occ("u")))), ("use", b.occ("u"))))
    mk("assign_targets", lambda b: T(("decl", b.occ("d"), []), ("block", T(("decl", b.occ("d"), []), ("assign", b.occ("u")))), ("assign", b.occ("u")), ("use", b.occ("u"))))
    mk("nested_three_levels", lambda b: T(("decl", b.occ("d"), []), ("block", T(("decl", b.occ("d"), []), ("if", [b.occ("u")], T(("decl", b.occ("d"), []), ("use", b.occ("u"))), None), ("use", b.occ("u")))), ("use", b.occ("u"))))
    # a loop / a branch whose body is ONE statement instead of a do-block: a local declared there ends with the loop
    mk("loop_body_is_one_declaration", lambda b: T(("decl", b.occ("d"), []), ("loop1", b.occ("d"), [b.occ("u")]), ("use", b.occ("u")), ("loop1", b.occ("d"), []), ("use", b.occ("u"))))
    # the same binder structures with a CAPITALISED local name (no case binding in these: a case binding has to be lowercase)
    mk("caps_block_shadow", lambda b: T(("decl", b.occ("d"), []), ("block", T(("use", b.occ("u")), ("decl", b.occ("d"), [b.occ("u")]), ("use", b.occ("u")))), ("use", b.occ("u"))))
    mk("caps_closure_params", lambda b: T(("decl", b.occ("d"), []), ("closure", b.occ("d"), [b.occ("d")], T(("use", b.occ("u")), ("decl", b.occ("d"), []), ("use", b.occ("u")))), ("use", b.occ("u"))))
    mk("caps_loop_and_assign", lambda b: T(("decl", b.occ("d"), []), ("loop", [b.occ("u")], T(("decl", b.occ("d"), [b.occ("u")]), ("assign", b.occ("u")))), ("assign", b.occ("u")), ("use", b.occ("u"))))
    mk("sibling_branches", lambda b: T(("if", [], T(("decl", b.occ("d"), [])), T(("use", b.occ("u")))), ("block", T(("decl", b.occ("d"), []))), ("block", T(("use", b.occ("u"))))))
    return out


def render(st, lvl, use_text="n%d"):
    I = "    " * lvl; out = []
    for s in st:
        k = s[0]
        if k in ("decl", "redecl"): out.append(I + "n%d := %d%s" % (s[1], 100 + s[1], "".join(" + n%d * 0" % u for u in s[2])))
        elif k == "use": out.append(I + "pr(n%d)" % s[1])
        elif k == "assign": out.append(I + "n%d = n%d + 1000" % (s[1], s[1]))
        elif k == "block": out += [I + "do"] + render(s[1], lvl + 1) + [I + "end"]
        elif k == "if":
            cond = " and ".join("n%d > 0" % u for u in s[1]) or "1 < 2"
            out += [I + "if %s do" % cond] + render(s[2], lvl + 1)
            if s[3] is not None: out += [I + "else"] + render(s[3], lvl + 1)
            out.append(I + "end")
        elif k == "loop1": out.append(I + "loop 1 > 2 n%d := %d%s" % (s[1], 100 + s[1], "".join(" + n%d * 0" % u for u in s[2])))
        elif k == "loop":
            out += [I + "lc%d := 0" % id(s) if False else I + "lcnt := 0", I + "loop lcnt < 1 and %s do" % (" and ".join("n%d > 0" % u for u in s[1]) or "true"), I + "    lcnt += 1"] + render(s[2], lvl + 1) + [I + "end"]
        elif k == "case":
            out += [I + "case En.A %d do" % (100 + s[1]), I + "    A n%d ->" % s[1]] + render(s[2], lvl + 2) + [I + "    end", I + "    else"] + render(s[3], lvl + 2) + [I + "    end", I + "end"]
        elif k in ("closure", "localfn"):
            ps = ", ".join("n%d: int" % p for p in s[2])
            out += [I + "n%d :: fn %s do" % (s[1], ps)] + render(s[3], lvl + 1) + [I + "end"]
            if k == "closure": out.append(I + "n%d(%s)" % (s[1], ", ".join(str(100 + p) for p in s[2])))
        else: raise ValueError(k)
    return out


def program_text(st, ext="pr"):
    body = "\n".join(render(st, 1))
    head = ("pr: fn *X -> void : external\n" if ext == "pr" else "")
    return head + "g := 100\nEn :: enum\n    A int,\n    B,\nend\nstart :: fn do\n" + body + "\nend\n"


def expected(st, name, visible=None):
    """walks the structure; returns {use id: z3 Int term = id of the declaration the lexical rule selects, -1 if none}"""
    exp = {}
    def resolve(u, vis):
        t = z3.If(name(u) == NAMES.index("g"), z3.IntVal(G_ID), z3.IntVal(-1))
        for d in vis: t = z3.If(name(u) == name(d), z3.IntVal(d), t)      # later (inner) declarations wrap earlier ones
        exp[u] = t
    def walk(body, vis):
        vis = list(vis)
        for s in body:
            k = s[0]
            if k in ("decl", "redecl"):
                for u in s[2]: resolve(u, vis)
                vis.append(s[1])
            elif k in ("use", "assign"): resolve(s[1], vis)
            elif k == "block": walk(s[1], vis)
            elif k == "if":
                for u in s[1]: resolve(u, vis)
                walk(s[2], vis)
                if s[3] is not None: walk(s[3], vis)
            elif k == "loop1":
                for u in s[2]: resolve(u, vis)
            elif k == "loop":
                for u in s[1]: resolve(u, vis)
                walk(s[2], vis)
            elif k == "case":
                walk(s[2], vis + [s[1]]); walk(s[3], vis)
            elif k in ("closure", "localfn"):
                vis.append(s[1])                       # a function value can refer to itself
                walk(s[3], vis + list(s[2]))
        return vis
    walk(st, visible or [])
    return exp


def positions(text):
    pos = {}
    for ln, line in enumerate(text.split("\n"), 1):
        for m in re.finditer(r"\bn(\d+)\b", line): pos.setdefault((ln, m.start() + 1), int(m.group(1)))
    return pos


_CTX = {}


def work(job):
    name, b, st, nnames = job
    try:
        from mirsym import core as M, pipeline as P
        pl = _CTX.get("pl")
        if pl is None: pl = _CTX["pl"] = P.Pipeline()
        text = program_text(st)
        ast0, err = pl.parse_native({"main.sy": text}, no_std=True)
        if ast0 is None: return {"name": name, "status": "template_error", "why": err[:300]}
        occ_pos = positions(text)                    # (line, col) -> occurrence id
        first_pos = {}
        for p_, i in occ_pos.items(): first_pos.setdefault(i, p_)
        sels = {i: z3.Int("name%d" % i) for i in b.kind}
        # index 0 = x, 1 = y, 2 = g ; with two names the choice is between x and g
        if nnames == "caps": base = [z3.Or(v == 2, v == 3) for v in sels.values()]           # the capitalised name against the global's name
        else: base = [z3.And(v >= 0, v < 3) for v in sels.values()] + ([v != 1 for v in sels.values()] if nnames == 2 else [])
        def sym(v):
            if isinstance(v, M.StructV):
                if v.ty == "Identifier" and isinstance(v.fields[1], str) and re.fullmatch(r"n\d+", v.fields[1]):
                    return M.StructV("Identifier", [v.fields[0], M.ChoiceV(sels[int(v.fields[1][1:])], list(NAMES))])
                return M.StructV(v.ty, [sym(x) for x in v.fields])
            if isinstance(v, M.EnumV): return M.EnumV(v.ty, v.disc, [sym(x) for x in v.fields])
            if isinstance(v, M.TupleV): return M.TupleV([sym(x) for x in v.fields])
            if isinstance(v, M.BoxV): return M.BoxV(sym(v.fields[0]))
            if isinstance(v, M.VecV): return M.VecV([sym(x) for x in v.items])
            if isinstance(v, M.MapV):
                mv = M.MapV(v.kind)
                for kr, (k, val) in v.d.items(): mv.d[kr] = [k, sym(val)]
                return mv
            return v
        ast_t = sym(ast0); ns0 = pl.namespaces(ast0)
        ex = pl.m.ex; fns = pl.m.fns
        SV = M.QENUMS[("name_resolution", "Statement")]; EX = M.QENUMS[("name_resolution", "Expression")]
        def reads(v, acc):
            if isinstance(v, M.EnumV):
                if v.ty.endswith("Expression") and v.ty.startswith("name_resolution") and EX[v.disc] == "Read": acc.append((v.fields[0], v.fields[1]))
                for x in v.fields: reads(x, acc)
            elif isinstance(v, (M.StructV, M.TupleV, M.BoxV)):
                for x in v.fields: reads(x, acc)
            elif isinstance(v, M.VecV):
                for x in v.items: reads(x, acc)
            elif isinstance(v, M.MapV):
                for k, val in v.d.values(): reads(val, acc)
        def thunk():
            a = M.deep(ast_t); n = M.deep(ns0)
            r = ex.run(fns["resolve"], [M.Ref([a], 0), M.Ref([n], 0)])
            if r.disc != 0: return {"accepted": False}
            vars_, stmts = r.fields[0].fields
            acc = []; reads(stmts, acc)
            res = {}
            for var, span in acc:
                p_ = (span.fields[1], span.fields[3])
                if p_ in occ_pos and b.kind[occ_pos[p_]] == "u":
                    dspan = vars_.items[var].fields[2]
                    dp = (dspan.fields[1], dspan.fields[3])
                    res[occ_pos[p_]] = occ_pos.get(dp, G_ID if vars_.items[var].fields[1] == "g" else -2)
            out = {"accepted": True, "uses": res}
            o = ex.run(fns["initialization_order"], [M.Ref([stmts], 0)])
            if o.disc == 0:
                items = [M.deep(x.get() if isinstance(x, M.Ref) else x) for x in o.fields[0].items]
                items.sort(key=lambda s: 0 if SV[s.disc] in ("Blob", "Enum") else 1); ss = M.VecV(items)
                s = ex.run(fns["solve"], [M.Ref([vars_], 0), M.Ref([ss], 0), M.Ref([n], 0)])
                if s.disc == 0:
                    ir = ex.run(fns["intermediate::compile"], [M.Ref([s.fields[0]], 0), M.Ref([ss], 0)])
                    out["ir"] = repr(ir)
                else: out["ir"] = "type error"
            return out
        name_of = lambda i: sels[i]
        exp = expected(st, name_of)
        ex.base = base; ex.steps = 0; ex.queries = 0
        t0 = time.time()
        res = ex.explore(thunk)
        bad = []; nq = 0; groups = {}; samples = []
        uses = [i for i, k in b.kind.items() if k == "u"]
        for pc, (kind, out) in res:
            if kind != "ok": bad.append({"kind": "panic", "what": str(out)[:200]}); continue
            s = z3.Solver(); s.set("timeout", 20000); s.add(base); s.add(pc)
            if not out["accepted"]:
                s.add(z3.And([exp[u] != -1 for u in uses])); nq += 1
                r = s.check()
                if r == z3.sat: bad.append({"kind": "rejected_but_resolvable", "names": model_names(s.model(), sels)})
                elif r != z3.unsat: bad.append({"kind": "unknown"})
                continue
            goal = z3.And([exp[u] == out["uses"].get(u, -3) for u in uses])
            s.add(z3.Not(goal)); nq += 1
            r = s.check()
            if r == z3.sat:
                mdl = s.model()
                bad.append({"kind": "wrong_binding", "names": model_names(mdl, sels), "actual": out["uses"], "expected": {u: mdl.eval(exp[u], model_completion=True).as_long() for u in uses}})
            elif r != z3.unsat: bad.append({"kind": "unknown"})
            key = tuple(sorted(out["uses"].items()))
            if "ir" in out: groups.setdefault(key, set()).add(out["ir"])
            if len(samples) < 2: samples.append({"pc": [str(c)[:40] for c in pc][:6], "uses": out["uses"], "verdict": str(r)})
        for key, irs in groups.items():
            if len(irs) > 1: bad.append({"kind": "renaming_changes_ir", "binding": dict(key)})
        return {"name": name, "status": "ok", "paths": len(res), "bad": bad, "steps": ex.steps, "queries": ex.queries + nq, "samples": samples, "binding_structures": len(groups), "wall_s": time.time() - t0}
    except Exception as e:
        return {"name": name, "status": "engine_error", "why": "%s: %s %s" % (type(e).__name__, str(e)[:300], traceback.format_exc()[-600:])}


def model_names(mdl, sels):
    return {i: NAMES[mdl.eval(v, model_completion=True).as_long()] for i, v in sels.items()}


def native_prints(sylt, st, names):
    """compile the concrete renaming with the native compiler, run the chunk concretely: (accepted, [printed ints])"""
    from luasym.luaparse import parse, LuaSyntaxError
    from luasym import runner
    text = program_text(st, ext="print").replace("pr(", "print(")
    text = re.sub(r"\bn(\d+)\b", lambda m: names[int(m.group(1))], text)
    rc, lua, out = common.compile_sy(sylt, {"main.sy": text})
    if rc != 0 or lua is None: return False, [], text
    events, outcome, it = runner.run_concrete(parse(lua))
    vals = [e[1][1] if e[1][0] == "int" else None for e in events if e[0] == "print"]
    return True, vals, text


def expected_concrete(st, names):
    """reference under concrete names: list of expected printed values in execution order, or None if some use is unresolvable"""
    nm = lambda i: z3.IntVal(NAMES.index(names[i]))
    exp = expected(st, nm)
    return {u: z3.simplify(t).as_long() for u, t in exp.items()}


def name_class_cases(sylt, fnd):
    """a local binder whose name is also the name of something of another class visible in the file (an imported namespace,
    a blob type, an enum, a global function): renaming the local to a fresh name must not change what the program prints"""
    from luasym.luaparse import parse
    from luasym import runner
    files = {"other.sy": "x :: 100\nhelper :: fn -> int do ret 7 end\n"}
    head = "use other\nuse other as alias\nPoint :: blob {\n    x: int,\n}\nglob :: fn -> int do ret 5 end\n"
    bodies = {"field_of_local": "    NAME :: Point { x: 1 }\n    print(NAME.x)\n    print(NSREF.x)\n",
              "local_in_closure": "    NAME := Point { x: 2 }\n    c :: fn -> int do ret NAME.x end\n    print(c())\n",
              "parameter": "    f :: fn NAME: Point -> int do ret NAME.x end\n    print(f(Point { x: 3 }))\n",
              "assign_field": "    NAME := Point { x: 4 }\n    NAME.x = 5\n    print(NAME.x)\n    print(NSREF.x)\n"}
    n = 0
    for bname, body in bodies.items():
        outs = {}
        for nm in ("fresh_q", "other", "alias", "glob"):
            body = bodies[bname].replace("NSREF", "alias" if nm == "other" else "other")      # a handle on the namespace that the local does not shadow
            text = head + "start :: fn do\n" + body.replace("NAME", nm) + "end\n"
            rc, lua, out = common.compile_sy(sylt, dict(files, **{"main.sy": text})); n += 1
            if rc != 0 or lua is None: outs[nm] = ("rejected", out[-200:].replace("\n", " ")); continue
            events, outcome, it = runner.run_concrete(parse(lua))
            outs[nm] = ("prints", [e[1] for e in events if e[0] == "print"], outcome[0])
        base = outs["fresh_q"]
        for nm, o in outs.items():
            if o[0] == "prints" and base[0] == "prints" and o != base:
                fnd.report("renaming-changes-behaviour:local-named-like-%s" % {"other": "namespace", "alias": "namespace-alias", "glob": "global-function"}[nm],
                           "%s: with the local named %r the program prints %s, with a fresh name %s" % (bname, nm, o[1:], base[1:]), dict(files, **{"main.sy": head + "start :: fn do\n" + body.replace("NAME", nm) + "end\n", "renamed.sy": head + "start :: fn do\n" + body.replace("NAME", "fresh_q") + "end\n"}),
                           cmd="sylt -o a.lua main.sy; sylt -o b.lua renamed.sy   # both accepted; run both")
    # locals declared inside the initialiser of a GLOBAL (in a branch / arm / block of an if-, case- or block-expression outside every function):
    # they are locals of that branch, whatever they are called - also when a global of the same name exists
    ghead = "n :: 5\nflag :: true\nEn :: enum\n    A int,\n    B,\nend\nglob :: fn -> int do ret 5 end\n"
    gbodies = {"if_branch": "limit :: if flag do\n    NAME := 10\n    NAME * 2\nelse\n    0\nend\n",
               "else_branch": "limit :: if not flag do\n    0\nelse\n    NAME :: 7\n    NAME + 1\nend\n",
               "case_arm": "limit :: case En.A 4 do\n    A v ->\n        NAME := v\n        NAME + 1\n    end\n    else 0 end\nend\n",
               "nested_if_in_list": "limit :: [if flag do\n    NAME := 3\n    NAME\nelse\n    0\nend, 1]\n",
               "mutable_global": "limit := if flag do\n    NAME := 10\n    NAME = NAME + 1\n    NAME\nelse\n    0\nend\n"}
    for bname, gb in gbodies.items():
        outs = {}
        for nm in ("fresh_q", "n", "glob", "limit2"):
            text = ghead + gb.replace("NAME", nm) + "limit2 :: 1\nstart :: fn do\n    print(limit)\n    print(n)\n    print(glob())\n    print(limit2)\nend\n"
            rc, lua, out = common.compile_sy(sylt, {"main.sy": text}); n += 1
            if rc != 0 or lua is None: outs[nm] = ("rejected", out[-200:].replace("\n", " "), text); continue
            events, outcome, it = runner.run_concrete(parse(lua))
            outs[nm] = ("prints", [e[1] for e in events if e[0] == "print"], outcome[0], text)
        base = outs["fresh_q"]
        if base[0] != "prints":
            fnd.report("unresolved-visible-local:local-in-a-global-initialiser(%s)" % bname, "%s: a local declared in a branch of a global's initialiser and used by the next statement of that branch does not resolve: %s" % (bname, base[1]),
                       {"main.sy": base[-1]}, cmd="sylt -o a.lua main.sy   # must be accepted")
            continue
        for nm, o in outs.items():
            if o[:-1] != base[:-1]:
                fnd.report("renaming-changes-behaviour:local-in-a-global-initialiser(%s)-named-like-%s" % (bname, {"n": "a-constant-global", "glob": "a-global-function", "limit2": "a-later-global"}.get(nm, nm)),
                           "%s: with the branch-local named %r the program %s, with a fresh name it %s" % (bname, nm, o[:-1], base[:-1]), {"main.sy": o[-1], "renamed.sy": base[-1]},
                           cmd="sylt -o a.lua main.sy; sylt -o b.lua renamed.sy   # run both")
    # the scope of a local starts after its initialiser (except for a lambda, which may call itself), whatever its annotation
    head2 = "twice :: fn g: fn int -> int -> fn int -> int do\n    ret fn n: int -> int do ret g(g(n)) end\nend\nidt :: fn v: (int, int) -> (int, int) do ret v end\nsucc :: fn v: int -> int do ret v + 1 end\n"
    shadow = {"fn_annotated": ("    f := fn n: int -> int do ret n + 1 end\n    do\n        NAME: fn int -> int = twice(f)\n        print(NAME(1))\n    end\n    print(f(1))\n", "f"),
              "fn_unannotated": ("    f := fn n: int -> int do ret n + 1 end\n    do\n        NAME := twice(f)\n        print(NAME(1))\n    end\n", "f"),
              "int_annotated": ("    v := 5\n    do\n        NAME: int = succ(v)\n        print(NAME)\n    end\n    print(v)\n", "v"),
              "tuple_annotated": ("    v := (1, 2)\n    do\n        NAME: (int, int) = idt(v)\n        print(NAME)\n    end\n", "v"),
              "constant_fn_annotated": ("    f :: fn n: int -> int do ret n + 1 end\n    do\n        NAME: fn int -> int : twice(f)\n        print(NAME(1))\n    end\n", "f")}
    for bname, (body, outer) in shadow.items():
        outs = {}
        for nm in ("fresh_q", outer):
            text = head2 + "start :: fn do\n" + body.replace("NAME", nm) + "end\n"
            rc, lua, out = common.compile_sy(sylt, {"main.sy": text}); n += 1
            if rc != 0 or lua is None: outs[nm] = ("rejected", out[-200:].replace("\n", " ")); continue
            events, outcome, it = runner.run_concrete(parse(lua)); outs[nm] = ("prints", [e[1] for e in events if e[0] == "print"], outcome[0])
        if outs["fresh_q"][0] != "prints": fnd.undecided("declaration-point case %s is rejected with a fresh name: %s" % (bname, outs["fresh_q"][1]))
        elif outs[outer] != outs["fresh_q"]:
            fnd.report("renaming-changes-behaviour:initialiser-sees-own-binder(%s)" % bname, "%s: naming the inner local %r (shadowing the outer one its initialiser uses) gives %s, a fresh name gives %s" % (bname, outer, outs[outer][1:], outs["fresh_q"][1:]),
                       {"main.sy": head2 + "start :: fn do\n" + body.replace("NAME", outer) + "end\n"})
        # without an outer binder the mention in the initialiser is a use before declaration
        text = head2 + "start :: fn do\n" + body.split("do\n", 1)[1].replace("NAME", outer) if False else None
    for bname, line in {"fn_annotated": "    h: fn int -> int = twice(h)\n", "int_annotated": "    h: int = succ(h)\n", "unannotated": "    h := succ(h)\n", "constant_fn_annotated": "    h: fn int -> int : twice(h)\n"}.items():
        rc, lua, out = common.compile_sy(sylt, {"main.sy": head2 + "start :: fn do\n" + line + "end\n"}); n += 1
        if rc == 0: fnd.report("accepted-unresolvable:own-initialiser(%s)" % bname, "%s: a local used in its own (non-lambda) initialiser is accepted" % line.strip(), {"main.sy": head2 + "start :: fn do\n" + line + "end\n"})
    # `self` is a binder too: it is in scope inside a method literal only, not in the other fields of the same literal
    sh = "Inner :: blob {\n    get: fn -> int,\n    me: int,\n}\nOuter :: blob {\n    id: int,\n    make: fn -> Inner,\n}\n"
    inner_a = "Inner { get: fn -> int do ret 1 end, me: self.id }"; inner_b = "Inner { me: self.id, get: fn -> int do ret 1 end }"
    outs = []
    for inner in (inner_a, inner_b):
        text = sh + "start :: fn do\n    o := Outer { id: 7, make: fn -> Inner do\n        ret %s\n    end }\n    print(o.make().me)\n    print(o.make().get())\nend\n" % inner
        rc, lua, out = common.compile_sy(sylt, {"main.sy": text}); n += 1
        if rc != 0 or lua is None: outs.append(("rejected", out[-160:].replace("\n", " "), text)); continue
        events, outcome, it = runner.run_concrete(parse(lua)); outs.append(("prints", [e[1] for e in events if e[0] == "print"], text))
    if outs[0][:2] != outs[1][:2] or outs[0][0] != "prints" or outs[0][1][:1] != [("int", 7)]:
        fnd.report("self-scope:field-after-method", "`self` in a non-method field of a blob literal inside a method must be the enclosing method's instance whatever the order of the fields: method first gives %s, method last gives %s" % (outs[0][:2], outs[1][:2]), {"method_first.sy": outs[0][2], "method_last.sy": outs[1][2]})
    # function literals inside a list / tuple stored in a field are not methods either: `self` there is the enclosing method's instance
    sh2 = "Inner :: blob {\n    hs: [fn -> int],\n    pr2: (fn -> int, int),\n}\nOuter :: blob {\n    id: int,\n    make: fn -> Inner,\n}\n"
    text = sh2 + "start :: fn do\n    o := Outer { id: 7, make: fn -> Inner do\n        ret Inner { hs: [fn -> int do ret self.id end], pr2: (fn -> int do ret self.id + 1 end, 0) }\n    end }\n    i := o.make()\n    i.hs -> for_each(fn f: fn -> int do print(f()) end)\n    q := i.pr2\n    print(q[0]())\nend\n"
    rc, lua, out = common.compile_sy(sylt, {"main.sy": text}); n += 1
    if rc != 0 or lua is None: fnd.report("self-scope:function-literals-inside-a-collection-field", "`self` inside a list / tuple of function literals in a field of a blob literal (written inside a method of an outer blob) is the outer instance; the program is rejected: %s" % out[-200:].replace("\n", " "), {"main.sy": text})
    else:
        events, outcome, it = runner.run_concrete(parse(lua)); got = [e[1] for e in events if e[0] == "print"]
        if got != [("int", 7), ("int", 8)]: fnd.report("self-scope:function-literals-inside-a-collection-field", "`self` inside a list / tuple of function literals in a field must be the enclosing method's instance (prints 7, 8); got %s" % (got,), {"main.sy": text})
    for inner in (inner_a, inner_b):
        text = sh + "start :: fn do\n    i := %s\n    print(i.me)\nend\n" % inner.replace("self.id", "self.me")
        rc, lua, out = common.compile_sy(sylt, {"main.sy": text}); n += 1
        if rc == 0: fnd.report("accepted-unresolvable:self-outside-a-method", "`self` in a non-method field of a blob literal that is not inside any method is accepted", {"main.sy": text})
    return n


def run(tier):
    t0 = time.time()
    from mirsym import pipeline
    art = common.artifacts(need_mir=pipeline.CRATES, need_replay=True)
    jobs = templates()
    wjobs = [(n_, b_, st_, "caps" if n_.startswith("caps_") else (3 if (tier != "quick" and len(b_.kind) <= 6) else 2)) for n_, b_, st_ in jobs]
    with mp.get_context("fork").Pool(min(16, len(jobs))) as pool: results = pool.map(work, wjobs, chunksize=1)
    fnd = common.Findings("C09"); tot = {"paths": 0, "steps": 0, "queries": 0}; samples = []; replayed = 0
    by = {j[0]: j for j in jobs}
    for r in results:
        if r["status"] != "ok": fnd.undecided("%s: %s %s" % (r["name"], r["status"], r.get("why", "")[:400])); continue
        for k in tot: tot[k] += r[k]
        _, b, st = by[r["name"]]
        for x in r["bad"]:
            if x["kind"] in ("wrong_binding", "rejected_but_resolvable"):
                names = x["names"]; ok, vals, text = native_prints(art["sylt"], st, names); replayed += 1
                exp = expected_concrete(st, names)
                should_accept = all(v != -1 for v in exp.values())
                if x["kind"] == "rejected_but_resolvable" and not ok and should_accept:
                    fnd.report("rejected-resolvable:" + r["name"], "names %s: every use has a visible declaration but the program is rejected" % names, {"main.sy": text})
                elif x["kind"] == "wrong_binding" and ok:
                    fnd.report("wrong-binding:" + r["name"], "names %s: uses bind to %s, the lexical rule gives %s (native run prints %s)" % (names, x["actual"], x["expected"], vals), {"main.sy": text})
                else: fnd.undecided("%s: counterexample %s did not reproduce natively" % (r["name"], names))
            elif x["kind"] == "renaming_changes_ir": fnd.report("renaming-changes-ir:" + r["name"], "two name choices with the same binding structure %s give different IR" % x["binding"], {"template.txt": program_text(st)})
            elif x["kind"] == "panic": fnd.report("panic:" + r["name"], x["what"], {"template.txt": program_text(st)})
            else: fnd.undecided("%s: solver unknown" % r["name"])
        if len(samples) < 4: samples.append({"template": r["name"], "paths": r["paths"], "binding_structures": r["binding_structures"], "sample_queries": r["samples"]})
    # validation of the reference itself: concrete renamings through the native compiler + E-LUA
    import random
    rnd = random.Random(common.seed()); val = 0
    for name, b, st in jobs:
        for _ in range(2 if tier == "quick" else 12):
            pool = ["Xs", "g"] if name.startswith("caps_") else NAMES[:3]
            names = {i: rnd.choice(pool[:2] if rnd.random() < 0.7 else pool) for i in b.kind}
            exp = expected_concrete(st, names); ok, vals, text = native_prints(art["sylt"], st, names); val += 1
            if ok != all(v != -1 for v in exp.values()):
                fnd.report(("accepted-unresolvable:" if ok else "rejected-resolvable:") + name, "names %s: reference says %s, native compiler %s" % (names, "resolvable" if not ok else "some use unresolvable", "accepts" if ok else "rejects"), {"main.sy": text})
    val += name_class_cases(art["sylt"], fnd)
    cov = {"states": max(1, tot["paths"]), "transitions": max(1, tot["queries"]), "traces_validated_against_impl": replayed + val, "samples": samples or [{"note": "none"}], "templates": len(jobs), "mir_statements": tot["steps"],
           "functions_encoded": ["name_resolution::resolve (Resolver::*)", "dependency::initialization_order", "typechecker::solve", "intermediate::compile"],
           "bounds": {"names": NAMES, "occurrences_per_template": "<= 9", "scope_templates": [j[0] for j in jobs]}, "known_findings_seen": sorted(fnd.seen_known)}
    rc = fnd.finish()
    common.write_evidence("C09", tier, "model_checking", cov, ["tokenizer/parser run natively; one placeholder identifier per occurrence, names replaced by z3 choices afterwards",
                          "find_similar_name (help text) stubbed; std models per mirsym", "globals keep fixed names (g, start, En, pr); duplicate globals are not part of these templates"], time.time() - t0, len(fnd.violations))
    print("C09: %d templates, %d paths, %d queries, %d native runs, wall %.1fs" % (len(jobs), tot["paths"], tot["queries"], replayed + val, time.time() - t0))
    return rc
