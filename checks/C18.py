"""C18 - standard-library containers and helpers meet their contracts.
Driver programs whose operation codes and arguments are holes are compiled by the real compiler (std/*.sy bundled)
and executed symbolically on preamble.lua; the reference is a plain list / association-list / Maybe model
(syltsem/stdmodel.py). The solver decides every operation sequence of the stated length and every argument value."""
import time
from vlib import common
from checks import tvrun

ELEM = {
    "int": {"ty": "int", "v": lambda k: "?x%d" % k, "lits": ["1", "2"], "dom": (0, 2), "pred": "pu v: int -> bool do v > 0 end", "mapf": "pu v: int -> int do v + 10 end",
            "foldf": "pu v: int, acc: int -> int do acc * 3 + v end", "init": "0"},
    "str": {"ty": "str", "v": lambda k: "?s%d:str" % k, "lits": ['"a"', '"b"'], "dom": None, "pred": 'pu v: str -> bool do v != "a" end', "mapf": 'pu v: str -> str do v + "!" end',
            "foldf": 'pu v: str, acc: str -> str do acc + v end', "init": '""'},
    "tup": {"ty": "(int, int)", "v": lambda k: "(?x%d, 1)" % k, "lits": ["(1, 1)", "(2, 1)"], "dom": (0, 2), "pred": "pu v: (int, int) -> bool do v[0] > 0 end",
            "mapf": "pu v: (int, int) -> (int, int) do v + (1, 1) end", "foldf": "pu v: (int, int), acc: (int, int) -> (int, int) do acc + v end", "init": "(0, 0)"},
}

LIST_STEP = '''
step :: fn l: [T], op: int, x: T, i: int do
    if op == 0 do l -> list.push(x)
    elif op == 1 do l -> list.prepend(x)
    elif op == 2 do print(l -> list.pop())
    elif op == 3 do print(l -> list.get(i))
    elif op == 4 do l -> list.set(i, x)
    elif op == 5 do print(l -> list.len())
    elif op == 6 do print(l -> list.last())
    elif op == 7 do print(l -> list.contains(x))
    elif op == 8 do print(l -> list.find(PRED))
    elif op == 9 do print(l -> map(MAPF))
    elif op == 10 do print(l -> filter(PRED))
    elif op == 11 do print(l -> fold(INIT, FOLDF))
    elif op == 12 do print((l -> list.get(i)) == Maybe.None)
    elif op == 13 do print((l -> list.pop()) == (Maybe.Just x))
    else print(l)
    end
end
'''
DICT_STEP = '''
step :: fn d: dict.Dict(T, int), op: int, k: T, v: int do
    if op == 0 do d -> dict.update(k, v)
    elif op == 1 do d -> dict.remove(k)
    elif op == 2 do print(d -> dict.get(k))
    elif op == 3 do print(d -> dict.len())
    elif op == 4 do print(d -> dict.contains_key(k))
    elif op == 5 do print((d -> dict.get(k)) == Maybe.None)
    else print((d -> dict.get(k)) == (Maybe.Just v))
    end
end
'''
SET_STEP = '''
step :: fn s: set.Set(T), op: int, k: T do
    if op == 0 do s -> set.add(k)
    elif op == 1 do s -> set.remove(k)
    elif op == 2 do print(s -> set.contains(k))
    else print(s -> set.len())
    end
end
'''


def templates(tier):
    import itertools
    out = []
    depth = 1 if tier == "quick" else 3
    for en, e in ELEM.items():
        ty = e["ty"]
        # ---- lists: a concrete prefix of mutators (arguments symbolic), then one fully symbolic operation
        step = LIST_STEP.replace("PRED", e["pred"]).replace("MAPF", e["mapf"]).replace("FOLDF", e["foldf"]).replace("INIT", e["init"]).replace(": T", ": " + ty).replace("[T]", "[%s]" % ty)
        for start in ("[%s]" % e["lits"][0], "[]"):
            for k in range(0, depth + 1):
                for prefix in itertools.product((0, 1, 2, 4), repeat=k):
                    n = k + 1
                    calls = []; dom = {}
                    for j, op in enumerate(prefix, 1):
                        calls.append("    step(l, %d, %s, ?i%d - 1)" % (op, e["v"](j), j)); dom["i%d" % j] = (0, 3)
                        if e["dom"]: dom["x%d" % j] = e["dom"]
                    calls.append("    step(l, ?op, %s, ?i%d - 1)" % (e["v"](n), n)); dom["op"] = (0, 14); dom["i%d" % n] = (0, 3)
                    if e["dom"]: dom["x%d" % n] = e["dom"]
                    text = step + "start :: fn do\n    l: [%s] = %s\n%s\n    print(l)\n    print(l -> list.len())\n    print(l -> fold(%s, %s))\nend\n" % (ty, start, "\n".join(calls), e["init"], e["foldf"])
                    out.append({"name": "list_%s_%s_%s" % (en, "e" if start == "[]" else "1", "".join(map(str, prefix)) or "_"),
                                "role": "list-operation-sequences(%s)" % en, "text": text, "dom": dom})
        # ---- dicts
        step = DICT_STEP.replace("Dict(T,", "Dict(%s," % ty).replace("k: T", "k: " + ty)
        for k in range(0, depth + 1):
            for prefix in itertools.product((0, 1), repeat=k):
                n = k + 1; calls = []; dom = {}
                for j, op in enumerate(prefix, 1):
                    calls.append("    step(d, %d, %s, ?v%d)" % (op, e["v"](j), j)); dom["v%d" % j] = (0, 2)
                    if e["dom"]: dom["x%d" % j] = e["dom"]
                calls.append("    step(d, ?op, %s, ?v%d)" % (e["v"](n), n)); dom["op"] = (0, 6); dom["v%d" % n] = (0, 2)
                if e["dom"]: dom["x%d" % n] = e["dom"]
                text = step + "start :: fn do\n    d := dict.from_list([(%s, 7)])\n%s\n    print(d -> dict.len())\n    print(d -> dict.get(%s))\n    print(d -> dict.get(%s))\nend\n" % (e["lits"][0], "\n".join(calls), e["lits"][0], e["lits"][1])
                out.append({"name": "dict_%s_%s" % (en, "".join(map(str, prefix)) or "_"), "role": "dict-operation-sequences(%s)" % en, "text": text, "dom": dom})
        # ---- sets
        step = SET_STEP.replace("Set(T)", "Set(%s)" % ty).replace("k: T", "k: " + ty)
        for k in range(0, depth + 1):
            for prefix in itertools.product((0, 1), repeat=k):
                n = k + 1; calls = []; dom = {}
                for j, op in enumerate(prefix, 1):
                    calls.append("    step(s, %d, %s)" % (op, e["v"](j)))
                    if e["dom"]: dom["x%d" % j] = e["dom"]
                calls.append("    step(s, ?op, %s)" % e["v"](n)); dom["op"] = (0, 3)
                if e["dom"]: dom["x%d" % n] = e["dom"]
                text = step + "start :: fn do\n    s := set.from_list([%s, %s])\n%s\n    print(s -> set.len())\n    print(s -> set.contains(%s))\n    print(s -> set.contains(%s))\nend\n" % (e["lits"][0], e["lits"][0], "\n".join(calls), e["lits"][0], e["lits"][1])
                out.append({"name": "set_%s_%s" % (en, "".join(map(str, prefix)) or "_"), "role": "set-operation-sequences(%s)" % en, "text": text, "dom": dom})
    # ---- independence: containers built from one source value (or from each other) share no state - operations on one are
    # never seen through another or through the source list
    for en, e in ELEM.items():
        ty = e["ty"]; k1, k2 = e["lits"]
        nops = 1 if tier == "quick" else 2
        dstep = DICT_STEP.replace("Dict(T,", "Dict(%s," % ty).replace("k: T", "k: " + ty)
        calls = []; dom = {}
        for j in range(1, nops + 1):
            calls.append("    step(a, ?op%d, %s, ?v%d)" % (j, e["v"](j), j)); dom["op%d" % j] = (0, 6); dom["v%d" % j] = (0, 2)
            if e["dom"]: dom["x%d" % j] = e["dom"]
        obs = "\n".join("    print(%s -> dict.get(%s))" % (d, k) for d in "ab" for k in (k1, k2)) + "\n    print(a -> dict.len())\n    print(b -> dict.len())\n    print(src)\n    print(src -> list.len())\n    print(src -> list.get(0))\n"
        out.append({"name": "independent_dicts_from_one_list_" + en, "role": "containers-built-from-one-source-are-independent(dict,%s)" % en, "dom": dom,
                    "text": dstep + "start :: fn do\n    src := [(%s, 7), (%s, 8)]\n    a := dict.from_list(src)\n    b := dict.from_list(src)\n%s\n%s    src -> list.push((%s, 9))\n    src -> list.set(0, (%s, 5))\n    print(a -> dict.get(%s))\n    print(b -> dict.len())\nend\n"
                            % (k1, k2, "\n".join(calls), obs, k2, k2, k1)})
        sstep = SET_STEP.replace("Set(T)", "Set(%s)" % ty).replace("k: T", "k: " + ty)
        calls = []; dom = {}
        for j in range(1, nops + 1):
            calls.append("    step(a, ?op%d, %s)" % (j, e["v"](j))); dom["op%d" % j] = (0, 3)
            if e["dom"]: dom["x%d" % j] = e["dom"]
        out.append({"name": "independent_sets_from_one_list_" + en, "role": "containers-built-from-one-source-are-independent(set,%s)" % en, "dom": dom,
                    "text": sstep + "start :: fn do\n    src := [%s, %s]\n    a := set.from_list(src)\n    b := set.from_list(src)\n%s\n    print(a -> set.len())\n    print(b -> set.len())\n    print(b -> set.contains(%s))\n    print(b -> set.contains(%s))\n    print(src)\n    src -> list.pop()\n    print(b -> set.len())\n    print(a -> set.contains(%s))\n    c := a -> set.map(pu v: %s -> %s do v end)\n    c -> set.add(%s)\n    c -> set.remove(%s)\n    print(a -> set.contains(%s))\n    print(a -> set.contains(%s))\n    print(a -> set.len())\nend\n"
                            % (k1, k2, "\n".join(calls), k1, k2, k2, ty, ty, k1, k2, k1, k2)})
        lstep = LIST_STEP.replace("PRED", e["pred"]).replace("MAPF", e["mapf"]).replace("FOLDF", e["foldf"]).replace("INIT", e["init"]).replace(": T", ": " + ty).replace("[T]", "[%s]" % ty)
        calls = []; dom = {}
        for j in range(1, nops + 1):
            calls.append("    step(m, ?op%d, %s, ?i%d - 1)" % (j, e["v"](j), j)); dom["op%d" % j] = (0, 14); dom["i%d" % j] = (0, 3)
            if e["dom"]: dom["x%d" % j] = e["dom"]
        out.append({"name": "independent_lists_from_one_list_" + en, "role": "containers-built-from-one-source-are-independent(list,%s)" % en, "dom": dom,
                    "text": lstep + "start :: fn do\n    l: [%s] = [%s, %s]\n    m := l -> map(pu v: %s -> %s do v end)\n    f := l -> filter(pu v: %s -> bool do true end)\n%s\n    print(l)\n    print(f)\n    print(m)\n    l -> list.push(%s)\n    f -> list.pop()\n    print(l)\n    print(f)\n    print(m)\nend\n"
                            % (ty, k1, k2, ty, ty, ty, "\n".join(calls), k1)})
    out.append({"name": "maybe_helpers", "role": "maybe-helpers", "dom": {"a": (0, 3), "k": (0, 1)}, "text": '''
start :: fn do
    m := if ?k > 0 do Maybe.Just ?a else Maybe.None end
    print(m)
    print(maybe.isJust(m))
    print(maybe.isNone(m))
    print(maybe.orDefault(m, 9))
    print(maybe.map(m, pu v: int -> int do v + 1 end))
    print(maybe.andThen(m, pu v: int -> Maybe(int) do if v > 1 do Maybe.Just v * 2 else Maybe.None end end))
    print(maybe.flatten(Maybe.Just m))
    print(m == Maybe.None)
    print(m == (Maybe.Just 2))
    l := [1, 2]
    print((l -> list.get(?a)) == m)
    case l -> list.get(?a) do
        Just v -> print(v) end
        None -> print("none") end
    end
end
'''})
    out.append({"name": "set_map_result_is_a_set", "role": "set-map", "dom": {"a": (0, 3), "b": (0, 3)}, "text": '''
start :: fn do
    s := set.from_list([?a, ?b, 1])
    t := s -> set.map(pu x: int -> int do x * 2 end)
    print(t -> set.len())
    print(t -> set.contains(?a * 2))
    print(t -> set.contains(3))
    print(t == set.from_list([?a * 2, ?b * 2, 2]))
    print(set.from_list([?a * 2, ?b * 2, 2]) == t)
    t -> set.add(7)
    print(t -> set.len())
    one := set.from_list([5]) -> set.map(pu x: int -> int do x + 1 end)
    print(one)
    n := 0
    t -> set.for_each(fn x: int do n = n + x end)
    print(n)
end
'''})
    out.append({"name": "composite_keys_with_equal_printed_form", "role": "dict-and-set-keys-are-tostring", "dom": {"a": (0, 3)}, "text": '''
start :: fn do
    d := dict.from_list([(("a, b", "c"), ?a), (("a", "b, c"), 2)])
    print(d -> dict.len())
    print(d -> dict.get(("a, b", "c")))
    s := set.from_list([("a, b", "c"), ("a", "b, c")])
    print(s -> set.len())
end
'''})
    out.append({"name": "containers_holding_falsy_values", "role": "falsy-elements-and-values(false, 0, empty string)", "dom": {"a": (0, 2)}, "text": '''
start :: fn do
    l := [false, ?a > 0]
    print(l -> list.get(0))
    print(l -> list.get(1))
    print(l -> list.last())
    print(maybe.orDefault(l -> list.get(0), true))
    print(l -> list.find(pu v: bool -> bool do not v end))
    print(l -> list.pop())
    print(l -> list.pop())
    print(l -> list.pop())
    print(l -> list.len())
    d := dict.from_list([(1, false), (2, ?a > 1)])
    print(d -> dict.get(1))
    print(d -> dict.get(2))
    print(d -> dict.contains_key(1))
    print(d -> dict.contains_key(2))
    print(d -> dict.get(3))
    print((d -> dict.get(1)) == (Maybe.Just false))
    z := [0, ?a]
    print(z -> list.get(0))
    print(z -> list.get(1))
    e := ["", "x"]
    print(e -> list.get(0))
    dz := dict.from_list([("", 0)])
    print(dz -> dict.get(""))
    print(dz -> dict.contains_key(""))
end
'''})
    out.append({"name": "list_hetero_callbacks", "role": "list-callbacks-with-different-element-and-result-types", "dom": {"a": (0, 3), "b": (0, 3)}, "text": '''
start :: fn do
    l := [?a, ?b, 2]
    print(l -> fold("", pu v: int, acc: str -> str do acc + as_str(v) + "," end))
    print(l -> map(pu v: int -> str do as_str(v) + "!" end))
    print(l -> map(pu v: int -> (int, bool) do (v, v > 1) end))
    print(["a", "bb"] -> fold(0, pu v: str, acc: int -> int do acc * 10 + 1 end))
    print(l -> list.find(pu v: int -> bool do v > 1 end))
    n := 0
    l -> for_each(fn v: int do n = n * 10 + v end)
    print(n)
end
'''})
    # library functions called from inside the callback of a library function (the same one, or another): every call has its own state
    out.append({"name": "list_nested_callbacks", "role": "list-operations-re-entered-from-their-own-callbacks", "dom": {"a": (0, 3), "b": (0, 3)}, "text": '''
start :: fn do
    xs :: [2, 3, ?a + 4, 7]
    ys :: [?b + 4, 9, 10, 6]
    has_multiple :: pu x: int -> bool do
        ret (ys -> filter(pu y: int -> bool do div(y, x) * x == y end)) != []
    end
    print(xs -> filter(has_multiple))
    print(xs -> filter(pu x: int -> bool do not has_multiple(x) end))
    print(xs -> map(pu x: int -> [int] do ys -> map(pu y: int -> int do x * y end) end))
    print(xs -> fold(0, pu x: int, acc: int -> int do acc + (ys -> fold(0, pu y: int, a2: int -> int do a2 + x * y end)) end))
    print(xs -> filter(pu x: int -> bool do (xs -> filter(pu z: int -> bool do z < x end)) != [] end))
    print(xs -> filter(pu x: int -> bool do (xs -> map(pu z: int -> int do z - x end)) != [0] end))
    total := 0
    xs -> for_each(fn x: int do
        ys -> for_each(fn y: int do total += x + y end)
    end)
    print(total)
end
'''})
    out.append({"name": "math_helpers_int", "role": "math-helpers(int)", "dom": {"a": (0, 6), "b": (0, 6), "c": (0, 6)}, "text": '''
start :: fn do
    a := ?a - 3
    b := ?b - 3
    c := ?c - 3
    print(min(a, b))
    print(max(a, b))
    print(abs(a))
    print(sign(a))
    print(clamp(a, min(b, c), max(b, c)))
    print(div(a, ?b + 1))
    print(div(a, -(?b + 1)))
    print(div(7, 2))
    print(floor(2.5))
    print(floor(-2.5))
end
'''})
    out.append({"name": "math_helpers_float", "role": "math-helpers(float)", "dom": {}, "text": '''
start :: fn do
    a := ?x:float - 2.0
    b := ?y:float
    print(min(a, b))
    print(max(a, b))
    print(abs(a))
    print(sign(a))
    print(clamp(a, 0.5, 1.5))
end
'''})
    return out


def run(tier):
    t0 = time.time()
    art = common.artifacts()
    return tvrun.tv_check("C18", tier, templates(tier), art["sylt"], t0, rejected_is_violation=True,
                          assumptions=tvrun.TV_ASSUMPTIONS + ["operation sequences: every concrete prefix of mutators of length <= %d (arguments symbolic) followed by one fully symbolic operation" % (1 if tier == "quick" else 2),
                                                              "element/key types int, str, (int,int); int arguments in [0,2], indices in [-1,2]",
                                                              "iteration order of Lua pairs over non-array keys is never observed by the templates (dicts and sets are only queried)",
                                                              "div(a, 0), random*, args, thread_sleep are outside the claim"])
