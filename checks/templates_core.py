"""Template catalogue for the translation-validation checks (C01, C02, C10, ...).
Each template is Sylt text with hole markers (?a int, ?s:str, ?x:float); `dom` bounds int holes.
`role` names what the template is built to expose (used in reports and known-finding signatures)."""

CATALOGUE = []


def T(name, role, text, dom=None, tags=()):
    CATALOGUE.append({"name": name, "role": role, "text": text.strip("\n") + "\n", "dom": dom or {}, "tags": set(tags)})


# ------------------------------------------------------------------ arithmetic / comparison / strings / tuples
T("arith_int", "int-arithmetic", '''
start :: fn do
    a := ?a
    b := ?b
    print(a + b * 2 - (a - b))
    print(a * b - b)
    print(-a + b)
    print(a - b - 1)
end
''', {"a": (0, 1000), "b": (0, 1000)})

T("cmp_int", "int-comparison", '''
start :: fn do
    a := ?a
    b := ?b
    print(a < b)
    print(a <= b)
    print(a > b)
    print(a >= b)
    print(a == b)
    print(a != b)
    if a < b and b < 10 do print("lt") elif a == b do print("eq") else print("gt") end
end
''', {"a": (0, 20), "b": (0, 20)})

T("cmp_neg", "int-comparison-negative", '''
start :: fn do
    a := ?a - 5
    b := 3 - ?b
    print(a < b)
    print(-a >= b)
    print(a * b)
end
''', {"a": (0, 10), "b": (0, 10)})

T("str_concat", "string-concat-compare", '''
start :: fn do
    s := ?s:str
    t := "ab" + s
    print(t + "!")
    print(t == "abab")
    print(s == ?u:str)
    print(s != "a")
    u := s + s
    print(u)
end
''')

T("str_order", "string-order", '''
start :: fn do
    s := ?s:str
    if s < "b" do print("lt") else print("ge") end
    if s <= "b" do print("le") else print("gt") end
    print(s > ?t:str)
end
''')

T("tuple_arith", "tuple-arithmetic", '''
start :: fn do
    t := (?a, ?b)
    u := (1, 2)
    print(t + u)
    print(t - u)
    print(t * u)
    print(t == u)
    print(t != u)
    print(t[0] + t[1])
end
''', {"a": (0, 100), "b": (0, 100)})

T("tuple_mixed_components", "tuple-arithmetic-on-string-float-and-nested-components", '''
start :: fn do
    s := ?s:str
    t := (s, ?a)
    u := ("1", 2)
    print(t + u)
    print(u + u)
    w := (("x", s), (?a, 1.5))
    print(w + w)
    acc := ("", 0)
    acc += t
    acc += ("2", 3)
    print(acc)
    print(acc == (s + "2", ?a + 3))
    f := (1.5, ?a)
    print(f + f)
    print(f * f)
    print(f - (0.5, 1))
end
''', {"a": (0, 3)})

T("binary_operand_order", "operands-are-evaluated-left-to-right(every binary operator)", '''
n := 0
tick :: fn tag: int -> int do
    print(tag)
    n += tag + ?a
    ret n
end
bump :: fn -> int do
    n += 1
    ret n * 2
end
op0 :: fn do
    print(tick(1) + tick(2))
    print(n + bump())
    print(bump() + n)
end
op1 :: fn do
    print(tick(1) - tick(2))
    print(n - bump())
    print(bump() - n)
end
op2 :: fn do
    print(tick(1) * tick(2))
    print(n * bump())
    print(bump() * n)
end
op3 :: fn do
    print(tick(1) / tick(2))
    print(n / bump())
    print(bump() / n)
end
op4 :: fn do
    print(tick(1) < tick(2))
    print(n < bump())
    print(bump() < n)
end
op5 :: fn do
    print(tick(1) <= tick(2))
    print(n <= bump())
    print(bump() <= n)
end
op6 :: fn do
    print(tick(1) > tick(2))
    print(n > bump())
    print(bump() > n)
end
op7 :: fn do
    print(tick(1) >= tick(2))
    print(n >= bump())
    print(bump() >= n)
end
op8 :: fn do
    print(tick(1) == tick(2))
    print(n == bump())
    print(bump() == n)
end
op9 :: fn do
    print(tick(1) != tick(2))
    print(n != bump())
    print(bump() != n)
end
tuples :: fn do
    print((tick(3), 1) + (tick(4), 2))
    print((tick(5), 1) >= (tick(6), 2))
    print((tick(7), n) < (bump(), tick(8)))
    print(tick(1) >= tick(2) and tick(3) <= tick(4))
end
start :: fn do
    op0()
    op1()
    op2()
    op3()
    op4()
    op5()
    op6()
    op7()
    op8()
    op9()
    tuples()
end
''', {"a": (0, 2)})

T("string_literal_escapes", "string-literals-with-backslashes", r'''
start :: fn do
    print("C:\\dir")
    print("x\\065")
    print("ends with \\")
    print("dir\")
    print("after")
    print("tab\there")
    print("line\nbreak")
    print("q\d")
    print("two\\\\back")
    print("n after \\n")
    s := "a\\" + "b"
    print(s)
    print(s == "a\\b")
    print("a\\b" < "a\\c")
    print(("\\", ?a))
end
''', {"a": (0, 1)})

T("tuple_order", "tuple-lexicographic-order", '''
start :: fn do
    t := (?a, ?b)
    u := (?c, 2)
    print(t < u)
    print(t <= u)
    print(t > u)
    print(t >= u)
end
''', {"a": (0, 3), "b": (0, 3), "c": (0, 3)})

T("float_arith", "float-arithmetic", '''
start :: fn do
    x := ?x:float
    y := 2.5
    print(x + y)
    print(x * y - 1.0)
    print(x < y)
    print(-x)
    print(x / y)
end
''')

T("float_literal_overflow", "float-literal-out-of-range", '''
start :: fn do
    big := 1e999
    print(big > 1.0)
    print(big == big + 1.0)
    x := ?x:float
    print(x < big)
    print((0.0 - big) < x)
end
''', {})

T("float_nan_comparisons", "comparisons-with-nan", '''
start :: fn do
    z := 0.0
    nan := z / z
    print(nan < 1.0)
    print(not (nan < 1.0))
    print(not (nan >= 1.0))
    print(not (nan > 1.0))
    print(not (nan <= 1.0))
    print(nan == nan)
    print(nan != nan)
    print(not (nan == nan))
    x := ?x:float
    print(not (x < nan))
    print(not (nan <= x))
    if not (nan >= 0.0) do
        print(1)
    else do
        print(2)
    end
    t := (nan, 1.0)
    print(not (t < (1.0, 1.0)))
end
''', {})

T("comparison_before_mutation", "comparison-of-mutable-aggregates-then-mutation", '''
Pt :: blob {
    x: int,
}
grow :: fn l: [int] -> int do
    l -> list.push(2)
    ret 0
end
bump :: fn p: Pt -> int do
    p.x += 1
    ret 0
end
second :: fn a: bool, b: int -> bool do
    ret a
end
start :: fn do
    xs := [?a]
    ys := [?a]
    t := (xs == ys, grow(xs))
    print(t[0])
    print(second(xs != ys, grow(ys)))
    p := Pt { x: ?a }
    q := Pt { x: ?a }
    u := (p == q, bump(p))
    print(u[0])
end
''', {"a": (0, 2)}, tags=("order",))

T("fresh_value_per_activation", "literal-values-are-fresh-per-activation", '''
mk :: pu -> [int] do
    ret [0]
end
mks :: pu -> [str] do
    ret ["a", "b"]
end
pair :: fn -> ([int], [int]) do
    ret ([1], [1])
end
grow :: fn n: int -> [int] do
    l := mk()
    if n > 0 do
        inner := grow(n - 1)
        inner -> list.push(n)
    end
    l -> list.push(n * 10)
    ret l
end
start :: fn do
    a := mk()
    b := mk()
    a -> list.push(?x)
    print(a)
    print(b)
    print(mk())
    s := mks()
    s -> list.pop()
    print(mks())
    print(grow(?x))
    t := pair()
    t[0] -> list.push(5)
    print(t[1])
    print(pair())
    cs := [pu -> [int] do ret [7] end, pu -> [int] do ret [7] end]
    cs -> for_each(fn c: pu -> [int] do
        r := c()
        r -> list.push(?x)
        print(r)
    end)
end
''', {"x": (0, 2)}, tags=("reent",))

T("nested_blob_self", "self-in-nested-blob-literals", '''
Button :: blob {
    tag: int,
    get: fn -> int,
    handlers: [fn -> int],
    pair: (fn -> int, int),
    me: int,
}
Panel :: blob {
    id: int,
    make: fn -> Button,
}
start :: fn do
    p := Panel { id: ?a, make: fn -> Button do
        ret Button { tag: ?b, get: fn -> int do ret self.tag end, handlers: [fn -> int do ret self.id * 10 end], pair: (fn -> int do ret self.id + 100 end, 0), me: self.id + 1000 }
    end }
    b := p.make()
    print(b.get())
    b.handlers -> for_each(fn f: fn -> int do print(f()) end)
    q := b.pair
    print(q[0]())
    print(b.me)
    p.id = 7
    c := p.make()
    print(c.me)
    c.handlers -> for_each(fn f: fn -> int do print(f()) end)
end
''', {"a": (0, 3), "b": (4, 6)}, tags=("reent",))

T("int_div", "int-division-yields-float", '''
start :: fn do
    a := 7
    b := 2
    print(a / b)
    print(1 / 4)
    print((1 / 2) == 0.5)
end
''')

# ------------------------------------------------------------------ and / or
T("and_or_shortcircuit", "short-circuit-effects", '''
n := 0
bump :: fn v: bool -> bool do
    n += 1
    ret v
end
start :: fn do
    a := ?a
    x := a > 1 and bump(a > 2)
    print(x)
    print(n)
    y := a > 1 or bump(a > 0)
    print(y)
    print(n)
    z := bump(a == 0) or bump(a == 1) and bump(a == 1)
    print(z)
    print(n)
end
''', {"a": (0, 4)})

T("and_or_values", "and-or-as-values", '''
start :: fn do
    a := ?a
    b := ?b
    p := a < b
    q := b < 3
    print(p and q)
    print(p or q)
    print(not p and q)
    print(not (p or q))
    r := p and q or not p
    print(r)
end
''', {"a": (0, 5), "b": (0, 5)})

T("generic_hof_explicit", "explicitly-generic-higher-order-functions", '''
apply :: fn f: fn *a -> *b, x: *a -> *b do
    ret f(x)
end
apply_rev :: fn x: *a, f: fn *a -> *b -> *b do
    ret f(x)
end
compose :: fn f: fn *a -> *b, g: fn *b -> *c -> fn *a -> *c do
    ret fn x: *a -> *c do ret g(f(x)) end
end
pair_map :: fn p: (*a, *a), f: fn *a -> *b -> (*b, *b) do
    ret (f(p[0]), f(p[1]))
end
start :: fn do
    a := ?a
    print(apply(fn t: (int, int) -> int do ret t[0] + t[1] end, (a, 1)))
    print(apply_rev(a, fn i: int -> str do ret "n" + as_str(i) end) + "!")
    h := compose(fn i: int -> int do ret i * 2 end, fn i: int -> str do ret as_str(i) end)
    print(h(a) + "?")
    print(pair_map((a, 2), fn i: int -> int do ret i + 1 end) + (1, 1))
end
''', {"a": (0, 3)})

T("generic_apply_function_first", "explicitly-generic-apply(function first)", '''
apply :: fn f: fn *a -> *b, x: *a -> *b do
    ret f(x)
end
start :: fn do
    print(apply(fn t: (int, int) -> int do ret t[0] + t[1] end, (?a, 1)))
end
''', {"a": (0, 3)})

T("generic_apply_value_first", "explicitly-generic-apply(value first)", '''
apply_rev :: fn x: *a, f: fn *a -> *b -> *b do
    ret f(x)
end
start :: fn do
    r := apply_rev(?a, fn i: int -> int do ret i * 2 end)
    print(r + 1)
end
''', {"a": (0, 3)})

# ------------------------------------------------------------------ if / case expressions
T("if_expr_value", "if-expression-value", '''
start :: fn do
    a := ?a
    v := if a < 2 do 10 elif a < 4 do 20 else 30 end
    print(v)
    w := (if a == 1 do 1 else 2 end) + (if a == 3 do 10 else 20 end)
    print(w)
end
''', {"a": (0, 6)})

T("if_expr_falsy_values", "value-of-if-and-case-expressions(bool, nil and other falsy-looking values in the branches)", '''
E :: enum
    A int,
    B,
end
start :: fn do
    c := ?c
    p := ?p == 1
    q := ?q == 1
    r1 := if c == 1 do p else q end
    print(r1)
    r2 := if c == 1 do false else true end
    print(r2)
    r2 <=> (c != 1)
    r3 := if c == 1 do p elif c == 2 do not p else q end
    print(r3)
    r4 := if p do false else q end
    print(r4)
    r5 := case (if c == 1 do E.A 1 else E.B end) do
        A x -> p end
        else q end
    end
    print(r5)
    n := if c == 1 do nil else nil end
    print(n)
    i := if p do 0 else 1 end
    print(i)
    s := if p do "" else "x" end
    print(s)
    f := if p do 0.0 else 1.5 end
    print(f)
    t := if p do (false, 0) else (true, 1) end
    print(t)
    if (if c == 1 do p else q end) do print(1) else print(2) end
    print((if c == 1 do p else q end) and q)
    print((if c == 1 do p else q end) or q)
    print(not (if c == 2 do false else p end))
    g :: fn b: bool -> bool do
        ret if b do false else true end
    end
    print(g(p))
    print(g(g(q)))
    k := 0
    loop k < 2 do
        k += 1
        print(if k == c do false else p end)
    end
end
''', {"c": (0, 2), "p": (0, 1), "q": (0, 1)})

T("if_stmt_effects", "if-statement-effects", '''
start :: fn do
    a := ?a
    r := 0
    if a > 2 do
        r = 1
        if a > 4 do r = 2 end
    else
        r = 3
    end
    print(r)
    if a == 1 do print("one") end
    print("done")
end
''', {"a": (0, 6)})

T("case_expr", "case-expression", '''
E :: enum
    A int,
    B str,
    C,
end
mk :: fn n: int -> E do
    if n == 0 do ret E.A 5 end
    if n == 1 do ret E.B "x" end
    ret E.C
end
start :: fn do
    e := mk(?a)
    v := case e do
        A x -> x + 1 end
        B s -> 20 end
        else 30 end
    end
    print(v)
    case e do
        A x -> print(x) end
        B s -> print(s) end
        C -> print("c") end
    end
end
''', {"a": (0, 3)})

T("case_payload_hole", "case-binding-value", '''
E :: enum
    A int,
    B int,
end
start :: fn do
    e := if ?k > 0 do E.A ?a else E.B ?b end
    r := case e do
        A x -> x * 2 end
        B y -> y + 100 end
    end
    print(r)
    print(e == E.A 3)
end
''', {"k": (0, 1), "a": (0, 50), "b": (0, 50)})

# ------------------------------------------------------------------ loops
T("loop_sum", "loop-accumulate", '''
start :: fn do
    n := ?n
    i := 0
    s := 0
    loop i < n do
        s += i * 2
        i += 1
    end
    print(s)
    print(i)
end
''', {"n": (0, 3)})

T("loop_break_continue", "loop-break-continue", '''
start :: fn do
    n := ?n
    i := 0
    out := ""
    loop do
        i += 1
        if i > 5 do break end
        if i == n do continue end
        if i == n + 2 do break end
        out = out + as_str(i)
    end
    print(out)
    print(i)
end
''', {"n": (0, 6)})

T("loop_nested_early_ret", "early-ret-from-nested-loops", '''
find :: fn a: int, b: int -> int do
    i := 0
    loop i < 3 do
        j := 0
        loop j < 3 do
            if i * 3 + j == a do ret i * 10 + j end
            if j == b do break end
            j += 1
        end
        i += 1
    end
    ret 0 - 1
end
start :: fn do
    print(find(?a, ?b))
end
''', {"a": (0, 9), "b": (0, 3)})

T("loop_continue_mutated_cond", "continue-with-mutated-condition", '''
start :: fn do
    k := ?k
    i := 0
    c := 0
    loop i < 4 do
        i += 1
        if i == k do
            i += 1
            continue
        end
        c += 10
    end
    print(c)
    print(i)
end
''', {"k": (0, 5)})

T("loop_fresh_local", "loop-body-local-fresh-per-iteration", '''
start :: fn do
    fs := []
    i := 0
    loop i < 3 do
        j := i * ?m
        fs -> list.push(fn -> int do
            j += 1
            ret j
        end)
        i += 1
    end
    fs -> for_each(fn f: fn -> int do
        print(f())
    end)
    fs -> for_each(fn f: fn -> int do
        print(f())
    end)
end
''', {"m": (0, 5)})

# ------------------------------------------------------------------ functions / closures
T("closure_counter", "closure-over-mutable", '''
mk :: fn start_at: int -> fn -> int do
    c := start_at
    ret fn -> int do
        c += 1
        ret c
    end
end
start :: fn do
    a :: mk(?a)
    b :: mk(10)
    print(a())
    print(a())
    print(b())
    print(a())
end
''', {"a": (0, 100)})

T("closure_shared", "closures-share-captured-variable", '''
start :: fn do
    x := ?a
    inc :: fn do x += 1 end
    get :: fn -> int do ret x end
    inc()
    inc()
    print(get())
    x = 100
    print(get())
    inc()
    print(x)
end
''', {"a": (0, 100)})

T("higher_order", "higher-order-calls", '''
apply :: fn f: fn int -> int, n: int -> int do
    ret f(f(n))
end
start :: fn do
    k := ?k
    add :: fn n: int -> int do ret n + k end
    print(apply(add, ?a))
    print(apply(fn n: int -> int do n * 2 end, k))
    kk :: ?k
    l := [1, 2, 3] -> map(pu n: int -> int do n * kk end)
    print(l)
    print([1, 2, 3, 4] -> filter(pu n: int -> bool do n > kk end))
    print([1, 2, 3] -> fold(?a, pu n: int, acc: int -> int do acc * 2 + n end))
end
''', {"k": (0, 5), "a": (0, 10)})

T("recursion_fact", "recursion", '''
fact :: fn n: int -> int do
    if n < 2 do ret 1 end
    ret n * fact(n - 1)
end
fib :: fn n: int -> int do
    if n < 2 do n else fib(n - 1) + fib(n - 2) end
end
start :: fn do
    print(fact(?a))
    print(fib(?a))
end
''', {"a": (0, 4)})

T("early_ret", "early-ret", '''
f :: fn a: int -> str do
    if a == 0 do ret "zero" end
    if a < 3 do
        if a == 1 do ret "one" end
        ret "two"
    end
    "many"
end
start :: fn do
    print(f(?a))
end
''', {"a": (0, 5)})

# ------------------------------------------------------------------ re-entrancy (C10 family)
T("reent_if_plus_call", "value-held-across-recursive-call(if)", '''
f :: fn n ->
    if n < 1 do
        0
    else
        (if n > 1 do 10 else 20 end) + f(n - 1)
    end
end
start :: fn do
    print(f(?a))
end
''', {"a": (0, 3)}, tags=("reent",))

T("reent_call_plus_if", "value-held-across-recursive-call(call-then-if)", '''
f :: fn n ->
    if n < 1 do
        0
    else
        f(n - 1) + (if n > 1 do 10 else 20 end)
    end
end
start :: fn do
    print(f(?a))
end
''', {"a": (0, 3)}, tags=("reent",))

T("reent_case_plus_call", "value-held-across-recursive-call(case)", '''
E :: enum
    A int,
    B int,
end
f :: fn n: int -> int do
    if n < 1 do ret 0 end
    e := if n > 1 do E.A n else E.B n end
    (case e do
        A x -> x * 100 end
        B y -> y end
    end) + f(n - 1)
end
start :: fn do
    print(f(?a))
end
''', {"a": (0, 3)}, tags=("reent",))

T("reent_case_binding", "case-binding-across-recursive-call", '''
E :: enum
    A int,
    B int,
end
f :: fn n: int -> int do
    if n < 1 do ret 0 end
    e := if n > 1 do E.A n else E.B n end
    case e do
        A x ->
            r := f(n - 1)
            r + x * 100
        end
        B y ->
            r := f(n - 1)
            r + y
        end
    end
end
start :: fn do
    print(f(?a))
end
''', {"a": (0, 3)}, tags=("reent",))

T("reent_args", "argument-held-across-recursive-call", '''
g :: fn a: int, b: int, c: int -> int do
    ret a * 100 + b * 10 + c
end
f :: fn n: int -> int do
    if n < 1 do ret 1 end
    ret g(n, f(n - 1), if n > 1 do 2 else 3 end)
end
start :: fn do
    print(f(?a))
end
''', {"a": (0, 3)}, tags=("reent",))

T("reent_tuple_ctor", "constructor-field-held-across-recursive-call", '''
f :: fn n: int -> (int, int) do
    if n < 1 do ret (0, 0) end
    ret ((if n > 1 do n else 7 end), f(n - 1)[0] + 1)
end
start :: fn do
    print(f(?a))
end
''', {"a": (0, 3)}, tags=("reent",))

T("reent_and_or", "and-or-value-across-recursive-call", '''
f :: fn n: int -> bool do
    if n < 1 do ret false end
    ret (n == 2 or n == 5) == f(n - 1)
end
start :: fn do
    print(f(?a))
end
''', {"a": (0, 3)}, tags=("reent",))

T("reent_closure_case_binding", "closure-captures-case-binding", '''
E :: enum
    A int,
end
mk :: fn e: E -> fn -> int do
    case e do
        A x -> ret fn -> int do ret x end end
    end
    ret fn -> int do ret 0 end
end
start :: fn do
    f :: mk(E.A ?a)
    g :: mk(E.A ?b)
    print(f())
    print(g())
    print(f())
end
''', {"a": (0, 9), "b": (0, 9)}, tags=("reent",))

T("reent_closure_recursion", "closures-per-activation", '''
mk :: fn n: int, acc: [fn -> int] -> void do
    if n < 1 do ret end
    v := n * ?m
    acc -> list.push(fn -> int do
        v += 1
        ret v
    end)
    mk(n - 1, acc)
end
start :: fn do
    fs: [fn -> int] = []
    mk(2, fs)
    fs -> for_each(fn f: fn -> int do print(f()) end)
    fs -> for_each(fn f: fn -> int do print(f()) end)
end
''', {"m": (0, 5)}, tags=("reent",))

T("reent_compound_assign", "compound-assignment-across-call", '''
x := 0
bump :: fn -> int do
    x += 10
    ret x
end
start :: fn do
    x = ?a
    x += bump()
    print(x)
    t := (1, 2)
    print(t[0] + bump())
end
''', {"a": (0, 9)}, tags=("reent", "order"))

T("reent_callee_rebound_by_argument", "callee-held-across-argument-evaluation(local)", '''
start :: fn do
    f := fn x: int -> int do ret x + 1 end
    swap := fn -> int do
        f = fn x: int -> int do ret x * 100 end
        ret ?a
    end
    print(f(swap()))
    print(f(1))
end
''', {"a": (0, 9)}, tags=("reent", "order"))

T("reent_callee_rebound_global", "callee-held-across-argument-evaluation(global)", '''
one :: fn x: int -> int do ret x + 1 end
two :: fn x: int -> int do ret x * 100 end
f := one
swap :: fn v: int -> int do
    f = two
    ret v
end
start :: fn do
    r :: f(swap(?a))
    print(r)
    print(f(?a))
    f = one
    print(f(f(swap(?b))))
end
''', {"a": (0, 9), "b": (0, 9)}, tags=("reent", "order"))

T("reent_callee_rebound_second_argument", "callee-held-across-argument-evaluation(two-args)", '''
start :: fn do
    f := fn x: int, y: int -> int do ret x - y end
    n := 0
    swap := fn -> int do
        n += 1
        if n > ?k do
            f = fn x: int, y: int -> int do ret y - x end
        end
        ret n
    end
    print(f(swap(), swap() * 3))
    print(f(swap(), 10))
end
''', {"k": (0, 3)}, tags=("reent", "order"))

# ------------------------------------------------------------------ evaluation order
T("order_operands", "operand-order(read-then-mutating-call)", '''
c := 1
bump :: fn -> int do
    c += 10
    ret c
end
start :: fn do
    c = ?a
    t := c + bump()
    print(t)
    u := bump() + c
    print(u)
end
''', {"a": (0, 9)}, tags=("order",))

T("order_field", "operand-order(field-read-then-mutating-call)", '''
B :: blob {
    f: int,
}
start :: fn do
    b := B { f: ?a }
    g :: fn -> int do
        b.f = b.f + 10
        ret 1
    end
    t := b.f + g()
    print(t)
    print(b.f)
end
''', {"a": (0, 9)}, tags=("order",))

T("order_index", "operand-order(tuple-index-read-then-mutating-call)", '''
start :: fn do
    l := (?a, 2)
    g :: fn -> int do
        l = (l[0] + 10, 3)
        ret 1
    end
    t := l[0] + g()
    print(t)
    print(l)
end
''', {"a": (0, 9)}, tags=("order",))

T("order_args", "argument-order", '''
log := ""
t :: fn s: str, v: int -> int do
    log = log + s
    ret v
end
three :: fn a: int, b: int, c: int -> int do ret a * 100 + b * 10 + c end
start :: fn do
    print(three(t("a", ?a), t("b", 2), t("c", 3)))
    print(log)
    x := (t("d", 1), t("e", 2))
    l := [t("f", 1), t("g", 2)]
    print(log)
end
''', {"a": (0, 9)}, tags=("order",))

T("order_blob_fields", "blob-field-order", '''
B :: blob {
    a: int,
    b: int,
}
log := ""
t :: fn s: str, v: int -> int do
    log = log + s
    ret v
end
start :: fn do
    x := B { b: t("b", ?a), a: t("a", 2) }
    print(log)
    print(x.a + x.b)
end
''', {"a": (0, 9)}, tags=("order",))

# ------------------------------------------------------------------ blobs / self / lists / globals
T("blob_self", "blob-self-mutation", '''
C :: blob {
    n: int,
    inc: fn -> int,
}
mk :: fn k: int -> C do
    C {
        n: k,
        inc: fn -> int do
            self.n += 1
            ret self.n
        end,
    }
end
start :: fn do
    a := mk(?a)
    b := mk(50)
    print(a.inc())
    print(a.inc())
    print(b.inc())
    print(a.n)
    a.n = 7
    print(a.inc())
end
''', {"a": (0, 20)})

T("blob_eq", "blob-structural-equality", '''
P :: blob {
    x: int,
    y: int,
}
start :: fn do
    p := P { x: ?a, y: 2 }
    q := P { x: 1, y: ?b }
    print(p == q)
    print(p != q)
    p.x = 1
    q.y = 2
    print(p == q)
end
''', {"a": (0, 3), "b": (0, 3)})

T("list_ops", "list-identity-and-equality", '''
start :: fn do
    l := [?a, ?b, 3]
    print(l)
    print(l == [6, 4, 3])
    l -> list.push(?a * 2)
    print(l)
    m := l
    m -> list.push(0)
    print(l)
    print(l == m)
    print([[1, ?a], [2]] == [[1, 2], [?b]])
end
''', {"a": (0, 9), "b": (0, 9)})

T("globals_through_closures", "globals-read-through-closures", '''
g := 5
k :: 3
get :: fn -> int do ret g * k end
setg :: fn v: int do g = v end
start :: fn do
    print(get())
    setg(?a)
    print(get())
    g += 1
    print(get())
end
''', {"a": (0, 9)})

T("global_init_order", "global-initialisation-order", '''
start :: fn do
    print(c)
    print(b)
end
c :: b + a
b :: a * 2
a :: ?a
''', {"a": (0, 9)})

T("enum_eq", "enum-equality", '''
E :: enum
    A int,
    B,
end
start :: fn do
    x := E.A ?a
    y := E.A 2
    print(x == y)
    print(x != y)
    print(E.B == E.B)
    print(x == E.B)
end
''', {"a": (0, 4)})

T("assert_outcomes", "assert-and-unreachable-outcomes", '''
start :: fn do
    a := ?a
    print("before")
    a <=> a
    if a > 1 do a <=> 3 end
    print("mid")
    if a == 0 do <!> end
    print("after")
end
''', {"a": (0, 4)})

T("prime_arrow_sugar", "call-sugar", '''
add :: fn a: int, b: int -> int do ret a * 10 + b end
start :: fn do
    print(add' ?a, 2)
    print(?a -> add(3))
    print(?a -> add(3) -> add(4))
end
''', {"a": (0, 9)})

T("nested_fn_scope", "nested-function-scoping", '''
start :: fn do
    a := ?a
    f :: fn b: int -> int do
        c := a + b
        g :: fn -> int do
            c * 2
        end
        a = a + 1
        ret g() + a
    end
    print(f(1))
    print(f(2))
    print(a)
end
''', {"a": (0, 9)})

T("shadowing", "shadowing-in-blocks", '''
start :: fn do
    a := ?a
    do
        a := a + 100
        print(a)
        do
            a := a * 2
            print(a)
        end
    end
    print(a)
    if a > 4 do
        a := 0
        print(a)
    end
    print(a)
end
''', {"a": (0, 9)})

T("compound_assign_all", "compound-assignment-operators", '''
B :: blob {
    s: str,
    n: int,
}
start :: fn do
    s := "ab"
    s += ?t:str
    print(s)
    s += "cd"
    print(s)
    n := ?a
    n -= 3
    n *= 2
    n += 1
    print(n)
    x := 8.0
    x /= 2.0
    x -= 0.5
    print(x)
    t := (?a, 2)
    t += (1, 1)
    t -= (0, ?b)
    t *= (2, 3)
    print(t)
    b := B { s: "foo", n: ?b }
    b.s += "bar"
    b.n -= 1
    b.n *= 3
    print(b.s)
    print(b.n)
end
''', {"a": (0, 9), "b": (0, 9)})

T("global_only_in_loop_condition", "global-initialised-before-use(loop condition)", '''
start :: fn do
    i := 0
    total := 0
    loop i < limit do
        i += 1
        total += i
    end
    print(total)
    if flag do print("flag") end
    print(name + "!")
end
limit :: ?a
flag :: ?a > 1
name :: "n" + as_str(limit)
''', {"a": (0, 3)})

T("globals_declared_after_use", "global-initialised-before-use(every position)", '''
start :: fn do
    print(helper(1))
    print(tup[1] + lst_len())
    b := Bl { f: base }
    print(b.f)
end
helper :: fn k: int -> int do
    ret k + base * scale
end
lst_len :: fn -> int do ret list.len(lst) end
tup :: (base, base + 1)
lst :: [base, scale]
scale :: 10
base :: ?a
Bl :: blob {
    f: int,
}
''', {"a": (0, 9)})


# ------------------------------------------------------------------ a global used at exactly one position, declared after its user
USE_POSITIONS = [
    ("loop_condition", "i := 0\n    loop i < G do\n        i += 1\n    end\n    print(i)"),
    ("if_condition", "if G > 1 do print(\"big\") else print(\"small\") end"),
    ("elif_condition", "if false do print(\"no\") elif G > 1 do print(\"big\") else print(\"small\") end"),
    ("operand", "print(1 + G)"),
    ("call_argument", "print(id(G))"),
    ("tuple_element", "print((1, G))"),
    ("list_element", "print([G, 2])"),
    ("blob_field", "b := Bl { f: G }\n    print(b.f)"),
    ("variant_payload", "print(En.A G)"),
    ("case_scrutinee", "case En.A G do\n        A x -> print(x) end\n        else print(\"else\") end\n    end"),
    ("assignment_value", "x := 0\n    x = G\n    print(x)"),
    ("compound_value", "x := 1\n    x += G\n    print(x)"),
    ("return_value", "print(fn -> int do ret G end())"),
    ("closure_body", "f :: fn -> int do G + 1 end\n    print(f())"),
    ("nested_closure_body", "f :: fn -> fn -> int do ret fn -> int do ret G end end\n    print(f()())"),
    ("loop_body", "i := 0\n    loop i < 2 do\n        i += 1\n        print(G)\n    end"),
    ("unary", "print(-G)"),
    ("comparison", "print(G == 2)"),
    ("assert_eq", "G <=> G\n    print(\"ok\")"),
    ("index_base", "print((G, 1)[0])"),
    ("block", "do\n        print(G)\n    end"),
    ("and_or", "print(G > 0 and G < 3)"),
    ("if_branch_value", "print(if true do G else 0 end)"),
    ("definition_value", "y :: G * 2\n    print(y)"),
]
USE_PROGRAM = '''
start :: fn do
    USE
end
id :: fn v: int -> int do ret v end
Bl :: blob {
    f: int,
}
En :: enum
    A int,
    B,
end
G :: ?a
'''
for _n, _u in USE_POSITIONS:
    T("global_use_" + _n, "global-initialised-before-use(%s)" % _n, USE_PROGRAM.replace("USE", _u.replace("G", "glob")).replace("G ::", "glob ::"), {"a": (0, 3)}, tags=("global_use",))

WRITE_PROGRAM = '''
start :: fn do
    USE
    print(glob)
end
glob := ?a
'''
for _n, _u in [("assignment_target", "glob = 5"), ("compound_target", "glob += 5"), ("target_in_loop", "i := 0\n    loop i < 2 do\n        i += 1\n        glob = glob + i\n    end"),
               ("target_in_closure", "f :: fn do glob = 7 end\n    f()"), ("target_in_branch", "if true do glob = 9 end")]:
    T("global_write_" + _n, "global-initialised-before-assignment(%s)" % _n, WRITE_PROGRAM.replace("USE", _u), {"a": (0, 3)}, tags=("global_use",))
