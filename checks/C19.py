"""C19 - composite values compare, order and combine structurally.
Translation validation over a family of value shapes with symbolic leaves: the emitted Lua (metatables of
preamble.lua, real code) against the structural reference for ==, !=, <, <=, >, >=, element-wise + - * /, unary -,
string +; plus the algebraic laws (reflexive, symmetric, complementary, trichotomy) as in-program asserts."""
import time
from vlib import common
from checks import tvrun

DECLS = '''
P :: blob {
    x: int,
    y: int,
}
Q :: blob {
    p: (int, int),
    l: [int],
}
E :: enum
    A int,
    B (int, int),
    C,
end
Pb :: blob {
    done: bool,
    n: int,
}
Eb :: enum
    F bool,
    G (bool, int),
end
'''
# name, type annotation, value with holes (H1..H3 -> hole names per side), orderable?, arithmetic kind
SHAPES = [
    ("tuple1", "(int,)", "(H1,)", True, "int"),
    ("tuple2", "(int, int)", "(H1, H2)", True, "int"),
    ("tuple3", "(int, int, int)", "(H1, H2, H3)", True, "int"),
    ("nested", "((int, int), int)", "((H1, H2), H3)", True, "int"),
    ("nested_right", "(int, (int, int))", "(H1, (H2, H3))", True, "int"),
    ("tuple_str", "(str, int)", "(S1, H2)", True, None),
    ("tuple_float", "(float, float)", "(F1, F2)", True, "float"),
    ("list2", "[int]", "[H1, H2]", False, None),
    ("list_nested", "[[int]]", "[[H1], [H2, H3]]", False, None),
    ("list_of_tuples", "[(int, int)]", "[(H1, H2), (H3, 1)]", False, None),
    ("blob", "P", "P { x: H1, y: H2 }", False, None),
    ("blob_nested", "Q", "Q { p: (H1, H2), l: [H3] }", False, None),
    ("enum_int", "E", "E.A H1", False, None),
    ("enum_tuple", "E", "E.B (H1, H2)", False, None),
    # falsy leaves: a component that is `false` is a value like any other
    ("blob_bool", "Pb", "Pb { done: H1 == 1, n: H2 }", False, None),
    ("tuple_bool", "(bool, int)", "(H1 == 1, H2)", False, None),
    ("list_bool", "[bool]", "[H1 == 1, H2 == 1]", False, None),
    ("enum_bool", "Eb", "Eb.F (H1 == 1)", False, None),
    ("enum_tuple_bool", "Eb", "Eb.G (H1 == 1, H2)", False, None),
    ("nested_blob_bool", "[(Pb, bool)]", "[(Pb { done: H1 == 1, n: 0 }, H2 == 1)]", False, None),
    ("str", "str", "S1", True, "str"),
    ("int", "int", "H1", True, "int"),
]


def inst(v, side):
    out = v
    for k in (1, 2, 3):
        out = out.replace("H%d" % k, "?%s%d" % (side, k)).replace("S%d" % k, "?%ss%d:str" % (side, k)).replace("F%d" % k, "?%sf%d:float" % (side, k))
    return out


def templates():
    out = []
    for name, ty, val, orderable, arith in SHAPES:
        a, b = inst(val, "a"), inst(val, "b")
        dom = {"%s%d" % (s, k): (0, 2) for s in "ab" for k in (1, 2, 3)}
        body = ["a := " + a, "b := " + b, "print(a == b)", "print(a != b)", "print(a == a)", "print(b != b)",
                "(a == b) <=> (b == a)", "(a != b) <=> (not (a == b))", "a <=> a"]
        if orderable:
            body += ["print(a < b)", "print(a <= b)", "print(a > b)", "print(a >= b)",
                     "(a < b) <=> (b > a)", "(a <= b) <=> (b >= a)", "(a <= b) <=> (a < b or a == b)", "(a < b) <=> (not (a >= b))",
                     "(a < b or a == b or a > b) <=> true", "(a < b and a > b) <=> false", "(a < a) <=> false", "(a <= a) <=> true"]
        if arith == "int":
            body += ["print(a + b)", "print(a - b)", "print(a * b)", "print(a + b == b + a)", "print(a - a)"]
            if name != "int": body += ["print(a / b)", "print(a / 2)"]
            body += ["print(-a)", "print(-(a - b))", "(-(-a)) <=> a", "(a + (-a)) <=> (a - a)", "na := a", "print(-na)", "print(na == -(-na))"]
        if arith == "float":
            body += ["print(a + b)", "print(a - b)", "print(a * b)", "print(a / (2.0, 4.0))", "print(a / 2.0)", "print(-a)", "print(-(a - b))", "nb := b", "nb = -nb", "print(nb)"]
        if arith in ("int", "float", "str") or name == "tuple_str":
            body += ["c := a", "c += b", "print(c)"]
        if arith in ("int", "float"):
            body += ["d := a", "d -= b", "print(d)", "e := a", "e *= b", "print(e)"]
        if arith == "str":
            body += ["print(a + b)", "print(a + b == b + a)", "print(\"<\" + a + \">\")"]
        if name == "tuple_str":
            body += ["print(a + b)"]
        text = DECLS + "start :: fn do\n    " + "\n    ".join(body) + "\nend\n"
        out.append({"name": "laws_" + name, "role": "structural-compare-order-arith(%s)" % name, "text": text, "dom": dom})
        if "H1" in val:
            # the same laws with leaves of both signs (floor division, unary minus and the order of negative components)
            out.append({"name": "laws_signed_" + name, "role": "structural-compare-order-arith(%s)" % name, "text": text,
                        "dom": {k: (-2, 2) for k in dom}})
    # mixed: equality between values built differently (literal vs computed), lists grown by push
    out.append({"name": "laws_built_differently", "role": "structural-equality(independent-construction)", "dom": {"a1": (0, 2), "a2": (0, 2)}, "text": DECLS + '''
mk :: fn a: int, b: int -> (int, int) do ret (a, b) end
start :: fn do
    t := mk(?a1, ?a2)
    print(t == (?a1, ?a2))
    print(t == (1, 1))
    l := [?a1]
    l -> list.push(?a2)
    print(l == [?a1, ?a2])
    print(l == [?a1])
    print([] == l)
    print(l == [?a1, ?a2, 0])
    print([?a1, ?a2, 0] == l)
    p := P { x: ?a1, y: 0 }
    p.y = ?a2
    print(p == P { x: ?a1, y: ?a2 })
    print((E.A ?a1) == (E.A ?a2))
    print((E.A ?a1) == E.C)
    print((E.B (?a1, 1)) == (E.B t))
    print(E.C == E.C)
    print((l -> list.get(5)) == Maybe.None)
    print(Maybe.None == (l -> list.get(5)))
    print((l -> list.get(0)) == (Maybe.Just ?a1))
    print((l -> list.get(0)) != Maybe.None)
    print(((l -> list.get(5)), 1) == (Maybe.None, 1))
    print([l -> list.get(5), l -> list.get(0)] == [Maybe.None, Maybe.Just ?a1])
    print((l -> list.find(pu v: int -> bool do v > 5 end)) == Maybe.None)
    none: Maybe(int) = Maybe.None
    print(none == (l -> list.get(9)))
    print((E.C, E.C) == (E.C, E.C))
    ec := E.C
    print([ec] == [E.C])
    print(ec != E.C)
end
'''})
    # composite values whose components are the SAME variable (or variables compared / assigned to each other before): structure with sharing
    out.append({"name": "laws_shared_components", "role": "structural-compare-order-arith(shared-components)", "dom": {"a1": (0, 2), "a2": (0, 2)}, "text": DECLS + '''
start :: fn do
    x := ?a1
    y := ?a2
    t := (x, x)
    print(-t)
    print(-(x, x))
    print(-((x, 1), (x, 2)))
    print(t + t)
    print(t - (y, x))
    print(t * t)
    print(t / 2)
    print(t == (x, x))
    print(t < (x, y))
    print(t <= t)
    lo := ?a1
    hi := ?a2
    if lo <= hi do
        print(-(lo, hi))
        print((lo, hi) - (hi, lo))
    end
    if lo == hi do
        print(-(hi, lo))
    end
    u := (t, t)
    print(-u)
    print(u == (t, t))
    print(u + u)
    print(u < u)
    v := t
    v = -v
    print(v)
    print((v, t) - (t, v))
    s := ?as1:str
    w := (s, s)
    print(w + w)
    print(w == (s, s))
    print(w < w)
    f := ?af1:float
    print(-(f, f))
    print((f, f) / (2.0, 4.0))
    print((f, f) - (f, f))
    l := [x, x]
    print(l == [x, x])
    print([t, t] == [(x, x), t])
    p := P { x: x, y: x }
    print(p == P { x: x, y: x })
end
'''})
    return out


def run(tier):
    t0 = time.time()
    art = common.artifacts()
    # every operation used in the templates is one the statement says exists for that shape: a rejected template is a violation
    return tvrun.tv_check("C19", tier, templates(), art["sylt"], t0, rejected_is_violation=True,
                          assumptions=tvrun.TV_ASSUMPTIONS + ["shapes: tuples of length 1-3, nesting depth 2, lists of length <= 3, blobs with 2 fields, enums with int / tuple payload; leaves in [0,2] (ints), [a-z0-9 ]{0,3} (strings), finite non-negative doubles",
                                                              "NaN leaves are excluded (float holes are constrained to be finite)"])
