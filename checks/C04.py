"""C04 - constants are immutable and pure functions stay pure.
K-tc with alternative-snippet selectors: the assignment target ranges over every kind of constant / mutable
binding; inside a `pu` function the forbidden (and permitted) constructs are placed under every nest kind
(direct, if, else, loop, case arm, block, nested pu closure, nested fn closure); an impure function is offered where a
pure type is declared. z3 decides, per explored path, that no must-reject selector valuation is accepted (and, as
vacuity twin, that the permitted ones are accepted)."""
import time
import z3
from vlib import common
from checks import ktcrun

TARGETS = [  # (snippet, must_reject)
    ("cg = 5", True), ("mg = 5", False), ("cl = 5", True), ("ml = 5", False), ("p = 5", True), ("cb = 5", True),
    ("ml += 1", False), ("cl += 1", True), ("cg -= 1", True), ("p *= 2", True), ("cb /= 2", True), ("ib = 3", True), ("cf = cf", True),
    ("oc = 2", True), ("ocz = 2", True),
] + [  # every assignment operator on every kind of target (float-typed, so that `/=` is type-correct and only constness decides)
    ("%s %s 2.0" % (t, op), rej) for t, rej in (("cgf", True), ("clf", True), ("pf", True), ("ibf", True), ("mgf", False), ("mlf", False)) for op in ("=", "+=", "-=", "*=", "/=")
]
T_ASSIGN = '''
from other use (oc, oc as ocz)
cg :: 1
mg := 1
cgf :: 1.5
mgf := 1.5
cf :: fn do end
En :: enum
    A int,
    F float,
end
f :: fn p: int, pf: float do
    cl :: 2
    ml := 2
    clf :: 2.5
    mlf := 2.5
    if 1 < 2 do
        ib :: 3
        ibf :: 3.5
        case En.A 1 do
            A cb ->
                pr(cb)
                __alt1(%s)
            end
            else pr(1) end
        end
    end
end
start :: fn do
    f(1, 1.5)
end
''' % ", ".join("fn do %s end" % s for s, _ in TARGETS)

XS = [  # constructs inside the pure function: (snippet, must_reject)
    ("k1 :: 1", False), ("k2 :: pp()", False), ("k3 :: pur()", False), ("k4 :: p + cg", False),
    ("mg = 2", True), ("lv := 1", True), ("k5 :: mg", True), ("k6 :: imp()", True), ("k7 :: ip()", True), ("pr(1)", True),
    ("k8 :: mg + 1", True), ("mg += 1", True), ("k9 :: [imp()]", True), ("k10 :: if mg > 0 do 1 else 2 end", True),
    ("gb.x = 2", True), ("bp.x = 2", True), ("bp.x += 1", True), ("k11 :: bp.x + gb.x", False), ("k12 :: Bl { x: p }", False),
]
XALT = "__alt2(%s)" % ", ".join("fn do %s end" % s for s, _ in XS)
NESTS = [
    ("direct", "XX"),
    ("if", "if 1 < 2 do\n    XX\nend"),
    ("else", "if 1 < 2 do\n    kk :: 1\nelse\n    XX\nend"),
    ("loop", "loop 1 < 2 do\n    XX\n    break\nend"),
    ("case_arm", "case En.A 1 do\n    A q ->\n        XX\n    end\n    else\n        kk :: 1\n    end\nend"),
    ("block", "do\n    XX\nend"),
    ("pure_closure", "c1 :: pu do\n    XX\nend\nc1()"),
    ("fn_closure", "c2 :: fn do\n    XX\nend"),
    ("closure_in_if_in_loop", "loop 1 < 2 do\n    if 1 < 2 do\n        c3 :: pu do\n            XX\n        end\n    end\n    break\nend"),
]
T_PURE_HEAD = '''
cg :: 1
mg := 1
imp :: fn -> int do ret 1 end
pur :: pu -> int do ret 1 end
En :: enum
    A int,
end
Bl :: blob {
    x: int,
}
gb :: Bl { x: 1 }
pf :: pu p: int, ip: fn -> int, pp: pu -> int, bp: Bl -> int do
    NEST
    ret 1
end
start :: fn do
    pr(pf(1, imp, pur, Bl { x: 3 }))
end
'''


def pure_text(body):
    return T_PURE_HEAD.replace("NEST", "\n    ".join(body.replace("XX", XALT).split("\n")))

T_PURE_TYPE = '''
imp :: fn -> int do ret 1 end
pur :: pu -> int do ret 1 end
Bp :: blob {
    h: pu -> int,
}
takes :: fn q: pu -> int -> int do ret q() end
start :: fn do
    __alt1(fn do a1 :: takes(__ealt2(pur, imp)) end,
           fn do a2: pu -> int = __ealt2(pur, imp) end,
           fn do a3 :: Bp { h: __ealt2(pur, imp) } end,
           fn do a4 :: takes(__ealt2(pu -> int do ret 2 end, fn -> int do ret 2 end)) end,
           fn do
               k5 :: __ealt2(pur, imp)
               a5: pu -> int = k5
           end,
           fn do
               k6 :: __ealt2(pur, imp)
               k7 :: k6
               a6 :: takes(k7)
           end,
           fn do
               k8: fn -> int : __ealt2(pu -> int do ret 2 end, fn -> int do ret 2 end)
               a8: pu -> int = k8
           end,
           fn do
               k9: fn -> int : __ealt2(pu -> int do ret 2 end, fn -> int do ret 2 end)
               a9 :: takes(k9)
           end)
    pr(1)
end
'''
# the same through a constant whose annotation says only `fn` (purity left open)
T_PURE_TYPE_FN_ALIAS = '''
imp :: fn -> int do ret 1 end
pur :: pu -> int do ret 1 end
takes :: fn q: pu -> int -> int do ret q() end
through :: fn q: fn -> int -> fn -> int do ret q end
start :: fn do
    __alt1(fn do
               k1: fn -> int : __ealt2(pur, imp)
               a1: pu -> int = k1
           end,
           fn do
               k2: fn -> int : __ealt2(pur, imp)
               a2 :: takes(k2)
           end,
           fn do a3 :: takes(through(__ealt2(pur, imp))) end,
           fn do
               k4 :: __ealt2(pur, imp)
               a4: pu -> int = k4
           end)
    pr(1)
end
'''
# a named impure function that was first handed to `fn`-typed parameters (one level, two levels, several callers) keeps its purity
T_PURE_TYPE_AFTER_FN_USE = '''
imp :: fn x: int -> int do ret x + 1 end
pur :: pu x: int -> int do ret x + 1 end
each :: fn f: fn int -> int, v: int -> int do ret f(v) end
log_each :: fn f: fn int -> int, v: int -> int do ret each(f, v) end
third :: fn f: fn int -> int -> int do ret f(3) end
takes :: fn q: pu int -> int -> int do ret q(1) end
start :: fn do
    __alt1(fn do
               pr(log_each(imp, 1))
               pr(takes(__ealt2(pur, imp)))
           end,
           fn do
               pr(each(imp, 1))
               pr(third(imp))
               pr(log_each(imp, 2))
               pr(takes(__ealt2(pur, imp)))
           end,
           fn do
               pr(takes(__ealt2(pur, imp)))
               pr(log_each(imp, 1))
           end,
           fn do
               pr(each(pur, 1))
               pr(each(imp, 1))
               pr(log_each(pur, 1))
               pr(takes(__ealt2(pur, imp)))
           end)
    pr(1)
end
'''
# externals: their purity is what their declaration says
T_PURE_TYPE_EXTERNAL = '''
ximp: fn -> int : external
xpur: pu -> int : external
takes :: fn q: pu -> int -> int do ret q() end
start :: fn do
    __alt1(fn do
               a1: pu -> int = __ealt2(xpur, ximp)
           end,
           fn do a2 :: takes(__ealt2(xpur, ximp)) end,
           fn do
               p3 :: pu -> int do
                   k3 :: __ealt2(xpur, ximp)
                   ret k3()
               end
           end,
           fn do
               k4 :: __ealt2(xpur, ximp)
               a4: pu -> int = k4
           end)
    pr(1)
end
'''
# a pure function nested in an impure one: the enclosing function's mutable locals are mutable variables too
XN = [("n1 :: lc", False), ("n2 :: p + lc + op", False), ("n3 :: lm", True), ("n4 :: lm + 1", True), ("lm = 2", True), ("lm += 1", True), ("n5 :: if lm > 0 do 1 else 2 end", True),
      ("n6 :: [lm]", True), ("n7 :: (lc, lm)", True), ("n8 :: mg", True), ("n9 :: Bl { x: lm }", True), ("n10 :: lb.x", False)]
XNALT = "__alt2(%s)" % ", ".join("fn do %s end" % s for s, _ in XN)
NESTED = [
    ("pu_in_fn", "inner :: pu p: int -> int do\n    XX\n    ret 1\nend\npr(inner(1))"),
    ("pu_in_branch_of_fn", "if lm > 0 do\n    inner :: pu p: int -> int do\n        XX\n        ret 1\n    end\n    pr(inner(1))\nend"),
    ("pu_in_loop_of_fn", "loop lm > 0 do\n    inner :: pu p: int -> int do\n        if p > 0 do\n            XX\n        end\n        ret 1\n    end\n    pr(inner(1))\n    break\nend"),
    ("pu_in_pu_in_fn", "mid :: pu p: int -> int do\n    inner :: pu do\n        XX\n    end\n    inner()\n    ret 1\nend\npr(mid(1))"),
    ("pu_in_fn_closure_in_fn", "mid :: fn p: int do\n    inner :: pu do\n        XX\n    end\n    inner()\nend\nmid(1)"),
    ("pu_lambda_argument", "pr(app(pu p: int -> int do\n    XX\n    ret 1\nend))"),
]
T_NESTED_HEAD = '''
mg := 1
Bl :: blob {
    x: int,
}
app :: fn q: pu int -> int -> int do ret q(1) end
outer :: fn op: int do
    lm := 1
    lc :: 2
    lb :: Bl { x: 1 }
    NEST
    lm = 3
end
start :: fn do
    outer(1)
end
'''


def nested_text(body):
    return T_NESTED_HEAD.replace("NEST", "\n    ".join(body.replace("XX", XNALT).split("\n")))


def spec_assign(S, I): return z3.Or([I("alt1", i) for i, (_, rej) in enumerate(TARGETS) if rej])
def acc_assign(S, I): return z3.Or([I("alt1", i) for i, (_, rej) in enumerate(TARGETS) if not rej])
def spec_pure(S, I): return z3.Or([I("alt2", i) for i, (_, rej) in enumerate(XS) if rej])
def acc_pure(S, I): return z3.Or([I("alt2", i) for i, (_, rej) in enumerate(XS) if not rej])
def spec_nested(S, I): return z3.Or([I("alt2", i) for i, (_, rej) in enumerate(XN) if rej])
def acc_nested(S, I): return z3.Or([I("alt2", i) for i, (_, rej) in enumerate(XN) if not rej])
def spec_pure_type(S, I): return I("ealt2", 1)
def acc_pure_type(S, I): return I("ealt2", 0)


SPECS = {"assign": spec_assign, "pure": spec_pure, "pure_type": spec_pure_type, "nested": spec_nested}
ACCEPT_SPECS = {"assign": acc_assign, "pure": acc_pure, "pure_type": acc_pure_type, "nested": acc_nested}


def run(tier):
    t0 = time.time()
    files = {"other.sy": "oc :: 1\nom := 1\n"}
    jobs = [{"name": "assign_to_constant", "core": "assignment-target", "module": "checks.C04", "spec": "assign", "text": T_ASSIGN, "files": files}] + [{"name": "pure_function_body@" + n, "core": "pure-body(%s)" % n, "module": "checks.C04", "spec": "pure", "text": pure_text(body)} for n, body in NESTS] + [
            {"name": "pure_type_given_impure", "core": "pure-type", "module": "checks.C04", "spec": "pure_type", "text": T_PURE_TYPE},
            {"name": "pure_type_given_impure_through_fn_annotation", "core": "pure-type-through-fn-annotated-alias", "module": "checks.C04", "spec": "pure_type", "text": T_PURE_TYPE_FN_ALIAS},
            {"name": "pure_type_given_impure_after_use_as_fn", "core": "pure-type-after-use-as-fn", "module": "checks.C04", "spec": "pure_type", "text": T_PURE_TYPE_AFTER_FN_USE},
            {"name": "pure_type_given_impure_external", "core": "pure-type-given-external", "module": "checks.C04", "spec": "pure_type", "text": T_PURE_TYPE_EXTERNAL}] + \
           [{"name": "nested_pure_function@" + n, "core": "nested-pure(%s)" % n, "module": "checks.C04", "spec": "nested", "text": nested_text(b)} for n, b in NESTED]
    return ktcrun.run_check("C04", tier, jobs, t0, ktcrun.KTC_FUNCTIONS,
                            {"assignment_targets": len(TARGETS), "pure_body_constructs": len(XS), "nest_kinds": len(NESTS), "nest_depth": "<= 3 (closure in if in loop)"},
                            ktcrun.KTC_ASSUMPTIONS + ["purity of external declarations is taken as declared", "nest depth <= 3"])
