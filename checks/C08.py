"""C08 - type annotations are optional and never change the generated code.
K-tc + K-ir: in well-typed templates every annotation site (variable definition, parameter of non-function type,
return type) is a z3 choice between the annotation as written and its absence; resolver, dependency order, type
checker and IR lowering run from MIR. Every subset of annotations must be accepted, and the IR must be identical for
all subsets (the emitter is a function of the IR and the usage counts computed from it). A counterexample pair is
rendered to two concrete programs and compiled natively: acceptance and the emitted Lua bytes must be equal."""
import multiprocessing as mp, re, time, traceback
import z3
from vlib import common

TEMPLATES = {
"scalars_and_tuples": '''
add :: fn a: int, b: int -> int do
    ret a + b
end
start :: fn do
    x: int = add(1, 2)
    s: str = "a"
    t: (int, str) = (x, s)
    pr(t)
end
''',
"blobs_and_lists": '''
P :: blob {
    x: int,
    l: [int],
}
mk :: fn n: int -> P do
    ret P { x: n, l: [n] }
end
total :: fn p: P -> int do
    ret p.x
end
start :: fn do
    p: P = mk(3)
    l: [int] = p.l
    pr(total(p))
    pr(l)
end
''',
"function_definitions_with_their_own_type_and_crash_sites": '''
signum: fn int -> int : fn n: int -> int do
    if n > 0 do ret 1 end
    if n < 0 do ret 0 - 1 end
    if n == 0 do ret 0 end
    <!>
end
start :: fn do
    loc: fn int -> int = fn n: int -> int do
        if n > 0 do ret n end
        <!>
    end
    pr(signum(2))
    pr(loc(1))
    (1 + 1) <=> 2
end
''',
"enum_and_case": '''
En :: enum
    A int,
    B,
end
val :: fn e: En -> int do
    case e do
        A v -> ret v end
        else ret 0 end
    end
end
start :: fn do
    e: En = En.A 4
    n: int = val(e)
    pr(n)
end
''',
"loose_blob_field": '''
Bx :: blob {
    label: str,
    v: *,
}
first :: fn -> Bx do
    ret Bx { label: "a", v: 1 }
end
start :: fn do
    a: Bx = first()
    b := Bx { label: "b", v: "text" }
    pr(a.label)
    pr(b.label)
end
''',
"function_typed_variable_shadowing": '''
twice :: fn f: fn int -> int -> fn int -> int do
    ret fn n: int -> int do ret f(f(n)) end
end
inc :: fn n: int -> int do
    ret n + 1
end
start :: fn do
    step := inc
    do
        step: fn int -> int = twice(step)
        pr(step(1))
    end
    pr(step(1))
end
''',
"closures_and_floats": '''
scale :: fn k: float -> fn float -> float do
    ret fn v: float -> float do ret v * k end
end
start :: fn do
    h: fn float -> float = scale(2.0)
    r: float = h(1.5)
    ok: bool = r > 1.0
    pr(ok)
end
''',
"pure_and_generic": '''
idf :: pu v -> v end
sq :: pu n: int -> int do
    ret n * n
end
start :: fn do
    a: int = idf(3)
    b: str = idf("s")
    c: int = sq(a)
    pr(c)
    pr(b)
end
''',
"globals": '''
limit: int : 10
name: str = "n"
pair: (int, int) : (1, 2)
start :: fn do
    k: int = limit + pair[0]
    pr(k)
    pr(name)
end
''',
"tuple_arithmetic_through_parameters": '''
scale :: fn v: (float, float), k: float -> (float, float) do
    ret v / k
end
shift :: fn v: (int, int), d: (int, int) do
    w := v + d
    pr(w * d - v)
end
start :: fn do
    p := scale((1.0, 2.0), 2.0)
    acc: (float, float) = p
    acc /= 2.0
    pr(acc)
    shift((1, 2), (3, 4))
end
''',
"plain_recursive_functions": '''
fib :: fn a: int -> int do
    if a < 2 do
        ret a
    end
    ret fib(a - 1) + fib(a - 2)
end
start :: fn do
    count_down :: fn n: int -> int do
        if n == 0 do
            ret 0
        end
        ret count_down(n - 1)
    end
    pr(fib(5))
    pr(count_down(3))
end
''',
"recursive_function_returning_a_function": '''
idf :: fn x: int -> int do
    ret x
end
make :: fn n: int -> fn int -> int do
    if n == 0 do
        ret idf
    end
    g :: make(n - 1)
    ret fn x: int -> int do ret g(x) + 1 end
end
start :: fn do
    pr(make(2)(1))
end
''',
"call_of_a_field_function_through_a_parameter": '''
Foo :: blob {
    f: fn int -> int,
    n: int,
}
use_it :: fn a: Foo -> int do
    ret a.f(1) + a.n
end
start :: fn do
    pr(use_it(Foo { f: fn v: int -> int do ret v + 1 end, n: 2 }))
end
''',
"annotation_on_an_unrelated_function": '''
describe :: fn q: Shape -> do
    q
end
Pen :: blob {
    width: fn int -> int,
}
Shape :: blob {
    pen: Pen,
}
stroke :: fn s: Shape -> int do
    ret s.pen.width(2)
end
start :: fn do
    s := Shape { pen: Pen { width: fn w: int -> int do ret w * 2 end } }
    describe(s)
    pr(stroke(s))
end
''',
"qualified_type_paths": '''
use shapes
use shapes as sh
get :: fn v: shapes.point.Point -> int do
    ret v.x
end
start :: fn do
    p: shapes.point.Point = shapes.point.mk(1)
    q: sh.point.Point = p
    l: [shapes.point.Point] = [p, q]
    pr(get(q))
    pr(l)
end
''',
}
FILES = {"qualified_type_paths": {"shapes.sy": "use point\n", "point.sy": "Point :: blob {\n    x: int,\n}\nmk :: fn n: int -> Point do\n    ret Point { x: n }\nend\n"}}
_CTX = {}


def work(job):
    name, text = job
    try:
        from mirsym import ktc, macros as X
        k = _CTX.get("k")
        if k is None: k = _CTX["k"] = ktc.Kernel()
        t0 = time.time()
        r = k.explore(text, with_ir=True, optional_annotations=True, files=FILES.get(name))
        if "error" in r: return {"name": name, "status": "template_error", "why": r["error"]}
        S = r["sels"]; irs = {}; bad = []
        for pc, (kind, out) in r["paths"]:
            s = z3.Solver(); s.add(r["base"]); s.add(pc); s.check(); a = ktc.model_assignment(s.model(), S)
            if kind != "ok": bad.append({"kind": "panic", "ann": a, "what": str(out)[:200]}); continue
            if not out["accepted"]: bad.append({"kind": "rejected", "ann": a, "phase": out.get("phase")}); continue
            irs.setdefault(repr(out["ir"]), a)
        if len(irs) > 1:
            vals = list(irs.values()); bad.append({"kind": "ir_differs", "ann": vals[0], "ann2": vals[1]})
        return {"name": name, "status": "ok", "paths": len(r["paths"]), "sites": len(S), "distinct_ir": len(irs), "bad": bad, "steps": r["steps"], "queries": r["queries"], "wall_s": time.time() - t0}
    except Exception as e:
        return {"name": name, "status": "engine_error", "why": "%s: %s %s" % (type(e).__name__, str(e)[:300], traceback.format_exc()[-500:])}


def run(tier):
    t0 = time.time()
    from mirsym import pipeline
    art = common.artifacts(need_mir=pipeline.CRATES, need_replay=True)
    jobs = list(TEMPLATES.items())
    with mp.get_context("fork").Pool(min(16, len(jobs))) as pool: results = pool.map(work, jobs, chunksize=1)
    fnd = common.Findings("C08"); tot = {"paths": 0, "steps": 0, "queries": 0}; samples = []
    for r in results:
        if r["status"] != "ok": fnd.undecided("%s: %s %s" % (r["name"], r["status"], r.get("why", "")[:400])); continue
        for k in tot: tot[k] += r[k]
        # rejected subsets: reported once per template, identified by the smallest set of absent annotations that is rejected
        rej = sorted((sorted(k for k, v in b["ann"].items() if v == "absent") for b in r["bad"] if b["kind"] == "rejected"), key=lambda a: (len(a), a))
        if rej:
            absent = rej[0]
            fnd.report("annotation-changes-acceptance:%s:absent=%s" % (r["name"], "+".join(absent) or "none"), "template %s is rejected when the annotation sites %s are absent and the others present (%d of %d subsets are rejected)" % (r["name"], absent or "(none: all annotations present)", len(rej), r["paths"]), {"template.sy": TEMPLATES[r["name"]]})
        for b in r["bad"]:
            if b["kind"] == "rejected": continue
            if b["kind"] == "ir_differs":
                fnd.report("annotation-changes-code:" + r["name"], "template %s: the IR differs between annotation subsets %s and %s" % (r["name"], b["ann"], b["ann2"]), {"template.sy": TEMPLATES[r["name"]]})
            else: fnd.report("panic:" + r["name"], "template %s panics (%s) with %s" % (r["name"], b["what"], b["ann"]), {"template.sy": TEMPLATES[r["name"]]})
        if len(samples) < 4: samples.append({"template": r["name"], "annotation_sites": r["sites"], "subsets_explored": r["paths"], "distinct_ir": r["distinct_ir"]})
    # native validation: fully annotated vs fully unannotated spellings of each template must give the same bytes
    nat = 0
    for name, text in jobs:
        plain = unannotated(text)
        a = common.compile_sy(art["sylt"], dict(FILES.get(name, {}), **{"main.sy": "pr: fn *X -> void : external\n" + text}), extra=["--no-std"])
        b = common.compile_sy(art["sylt"], dict(FILES.get(name, {}), **{"main.sy": "pr: fn *X -> void : external\n" + plain}), extra=["--no-std"]); nat += 1
        if (a[0] == 0) != (b[0] == 0): fnd.report("annotation-changes-acceptance:" + name, "native: annotated exit %d, unannotated exit %d (%s)" % (a[0], b[0], (a[2] + b[2])[-200:].replace("\n", " ")), {"annotated.sy": text, "unannotated.sy": plain})
        elif a[0] == 0 and a[1] != b[1]: fnd.report("annotation-changes-code:" + name, "native: the emitted Lua differs between the annotated and the unannotated spelling", {"annotated.sy": text, "unannotated.sy": plain})
    # signature layouts: the same function with and without its return annotation, written the way multi-line signatures are written
    for name, (ann, plain) in SIG_PAIRS.items():
        a = common.compile_sy(art["sylt"], {"main.sy": "pr: fn *X -> void : external\n" + ann}, extra=["--no-std"])
        b = common.compile_sy(art["sylt"], {"main.sy": "pr: fn *X -> void : external\n" + plain}, extra=["--no-std"]); nat += 1
        if a[0] != 0 and b[0] != 0: fnd.undecided("signature layout %s is rejected with and without the annotation: %s" % (name, a[2][-200:]))
        elif (a[0] == 0) != (b[0] == 0): fnd.report("annotation-changes-acceptance:signature-layout:" + name, "native: annotated exit %d, unannotated exit %d (%s)" % (a[0], b[0], (a[2] + b[2])[-200:].replace("\n", " ")), {"annotated.sy": ann, "unannotated.sy": plain})
        elif a[1] != b[1]: fnd.report("annotation-changes-code:signature-layout:" + name, "native: the emitted Lua differs between the annotated and the unannotated spelling", {"annotated.sy": ann, "unannotated.sy": plain})
    nat += corpus_unannotated(art, fnd)
    cov = {"states": max(1, tot["paths"]), "transitions": max(1, tot["queries"]), "traces_validated_against_impl": nat, "samples": samples or [{"note": "none"}], "templates": len(jobs), "mir_statements": tot["steps"],
           "functions_encoded": ["name_resolution::resolve", "dependency::initialization_order", "typechecker::solve", "intermediate::compile"],
           "bounds": {"annotation_sites_per_template": "<= 7 (all subsets)", "templates": list(TEMPLATES)}, "known_findings_seen": sorted(fnd.seen_known)}
    rc = fnd.finish()
    common.write_evidence("C08", tier, "model_checking", cov, ["the Lua emitter is a deterministic function of the IR and of count_usages(IR); byte identity is asserted on the IR (and natively on the all/none pair per template)",
                          "annotations of function type on parameters are not toggled (the statement excludes them); generic (*T) annotations are kept as written",
                          "tokenizer/parser run natively on the annotated text; absence is modelled on the AST exactly as the parser represents it (Implied / Resolved(Unknown))"], time.time() - t0, len(fnd.violations))
    print("C08: %d templates, %d annotation subsets, %d queries, %d native pairs, wall %.1fs" % (len(jobs), tot["paths"], tot["queries"], nat, time.time() - t0))
    return rc


def _sig(body_first, sig_ann, sig_plain, call="pr(f(3))"):
    t = "f :: %s\n" + body_first + "    ret x\nend\nstart :: fn do\n    " + call + "\nend\n"
    return (t % sig_ann, t % sig_plain)
_BLK = "    do\n        y :: x\n        if y < 0 do\n            ret 0\n        end\n    end\n"
SIG_PAIRS = {
    "return_type_then_block_statement": _sig(_BLK, "fn x: int -> int", "fn x: int ->"),
    "return_type_then_comment_then_block_statement": _sig(_BLK, "fn x: int -> int // the result", "fn x: int -> // the result"),
    "return_type_then_plain_statement": _sig("    pr(x)\n", "fn x: int -> int", "fn x: int ->"),
    "return_type_then_blank_line": _sig("\n" + _BLK, "fn x: int -> int", "fn x: int ->"),
    "return_type_on_the_do_line": _sig("    pr(x)\n", "fn x: int -> int do", "fn x: int -> do"),
    "tuple_return_type_then_block_statement": _sig(_BLK.replace("ret 0", "ret (0, 0)").replace("y < 0", "y < (0, 0)"), "fn x: (int, int) -> (int, int)", "fn x: (int, int) ->", call="pr(f((1, 2)))"),
    "function_return_type_then_block_statement": ("mk :: fn k: int -> fn int -> int\n    do\n        pr(k)\n    end\n    ret fn v: int -> int do ret v + k end\nend\nstart :: fn do\n    pr(mk(1)(2))\nend\n",
                                                  "mk :: fn k: int ->\n    do\n        pr(k)\n    end\n    ret fn v: int -> int do ret v + k end\nend\nstart :: fn do\n    pr(mk(1)(2))\nend\n"),
    "local_function_return_type_then_block_statement": ("start :: fn do\n    f :: fn x: int -> int\n        do\n            pr(x)\n        end\n        ret x\n    end\n    pr(f(3))\nend\n",
                                                        "start :: fn do\n    f :: fn x: int ->\n        do\n            pr(x)\n        end\n        ret x\n    end\n    pr(f(3))\nend\n"),
}


def corpus_unannotated(art, fnd):
    """every accepted program of tests/**/*.sy that annotates variable definitions: the spelling without them must be accepted too and give the same bytes"""
    import os, shutil, subprocess, tempfile
    from luasym import runner
    work = tempfile.mkdtemp(prefix="c08c_", dir=common.SCRATCH); n = 0
    try:
        shutil.copytree(common.repo_path("tests"), os.path.join(work, "tests"))
        for f in runner.corpus(os.path.join(work, "tests")):
            text = open(f, errors="surrogateescape").read(); plain = unannotated(text)
            if plain == text or os.path.basename(f) == "exports.sy": continue
            base = subprocess.run([art["sylt"], "-o", "-", f], cwd=work, capture_output=True, text=True, errors="surrogateescape", timeout=120)
            if base.returncode != 0: continue
            g = os.path.join(os.path.dirname(f), "c08_" + os.path.basename(f)); open(g, "w", errors="surrogateescape").write(plain)
            r = subprocess.run([art["sylt"], "-o", "-", g], cwd=work, capture_output=True, text=True, errors="surrogateescape", timeout=120); os.remove(g); n += 1
            rel = os.path.relpath(f, os.path.join(work, "tests"))
            if r.returncode != 0: fnd.report("annotation-changes-acceptance:corpus", "tests/%s is accepted, without its variable annotations it is rejected: %s" % (rel, r.stdout[-200:].replace("\n", " ")), {"annotated.sy": text, "unannotated.sy": plain})
            elif re.sub(r"on line \d+", "on line N", r.stdout) != re.sub(r"on line \d+", "on line N", base.stdout): fnd.report("annotation-changes-code:corpus", "tests/%s: the emitted Lua differs without the variable annotations" % rel, {"annotated.sy": text, "unannotated.sy": plain})
    finally: shutil.rmtree(work, ignore_errors=True)
    return n


def unannotated(text):
    """removes every variable annotation (`name: T = e` -> `name := e`, `name: T : e` -> `name :: e`) from the template text"""
    out = []
    for line in text.split("\n"):
        m = re.match(r"^(\s*)(\w+): ([^=:]+?) (=|:) (.*)$", line)
        if m and "external" not in m.group(5): line = "%s%s %s %s" % (m.group(1), m.group(2), ":=" if m.group(4) == "=" else "::", m.group(5))
        out.append(line)
    return "\n".join(out)
