"""C16 - compilation is deterministic.
K-hash: std's HashMap iterates in an order that depends on a per-process random seed. In the E-MIR model every
iteration over a HashMap (iter / keys / values / into_iter / drain / extend-from, found dynamically while the real
resolver, dependency order, type checker and IR lowering run from MIR) yields its entries in a z3-chosen permutation
(all permutations up to 3 entries, identity/reversal/rotation above). The observable result - Ok with the IR, or the
error list (variant, file, span, and the name picked for the "Maybe you ment" help) - must be the same on every path.
Supplementary: a scan of the MIR dumps for mutable global state (static mut, thread_local, OnceCell/Lazy/Mutex
statics) reachable without the `timed` feature; native: the binary is run several times (fresh hash seeds) on the
same inputs and must print byte-identical output."""
import itertools, multiprocessing as mp, os, re, shutil, subprocess, tempfile, time, traceback
import z3
from vlib import common

PRE = "pr: fn *X -> void : external\n"
TEMPLATES = {
"blob_unresolved_field_types": "A :: blob {\n    x: Foo,\n    y: Bar,\n    z: Baz,\n}\nstart :: fn do\n    pr(1)\nend\n",
"enum_unresolved_variant_types": "En :: enum\n    P Foo,\n    Q Bar,\n    R Baz,\nend\nstart :: fn do\n    pr(1)\nend\n",
"blob_instance_two_wrong_fields": "A :: blob {\n    x: int,\n    y: int,\n    z: int,\n}\nstart :: fn do\n    a := A { x: \"s\", y: true, z: 1.5 }\n    pr(a)\nend\n",
"blob_instance_missing_fields": "A :: blob {\n    x: int,\n    y: int,\n    z: int,\n}\nstart :: fn do\n    a := A { }\n    pr(a)\nend\n",
"blob_instance_extra_fields": "A :: blob {\n    x: int,\n}\nstart :: fn do\n    a := A { x: 1, p: 2, q: 3 }\n    pr(a)\nend\n",
"two_blobs_unify": "A :: blob {\n    x: int,\n    y: str,\n    z: bool,\n}\nB :: blob {\n    x: str,\n    y: int,\n    z: int,\n}\nstart :: fn do\n    a := A { x: 1, y: \"s\", z: true }\n    a = B { x: \"s\", y: 1, z: 2 }\nend\n",
"valid_blobs_and_enums": "A :: blob {\n    x: int,\n    y: str,\n    z: (int, int),\n}\nEn :: enum\n    P int,\n    Q str,\n    R,\nend\nshow :: fn e: En -> int do\n    case e do\n        P v -> ret v end\n        Q s -> ret 1 end\n        R -> ret 2 end\n    end\nend\nstart :: fn do\n    a := A { z: (1, 2), y: \"s\", x: 3 }\n    pr(a.x + show(En.P 2) + show(En.R))\nend\n",
"unresolved_name_with_equally_close_globals": "scale_x :: 1\nscale_y :: 2\nscale_z :: 3\nstart :: fn do\n    v := 4\n    pr(scale_w + v)\nend\n",
"enum_case_missing_variants": "En :: enum\n    P,\n    Q,\n    R,\n    S,\nend\nstart :: fn do\n    e := En.P\n    case e do\n        P -> pr(1) end\n    end\nend\n",
"multi_file_duplicate_names": None,
# several DIFFERENT names each defined more than once in one module (one error per duplicate, in source order)
"three_names_each_defined_twice": "width :: 1\nheight :: 2\nwidth :: 3\ndepth :: 5\nheight :: 4\ndepth :: 6\nstart :: fn do\n    pr(width)\nend\n",
"duplicate_functions_blobs_and_values": "area :: fn do end\nPt :: blob { x: int }\nside :: 1\narea :: fn do end\nside :: 2\nPt :: blob { y: int }\nstart :: fn do\n    pr(side)\nend\n",
# constrained type variables of a function type: several bad constraints, unused variables, and a valid one
"function_type_two_unknown_constraints": "fc: fn<a: Blargh, b: Flurb, c: Zork> *a, *b, *c -> void : external\nstart :: fn do\n    pr(1)\nend\n",
"function_type_bad_constraint_arity_and_unknown": "gc: fn<a: Num x, b: Flurb> *a, *b -> *a : external\nstart :: fn do\n    pr(1)\nend\n",
"function_type_unused_and_unknown_constraint_variables": "hc: fn<a: Blargh, b: Num, c: Flurb> *a -> *a : external\nstart :: fn do\n    pr(1)\nend\n",
"function_type_valid_constraints": "hh :: fn a: *A, b: *B -> *A do\n    a\nend\nkc: fn<A: Num, B: CmpEqu> *A, *B -> *A : hh\nstart :: fn do\n    pr(kc(1, \"x\"))\nend\n",
# several independent errors in fields / variants written on ONE line (the one-line form of small blobs and enums)
"blob_unresolved_field_types_same_line": "A :: blob { x: Foo, y: Bar, z: Baz }\nstart :: fn do\n    pr(1)\nend\n",
"enum_unresolved_variant_types_same_line": "En :: enum P Foo, Q Bar, R Baz end\nstart :: fn do\n    pr(1)\nend\n",
"blob_bad_type_arguments_same_line": "Box :: blob { v: int }\nA :: blob { x: Box(int), y: Box(str), z: Box(bool) }\nstart :: fn do\n    pr(1)\nend\n",
"enum_bad_type_arguments_same_line": "Box :: blob { v: int }\nEn :: enum P Box(int), Q Box(str), R *U end\nstart :: fn do\n    pr(1)\nend\n",
"valid_same_line_declarations": "A :: blob { x: int, y: str, z: (int, int) }\nEn :: enum P int, Q str, R end\nstart :: fn do\n    a := A { z: (1, 2), y: \"s\", x: 1 }\n    pr(a)\n    pr(En.Q \"q\")\nend\n",
}
FILES = {"multi_file_duplicate_names": {"main.sy": PRE + "use a\nuse b\nfrom a use (va, vb)\nfrom b use (va, vb)\nstart :: fn do\n    pr(va)\nend\n", "a.sy": "va :: 1\nvb :: 2\n", "b.sy": "va :: 3\nvb :: 4\n"}}
_CTX = {}


def lev(a, b):
    prev = list(range(len(b) + 1))
    for i, ca in enumerate(a, 1):
        cur = [i]
        for j, cb in enumerate(b, 1): cur.append(min(prev[j] + 1, cur[j - 1] + 1, prev[j - 1] + (ca != cb)))
        prev = cur
    return prev[-1]


def work(job):
    name = job
    try:
        from mirsym import core as M, pipeline as P
        pl = _CTX.get("pl")
        if pl is None: pl = _CTX["pl"] = P.Pipeline()
        ex = pl.m.ex; fns = pl.m.fns
        files = FILES.get(name) or {"main.sy": PRE + TEMPLATES[name]}
        ast0, err = pl.parse_native(files, no_std=True)
        if ast0 is None: return {"name": name, "status": "template_error", "why": (err or "")[:300]}
        ns0 = pl.namespaces(ast0)
        SV = M.QENUMS[("name_resolution", "Statement")]; EV = M.QENUMS[("sylt_common", "Error")]
        sites = {}
        perm_of = {}
        def hook(m, keys):
            n = len(keys)
            if n < 2: return keys
            where = "%s %s" % (ex.last[0].split("::")[-1][:40], ex.last[1])
            sites[where] = max(sites.get(where, 0), n)
            # one order per map object and size on a path (a map that is not modified iterates the same way every time)
            key = (id(m), n)
            if key not in perm_of:
                if n == 2 or _CTX.get("tier") == "quick": perms = [tuple(range(n)), tuple(reversed(range(n)))]
                else: perms = [tuple(range(n)), tuple(reversed(range(n))), tuple(range(1, n)) + (0,)]
                perm_of[key] = perms[ex.decide([(i, None) for i in range(len(perms))])]
            return [keys[i] for i in perm_of[key]]
        ex.hash_order_hook = hook
        obs = []
        # the real find_similar_name runs (its pick feeds the help text, an observable part of the error)
        def dr(v):
            while isinstance(v, M.Ref): v = v.get()
            return v
        ex.stubs["levenshtein"] = lambda a: lev(dr(a[0]), dr(a[1]))
        _stub_call = ex.call
        def call(callee, args):
            c = M.strip_gen(callee)
            if c.endswith("find_similar_name"):
                saved = ex.call; ex.call = _CTX["orig_call"]
                try:
                    f = ex.resolve(callee, args); r = ex.run(f, args)
                finally: ex.call = saved
                obs.append(("similar", repr(r)[:80])); return r
            return _CTX["orig_call"](callee, args)
        if "orig_call" not in _CTX: _CTX["orig_call"] = M.Exec.call.__get__(ex, M.Exec)
        ex.call = call
        def errsig(errs):
            out = []
            for e in errs.items:
                vn = EV[e.disc]
                fields = {"SyntaxError": ["file", "span", "message"], "CompileError": ["file", "span", "message", "helpers"], "TypeError": ["kind", "file", "span", "message", "helpers"], "GitConflictError": ["file", "span"]}.get(vn, [])
                sp = e.fields[fields.index("span")] if "span" in fields else None
                kind = e.fields[0] if vn == "TypeError" else None
                out.append((vn, repr(kind)[:60] if kind is not None else "", tuple(sp.fields) if sp is not None else ()))
            return tuple(out)
        def thunk():
            del obs[:]; perm_of.clear()
            a = M.deep(ast0); n = M.deep(ns0)
            r = ex.run(fns["resolve"], [M.Ref([a], 0), M.Ref([n], 0)])
            if r.disc != 0: return ("resolve-err", errsig(r.fields[0]), tuple(obs))
            vars_, stmts = r.fields[0].fields
            o = ex.run(fns["initialization_order"], [M.Ref([stmts], 0)])
            if o.disc != 0: return ("order-err", tuple(sorted(repr(x)[:40] for x in o.fields[0].items)), tuple(obs))
            items = [M.deep(x.get() if isinstance(x, M.Ref) else x) for x in o.fields[0].items]
            order_sig = tuple(x.fields[0] if isinstance(x.fields[0], str) else "?" for x in items)
            items.sort(key=lambda s: 0 if SV[s.disc] in ("Blob", "Enum") else 1); ss = M.VecV(items)
            s = ex.run(fns["solve"], [M.Ref([vars_], 0), M.Ref([ss], 0), M.Ref([n], 0)])
            if s.disc != 0: return ("solve-err", errsig(s.fields[0]), tuple(obs))
            ir = ex.run(fns["intermediate::compile"], [M.Ref([s.fields[0]], 0), M.Ref([ss], 0)])
            return ("ok", repr(ir), tuple(obs), order_sig)
        ex.base = []; ex.steps = 0; ex.queries = 0
        t0 = time.time()
        res = []
        ex.pending = [[]]
        while ex.pending:
            if len(res) >= 3000: break
            ex.prefix = ex.pending.pop(); ex.decisions = []; ex.pc = []
            ex.solver = z3.Solver()
            try: out = ("ok", thunk())
            except M.Panic as e: out = ("panic", str(e))
            except M.Infeasible: continue
            res.append((list(ex.decisions), out))
        ex.hash_order_hook = None; ex.call = _CTX["orig_call"]
        outcomes = {}
        for dec, (k, v) in res: outcomes.setdefault((k, v), []).append(dec)
        return {"name": name, "status": "ok", "paths": len(res), "distinct_outcomes": len(outcomes), "sites": sites, "steps": ex.steps,
                "examples": [{"outcome": str(o)[:300], "orders": len(ds), "one_order": ds[0][:8]} for o, ds in list(outcomes.items())[:3]], "capped": bool(ex.pending), "wall_s": time.time() - t0}
    except Exception as e:
        return {"name": name, "status": "engine_error", "why": "%s: %s %s" % (type(e).__name__, str(e)[:300], traceback.format_exc()[-500:])}


def global_state_scan(art):
    """mutable global state in the MIR dumps (without the `timed` feature)"""
    hits = []
    for crate, path in art["mir"].items():
        for ln in open(path):
            if ln.startswith("static mut ") or (ln.startswith("static ") and re.search(r"(Cell|RefCell|Mutex|RwLock|Atomic|OnceCell|Lazy|LocalKey)", ln)) or "thread_local" in ln or "LocalKey<" in ln.split("=")[0] if ln.startswith(("static ", "const ")) else False:
                hits.append((crate, ln.strip()[:160]))
    return hits


def hash_eq_scan():
    """types that derive Hash but implement PartialEq by hand: as keys of a HashMap their lookups depend on the per-process hash seed whenever
    two values compare equal but hash differently (std requires k1 == k2 => hash(k1) == hash(k2))"""
    hits = []
    for crate in ("sylt-common", "sylt-tokenizer", "sylt-parser", "sylt-compiler"):
        d = common.repo_path(os.path.join(crate, "src"))
        for f in sorted(os.listdir(d)):
            if not f.endswith(".rs"): continue
            src = open(os.path.join(d, f)).read()
            for m in re.finditer(r"#\[derive\(([^)]*)\)\]\s*(?:pub(?:\([^)]*\))?\s+)?(?:struct|enum)\s+(\w+)", src):
                derives = [x.strip() for x in m.group(1).split(",")]; name = m.group(2)
                if "Hash" in derives and "PartialEq" not in derives and re.search(r"impl\s+PartialEq\s+for\s+%s\b" % name, src) and not re.search(r"impl\s+(std::hash::)?Hash\s+for\s+%s\b" % name, src):
                    hits.append((crate + "/src/" + f, name))
    return hits


RICH = '''
P :: blob {
    x: int,
    f: fn int -> int,
}
E :: enum
    A int,
    B int,
    C,
end
g := 0
count :: fn n: int -> int do
    total := 0
    i := 0
    loop i < n do
        i += 1
        if i == 2 do continue end
        j := 0
        loop do
            j += 1
            if j > i do break end
            total += i
        end
    end
    ret total
end
pick :: fn e: E -> int do
    ret case e do
        A x -> x * 2 end
        B y -> y end
        else 0 end
    end
end
start :: fn do
    p := P { x: 1, f: fn a: int -> int do ret a + self.x end }
    fs := [fn -> int do ret g end, fn -> int do
        g += 1
        ret g
    end]
    print(count(3))
    print(pick(E.A 1) + pick(E.B 2) + pick(E.C))
    print(p.f(2))
    v := if g > 0 and p.x > 0 or g == 0 do (1, "a") else (2, "b") end
    print(v)
    fs -> for_each(fn f: fn -> int do print(f()) end)
    d := dict.from_list([(1, 2.5)])
    print(d -> dict.get(1))
    l := [1, 2] -> map(pu q: int -> int do q * 2 end)
    print(l == [2, 4])
    (1 + 1) <=> 2
end
'''


def history_check(art, tier):
    """sequences of two compilations in one thread vs the second alone"""
    progs = {
        "one_file_ok": {"main.sy": "start :: fn do\n    print(1)\nend\n"},
        "two_files_ok": {"main.sy": "use other\nstart :: fn do\n    print(other.v)\nend\n", "other.sy": "v :: 1\n"},
        "redefines_print": {"main.sy": "print :: fn a do end\nstart :: fn do\n    print(1)\nend\n"},
        "three_files_err": {"main.sy": "use p\nuse q\nstart :: fn do\n    print(p.v + nope)\nend\n", "p.sy": "v :: 1\n", "q.sy": "w :: 2\n"},
        "type_error": {"main.sy": "start :: fn do\n    x := 1 + \"s\"\nend\n"},
        # every construct that makes the code generator name something (temporaries, labels, closures, result variables, type ids)
        "rich": {"main.sy": RICH},
        "rich_err": {"main.sy": RICH.replace("total += i", "total += i + \"s\"").replace("B y -> y end", "B y -> y + nope end")},
    }
    d = tempfile.mkdtemp(prefix="c16h_", dir=common.SCRATCH); diffs = []; runs = 0
    try:
        for n, files in progs.items():
            for rel, text in files.items():
                p = os.path.join(d, n, rel); os.makedirs(os.path.dirname(p), exist_ok=True); open(p, "w").write(text)
        names = list(progs)
        def seq(*ns):
            out = subprocess.run([art["replay"], "seq"] + [os.path.join(n, "main.sy") for n in ns], cwd=d, capture_output=True, text=True, timeout=120).stdout
            parts = out.split("FILE ")
            if len(parts) < 2: raise common.Inconclusive("replay tool `seq` produced no result: " + out[:200])
            return parts[-1]
        alone = {n: seq(n) for n in names}; runs += len(names)
        for n in names:
            # vacuity guard: the programs meant to compile do compile (a rejected program exercises no code generation)
            if n != "redefines_print" and ("err" in n or "error" in n) == (" OK " in alone[n].split("\n")[0]): raise common.Inconclusive("history program %s: expected %s, got %s" % (n, "an error" if "err" in n else "OK", alone[n][:200]))
        for a in names:
            for b in names:
                after = seq(a, b); runs += 1
                if after != alone[b]: diffs.append({"a": a, "b": b, "after": after, "alone": alone[b], "files": {"a/" + k: v for k, v in progs[a].items()} | {"b/" + k: v for k, v in progs[b].items()}})
    finally: shutil.rmtree(d, ignore_errors=True)
    return {"diffs": diffs, "runs": runs}


def native_repeat(sylt, files, n):
    outs = set()
    d = tempfile.mkdtemp(prefix="c16_", dir=common.SCRATCH)
    try:
        for rel, text in files.items(): open(os.path.join(d, rel), "w").write(text)
        for _ in range(n):
            r = subprocess.run([sylt, "--no-std", "-o", "-", "main.sy"], cwd=d, capture_output=True, text=True, timeout=60)
            outs.add((r.returncode, r.stdout, r.stderr))
    finally: shutil.rmtree(d, ignore_errors=True)
    return outs


def run(tier):
    t0 = time.time()
    from mirsym import pipeline
    art = common.artifacts(need_mir=pipeline.CRATES, need_replay=True)
    jobs = list(TEMPLATES); _CTX["tier"] = tier
    with mp.get_context("fork").Pool(min(16, len(jobs))) as pool: results = pool.map(work, jobs, chunksize=1)
    fnd = common.Findings("C16"); tot = {"paths": 0, "steps": 0}; samples = []; allsites = {}
    reps = 6 if tier == "quick" else 24; nat = 0
    for r in results:
        if r["status"] != "ok": fnd.undecided("%s: %s %s" % (r["name"], r["status"], r.get("why", "")[:400])); continue
        tot["paths"] += r["paths"]; tot["steps"] += r["steps"]
        for s_, n_ in r["sites"].items(): allsites[s_] = max(allsites.get(s_, 0), n_)
        if r["capped"]: fnd.undecided("%s: more than 3000 permutation paths, exploration capped" % r["name"])
        files = FILES.get(r["name"]) or {"main.sy": PRE + TEMPLATES[r["name"]]}
        outs = native_repeat(art["sylt"], files, reps); nat += reps
        if r["distinct_outcomes"] > 1:
            # replay: fresh processes have fresh hash seeds; the outputs must then differ for some pair of runs
            more = native_repeat(art["sylt"], files, 40) if len(outs) == 1 else outs; nat += 40 if len(outs) == 1 else 0
            if len(more | outs) > 1:
                a, b = list(more | outs)[:2]
                fnd.report("order-dependent-result:" + r["name"], "template %s: the result depends on HashMap iteration order (%d distinct results over %d orders; native runs print %d different outputs)" % (r["name"], r["distinct_outcomes"], r["paths"], len(more | outs)),
                           dict(files, **{"run1.txt": a[1] + a[2], "run2.txt": b[1] + b[2]}), cmd="for i in 1 2 3 4 5 6 7 8; do sylt --no-std -o - main.sy | md5sum; done")
            else: fnd.undecided("%s: %d distinct results over iteration orders in the MIR model (%s) but 46 native runs printed identical output" % (r["name"], r["distinct_outcomes"], r["examples"][:2]))
        elif len(outs) > 1:
            a, b = list(outs)[:2]
            fnd.report("nondeterministic-output:" + r["name"], "template %s: %d native runs print %d different outputs" % (r["name"], reps, len(outs)), dict(files, **{"run1.txt": a[1] + a[2], "run2.txt": b[1] + b[2]}))
        if len(samples) < 5: samples.append({"template": r["name"], "iteration_orders_explored": r["paths"], "distinct_results": r["distinct_outcomes"], "hash_iteration_sites": r["sites"]})
    gs = global_state_scan(art)
    # history independence: B compiled after A (same thread, same process) must give what B gives in a fresh process
    for where, ty in hash_eq_scan():
        fnd.report("hash-inconsistent-with-eq:" + ty, "%s: `%s` derives Hash over all its fields but implements PartialEq by hand, so equal values can hash differently and HashMap / HashSet lookups keyed by it depend on the hash seed" % (where, ty), {"note.txt": where + " " + ty})
    # duplicates inside hash-keyed declarations: many fresh processes, the outcome must never vary
    for nm, text in (("duplicate_blob_field", "Aa :: blob {\n    x: int,\n    x: int,\n}\nstart :: fn do\nend\n"), ("duplicate_enum_variant", "Ee :: enum\n    X,\n    X,\nend\nstart :: fn do\nend\n"), ("duplicate_blob_field_same_line", "Aa :: blob { x: int, x: str }\nstart :: fn do\nend\n")):
        k = 120 if tier == "quick" else 600
        outs = native_repeat(art["sylt"], {"main.sy": text}, k); nat += k
        if len(outs) > 1: fnd.report("native-nondeterministic:" + nm, "%s: %d different outcomes in %d runs (exit codes %s)" % (nm, len(outs), k, sorted(set(o[0] for o in outs))), {"main.sy": text}, cmd="for i in $(seq 200); do sylt --no-std -o - main.sy | md5sum; done | sort | uniq -c")
    hist = history_check(art, tier); nat += hist["runs"]
    # the repo's own programs (with the bundled std): fresh processes have fresh hash seeds, every run must print the same bytes
    from luasym import runner
    import random
    files_c = runner.corpus(common.repo_path("tests")); rnd = random.Random(common.seed())
    if tier == "quick": files_c = rnd.sample(files_c, min(len(files_c), 60))
    def _runs(f):
        outs = set()
        for _ in range(3):
            r = subprocess.run([art["sylt"], "-o", "-", f], cwd=common.REPO, capture_output=True, text=True, timeout=120); outs.add((r.returncode, r.stdout, r.stderr))
        return f, len(outs)
    from concurrent.futures import ThreadPoolExecutor
    with ThreadPoolExecutor(16) as tp: corpus_res = list(tp.map(_runs, files_c))
    nat += 3 * len(files_c)
    for f, k in corpus_res:
        if k > 1: fnd.report("native-nondeterministic:corpus", "tests/%s: %d different outputs in 3 runs of the same binary on the same input" % (os.path.relpath(f, common.repo_path("tests")), k), {"note.txt": f}, cmd="for i in 1 2 3; do sylt -o - %s | md5sum; done" % f)
    for h in hist["diffs"]:
        fnd.report("depends-on-earlier-compilations", "compiling %s after %s gives a different result than compiling it first: %s vs %s%s" % (h["b"], h["a"], h["after"][:160], h["alone"][:160],
                   (" (global state in the MIR dump: %s)" % gs[0][1][:100]) if gs else ""), h["files"], cmd="sylt-replay seq a/main.sy b/main.sy ; sylt-replay seq b/main.sy")
    if gs and not hist["diffs"]: print("NOTE C16: mutable global state present (%s) but no history dependence observed on %d sequences" % (gs[0][1][:80], hist["runs"]))
    cov = {"states": max(1, tot["paths"]), "transitions": max(1, tot["paths"]), "traces_validated_against_impl": nat, "samples": samples or [{"note": "none"}], "templates": len(jobs), "mir_statements": tot["steps"],
           "hash_iteration_sites_seen": allsites, "global_state_hits": len(gs),
           "functions_encoded": ["name_resolution::resolve", "dependency::initialization_order", "typechecker::solve", "intermediate::compile", "Resolver::find_similar_name"],
           "bounds": {"permutations": "both orders for 2 entries; identity, reversal and one rotation for >= 3 entries; one order per map object per path", "paths_per_template": "<= 3000"}, "known_findings_seen": sorted(fnd.seen_known)}
    rc = fnd.finish()
    common.write_evidence("C16", tier, "model_checking", cov, ["std::collections::HashMap iterates in an arbitrary order (its documented contract); BTreeMap/BTreeSet/Vec iterate in key / insertion order",
                          "error message texts are opaque in the MIR model (format!); errors are compared by variant, type-error kind, file and span, plus the name picked by find_similar_name; full texts are compared natively",
                          "levenshtein (external crate) is modelled by its contract (edit distance)", "cross-process repetition itself is covered only by the native runs (%d per template)" % reps], time.time() - t0, len(fnd.violations))
    if not allsites and tot["paths"]: print("INCONCLUSIVE property=C16 no HashMap iteration was met on any template (the order-independence claim would be vacuous)"); rc = rc or 2
    print("C16: %d templates, %d iteration orders explored, %d native runs, %d hash-iteration sites, wall %.1fs" % (len(jobs), tot["paths"], nat, len(allsites), time.time() - t0))
    return rc
