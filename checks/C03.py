"""C03 - type mismatches are rejected at compile time.
K-tc: the real resolver, dependency order and type checker are executed from their MIR on templates =
placement x core, where literal kinds, operator, declared type and arity are z3 selectors. For every explored path
that ends in acceptance the query  pc AND mismatch(selectors)  must be unsat. A model is rendered to concrete Sylt,
compiled by the native binary, and reported only if the binary accepts it too."""
import multiprocessing as mp, os, time, traceback
import z3
from vlib import common

PLACEMENTS = {
    "global_initialiser": "g :: CORE\nvd :: fn do end\nstart :: fn do\n    pr(1)\nend\n",
    "statement_in_start": "vd :: fn do end\nstart :: fn do\n    x := CORE\n    pr(1)\nend\n",
    "unused_expression_statement": "vd :: fn do end\nstart :: fn do\n    CORE\n    pr(1)\nend\n",
    "trailing_expression": "vd :: fn do end\nf :: fn ->\n    CORE\nend\nstart :: fn do\n    f()\n    pr(1)\nend\n",
    "closure_body": "vd :: fn do end\nstart :: fn do\n    c :: fn do\n        y := CORE\n        pr(0)\n    end\n    c()\nend\n",
    "if_branch": "vd :: fn do end\nstart :: fn do\n    if 1 < 2 do\n        y := CORE\n    end\n    pr(0)\nend\n",
    "else_branch": "vd :: fn do end\nstart :: fn do\n    if 1 < 2 do\n        pr(1)\n    else\n        y := CORE\n        pr(3)\n    end\n    pr(0)\nend\n",
    "loop_body": "vd :: fn do end\nstart :: fn do\n    loop 1 < 2 do\n        y := CORE\n        break\n    end\nend\n",
    "call_argument": "vd :: fn do end\nstart :: fn do\n    pr(CORE)\nend\n",
    "after_return": "vd :: fn do end\nstart :: fn do\n    pr(1)\n    if 1 < 2 do\n        ret\n    end\n    ret\n    x := CORE\n    pr(2)\nend\n",
    "after_return_in_branch": "vd :: fn do end\nhalf :: fn c: bool -> int do\n    if c do\n        ret 1\n        y := CORE\n    end\n    ret 2\nend\nstart :: fn do\n    pr(half(true))\nend\n",
    "case_arm": "vd :: fn do end\nEn :: enum\n    A int,\n    B,\nend\nstart :: fn do\n    case En.A 1 do\n        A v ->\n            y := CORE\n            pr(3)\n        end\n        else pr(2) end\n    end\n    pr(0)\nend\n",
    "nested_closure_in_if_in_loop": "vd :: fn do end\nstart :: fn do\n    loop 1 < 2 do\n        if 1 < 2 do\n            c :: fn do\n                y := CORE\n                pr(0)\n            end\n            c()\n        end\n        break\n    end\nend\n",
}
NUM = ["int", "float"]


def spec_binop(S, I, left=None, right=None):
    """definite mismatch of  __op1(__lit1, __lit2)  (left/right: a fixed literal kind instead of a selector)"""
    kinds = S["lit1"][1]
    a = (lambda k: I("lit1", k)) if left is None else (lambda k: z3.BoolVal(k == left))
    b = (lambda k: I("lit2", k)) if right is None else (lambda k: z3.BoolVal(k == right))
    if left is not None and right is None: b = lambda k: I("lit1", k)
    op = lambda o: I("op1", o)
    same = z3.Or([z3.And(a(k), b(k)) for k in kinds])
    anum = z3.Or([a(k) for k in NUM]); bnum = z3.Or([b(k) for k in NUM])
    both = lambda ks: z3.Or([z3.And(a(k), b(k)) for k in ks if k in kinds])
    # a void operand is a definite mismatch for arithmetic, ordering and boolean operators (== on two voids is left open)
    void = z3.And(z3.Or(a("void"), b("void")), z3.Not(z3.Or(op("=="), op("!="), op("<=>"))))
    ok = z3.Or(
        z3.And(op("+"), both(["int", "float", "str", "tuple", "list"])),
        z3.And(op("+"), both(["tuple_str"])),
        z3.And(z3.Or(op("-"), op("*")), both(["int", "float", "tuple", "list"])),
        z3.And(op("/"), z3.Or(z3.And(anum, bnum), both(["tuple", "list"]), z3.And(a("tuple"), bnum))),
        z3.And(z3.Or(op("=="), op("!="), op("<=>")), same),
        z3.And(z3.Or(op("<"), op(">"), op("<="), op(">=")), z3.Or(z3.And(anum, bnum), both(["str", "tuple", "list", "tuple_str"]))),
        z3.And(z3.Or(op("and"), op("or")), both(["bool"])))
    return z3.Or(z3.Not(ok), void)


def spec_unary(S, I):
    un = lambda u: I("un1", u); a = lambda k: I("lit1", k)
    ok = z3.Or(z3.And(un("-"), z3.Or(a("int"), a("float"), a("tuple"))), z3.And(un("not"), a("bool")))
    return z3.Not(ok)


def spec_cond(S, I): return z3.Not(I("lit1", "bool"))
def spec_decl(S, I): return z3.Not(z3.Or([z3.And(I("ty1", t), I("lit1", t)) for t in S["ty1"][1]]))
def spec_list(S, I): return z3.Not(z3.Or([z3.And(I("lit1", k), I("lit2", k)) for k in S["lit1"][1]]))
def spec_always(S, I): return z3.BoolVal(True)
def spec_void_var(S, I): return I("lit1", "void")


def spec_call(S, I):
    # h :: fn a: int, b: str -> int ; __ar1(h, __lit1, __lit2, __lit3)
    n = lambda k: I("ar1", k)
    return z3.Or(z3.Not(n(2)), z3.Not(I("lit1", "int")), z3.Not(I("lit2", "str")))


CORES = {
    # name: (core expression / statement text, extra top-level declarations, spec, restrictions)
    "binop": ("__op1(__lit1, __lit2)", "", spec_binop, {}),
    "binop_nested": ("__op1(__op2(1, __lit1), 2)", "", None, {}),
    "unary": ("__un1(__lit1)", "", spec_unary, {}),
    "list": ("[__lit1, __lit2]", "", spec_list, {}),
    "void_in_variable": ("__lit1", "", None, {}),
}
STMT_CORES = {
    # statement-level cores (replace the whole `y := CORE` line)
    "if_condition": ("if __lit1 do\n    pr(1)\nend", "", spec_cond),
    "loop_condition": ("loop __lit1 do\n    break\nend", "", spec_cond),
    "declared_variable": ("z: Ty__1 = __lit1", "", spec_decl),
    "declared_return": ("rf :: fn -> Ty__1 do\n    ret __lit1\nend", "", spec_decl),
    "declared_param": ("pf :: fn a: Ty__1 do\n    pr(a)\nend\npf(__lit1)", "", spec_decl),
    "blob_field": ("bb := Bf { f: __lit1 }", "Bf :: blob {\n    f: Ty__1,\n}\n", spec_decl),
    "call_arity_and_types": ("r := __ar1(hh, __lit1, __lit2, __lit3)", "hh :: fn a: int, b: str -> int do\n    ret a\nend\n", spec_call),
    "call_non_function": ("nf := __lit1\nnf()", "", spec_always),
    "void_in_variable": ("vv := __lit1", "", spec_void_var),
    "assign_other_type": ("w := 1\nw = __lit1", "", lambda S, I: z3.Not(I("lit1", "int"))),
    # constraints that are deferred until an un-annotated parameter is instantiated at a call
    "generic_binop_args": ("r := gf(__lit1, __lit2)", "gf :: fn a, b ->\n    __op1(a, b)\nend\n", spec_binop),
    "generic_binop_via_variables": ("va := __lit1\nvb := __lit2\nr := gf(va, vb)", "gf :: fn a, b ->\n    __op1(a, b)\nend\n", spec_binop),
    "generic_right_operand": ("r := gr(__lit1)", "gr :: fn x ->\n    __op1(7, x)\nend\n", lambda S, I: spec_binop(S, I, left="int")),
    "generic_left_operand": ("r := gl(__lit1)", "gl :: fn x ->\n    __op1(x, 7)\nend\n", lambda S, I: spec_binop(S, I, right="int")),
    "generic_unary_via_variable": ("vu := __lit1\nr := gu(vu)", "gu :: fn x ->\n    __un1(x)\nend\n", spec_unary),
    "tuple_elementwise": ("r := __op1(__lit1, __lit2)", "", spec_binop),
    # the result of a division is a float wherever it goes next (operand, variable, argument of an un-annotated function)
    "quotient_as_left_operand": ("r := __op1(4 / 2, __lit1)", "", lambda S, I: spec_binop(S, I, left="float")),
    "quotient_through_a_variable": ("q := 4 / 2\nr := __op1(q, __lit1)", "", lambda S, I: spec_binop(S, I, left="float")),
    "quotient_as_argument_of_an_inferred_function": ("r := gq(4 / 2, __lit1)", "gq :: fn a, b ->\n    __op1(a, b)\nend\n", lambda S, I: spec_binop(S, I, left="float")),
}
# ---- blobs are unified structurally: two blob values whose field sets (names and types) differ never unify, in either order
BLOB_DECLS = "Sm :: blob {\n    x: int,\n}\nBg :: blob {\n    x: int,\n    y: int,\n}\nOt :: blob {\n    x: int,\n}\nDf :: blob {\n    x: str,\n}\n"
BLOB_VALS = 'Sm { x: 1 }, Bg { x: 1, y: 2 }, Ot { x: 3 }, Df { x: "s" }'
BLOB_FIELDS = [{"x": "int"}, {"x": "int", "y": "int"}, {"x": "int"}, {"x": "str"}]
def spec_blob_pair(S, I, left=None):
    bad = []
    for i, fi in enumerate(BLOB_FIELDS):
        for j, fj in enumerate(BLOB_FIELDS):
            if fi != fj:
                if left is None: bad.append(z3.And(I("ealt1", i), I("ealt2", j)))
                elif i == left: bad.append(I("ealt1", j))
    return z3.Or(bad)
STMT_CORES.update({
    "blob_if_else_branches": ("r := if 1 < 2 do __ealt1(%s) else __ealt2(%s) end" % (BLOB_VALS, BLOB_VALS), BLOB_DECLS, spec_blob_pair),
    "blob_if_else_via_variables": ("ba := __ealt1(%s)\nbb := __ealt2(%s)\nr := if 1 < 2 do ba else bb end" % (BLOB_VALS, BLOB_VALS), BLOB_DECLS, spec_blob_pair),
    "blob_reassign": ("bw := __ealt1(%s)\nbw = __ealt2(%s)" % (BLOB_VALS, BLOB_VALS), BLOB_DECLS, spec_blob_pair),
    "blob_list_elements": ("bl := [__ealt1(%s), __ealt2(%s)]" % (BLOB_VALS, BLOB_VALS), BLOB_DECLS, spec_blob_pair),
    "blob_equality": ("be := __ealt1(%s) == __ealt2(%s)" % (BLOB_VALS, BLOB_VALS), BLOB_DECLS, spec_blob_pair),
    "blob_declared_small": ("bz: Sm = __ealt1(%s)" % BLOB_VALS, BLOB_DECLS, lambda S, I: spec_blob_pair(S, I, left=0)),
    "blob_declared_big": ("bz: Bg = __ealt1(%s)" % BLOB_VALS, BLOB_DECLS, lambda S, I: spec_blob_pair(S, I, left=1)),
    "blob_param_big": ("bp :: fn a: Bg do\n    pr(a.y)\nend\nbp(__ealt1(%s))" % BLOB_VALS, BLOB_DECLS, lambda S, I: spec_blob_pair(S, I, left=1)),
    "blob_param_small": ("bp :: fn a: Sm do\n    pr(a.x)\nend\nbp(__ealt1(%s))" % BLOB_VALS, BLOB_DECLS, lambda S, I: spec_blob_pair(S, I, left=0)),
    "blob_return_declared": ("bf :: fn -> Sm do\n    ret __ealt1(%s)\nend" % BLOB_VALS, BLOB_DECLS, lambda S, I: spec_blob_pair(S, I, left=0)),
})
# ---- constraints that sit on a tuple built from un-annotated parameters (the tuple is the inferred result) and a call whose value is not used
def spec_gt(S, I):
    num = lambda n: z3.Or(I(n, "int"), I(n, "float")); same = lambda a, b: z3.Or([z3.And(I(a, k), I(b, k)) for k in S[a][1]])
    return z3.Not(z3.And(num("lit1"), num("lit2"), num("lit3"), same("lit1", "lit3"), same("lit2", "lit3")))
def spec_gn(S, I): return z3.Not(z3.And(z3.Or(I("lit1", "int"), I("lit1", "float")), z3.Or(I("lit2", "int"), I("lit2", "float"))))
GT = "gt :: fn x, y, k ->\n    (x, y) * (k, k)\nend\n"
GN = "gn :: fn x, y ->\n    -(x, y)\nend\n"
STMT_CORES.update({
    "generic_tuple_result_unused_call": ("gt(__lit1, __lit2, __lit3)", GT, spec_gt),
    "generic_tuple_result_in_tuple_literal": ("tt := (gt(__lit1, __lit2, __lit3), 2)", GT, spec_gt),
    "generic_tuple_result_trailing_in_closure": ("cc :: fn do\n    gt(__lit1, __lit2, __lit3)\nend\ncc()", GT, spec_gt),
    "generic_tuple_negation_unused_call": ("gn(__lit1, __lit2)", GN, spec_gn),
    "generic_tuple_negation_stored": ("nn := gn(__lit1, __lit2)", GN, spec_gn),
})
def spec_same_plus(S, I): return z3.Not(z3.Or([z3.And(I("lit1", k), I("lit2", k)) for k in ("int", "float", "str") if k in S["lit1"][1]]))
STMT_CORES.update({
    # a constraint on a tuple that is a local of the generic function (not part of its signature)
    "generic_tuple_local_not_returned": ("gl(__lit1)", "gl :: fn a do\n    x :: (a, 1) - (a, 1)\nend\n", lambda S, I: z3.Not(z3.Or(I("lit1", "int"), I("lit1", "float")))),
    # a constraint between the parameter of an inner closure and a parameter of the enclosing generic function
    "generic_inner_closure_and_outer_parameter": ("go(__lit1)", "go :: fn a do\n    gi :: fn b -> a + b end\n    gi(__lit2)\nend\n", spec_same_plus),
    # an operand reached through `self` in a function stored in a blob field
    "operand_through_self": ("sa :: Sb { x: 1, f: fn do\n    y :: self.x + __lit1\nend }\nsa.f()", "Sb :: blob {\n    x: int,\n    f: fn -> void,\n}\n", lambda S, I: z3.Not(I("lit1", "int"))),
    # void stored inside a composite literal
    "void_inside_tuple_literal": ("vt :: (__lit1, 1)", "", spec_void_var),
    "void_inside_list_literal": ("vl :: [__lit1]", "", spec_void_var),
})
_notnum = lambda S, I: z3.Not(z3.Or(I("lit1", "int"), I("lit1", "float")))
STMT_CORES.update({
    # compound assignment whose two sides are different expressions of one (already unified) type
    "compound_sub_between_aliases": ("ca := __lit1\ncb := ca\nca -= cb", "", _notnum),
    "compound_mul_after_comparison": ("cc := __lit1\ncd := __lit1\npr(cc != cd)\ncc *= cd", "", _notnum),
    "compound_sub_on_blob_field": ("pb := Bg { f: __lit1 }\npb.f -= pb.f", "Bg :: blob {\n    f: *,\n}\n", _notnum),
    "compound_add_between_aliases": ("ce := __lit1\ncf := ce\nce += cf", "", lambda S, I: z3.Not(z3.Or(I("lit1", "int"), I("lit1", "float"), I("lit1", "str")))),
})
HOF = "ap :: fn f: fn *A -> *B, x: *A -> *B do\n    ret f(x)\nend\ninc1 :: fn n: int -> int do\n    ret n + 1\nend\ntos :: fn n: int -> str do\n    ret \"s\"\nend\npair :: fn a: *A, b: *B -> (*B, *A) do\n    ret (b, a)\nend\n"
STMT_CORES.update({
    # type variables of an annotated generic function: the result type is tied to the argument types through them
    "generic_result_variable_bound_through_a_function_parameter": ("ar: Ty__1 = ap(inc1, 1)", HOF, lambda S, I: z3.Not(I("ty1", "int"))),
    "generic_result_variable_bound_to_str_through_a_function_parameter": ("at: Ty__1 = ap(tos, 1)", HOF, lambda S, I: z3.Not(I("ty1", "str"))),
    "generic_argument_variable_shared_with_a_function_parameter": ("ap(inc1, __lit1)", HOF, lambda S, I: z3.Not(I("lit1", "int"))),
    "generic_result_variables_swapped": ("pq: (Ty__1, Ty__2) = pair(1, \"s\")", HOF, lambda S, I: z3.Not(z3.And(I("ty1", "str"), I("ty2", "int")))),
    "generic_result_variable_used_as_operand": ("au :: ap(tos, 1) + __lit1", HOF, lambda S, I: z3.Not(I("lit1", "str"))),
})
_not_int = lambda S, I: z3.Not(I("lit1", "int"))
STMT_CORES.update({
    # an early `ret` of the wrong type inside the block's TRAILING if / case expression (another branch ends in a value of the right type)
    "early_return_in_trailing_if_expression": ("pr(er1(true))", "er1 :: fn c: bool -> int do\n    if c do\n        ret __lit1\n    else\n        2\n    end\nend\n", _not_int),
    "early_return_in_trailing_case_expression": ("pr(er2(Ev.A 1))", "Ev :: enum\n    A int,\n    B,\nend\ner2 :: fn e: Ev -> int do\n    case e do\n        A v ->\n            ret __lit1\n        end\n        else\n            3\n        end\n    end\nend\n", _not_int),
    "early_return_in_nested_trailing_blocks": ("pr(er3(true))", "er3 :: fn c: bool -> int do\n    do\n        if c do\n            if c do\n                ret __lit1\n            else\n                1\n            end\n        else\n            2\n        end\n    end\nend\n", _not_int),
    "early_return_in_trailing_if_of_an_inferred_function": ("ei: int = er4(true)", "er4 :: fn c ->\n    if c do\n        ret __lit1\n    else\n        2\n    end\nend\n", _not_int),
})
_differ = lambda S, I: z3.Not(z3.Or([z3.And(I("lit1", k), I("lit2", k)) for k in S["lit1"][1]]))
STMT_CORES.update({
    # one type node at several positions of both sides, crossed: (p, q, p) against (k1, x, x) compares p with x in the last position
    "crossed_shared_components_in_assignment": ("cp := __lit1\ncq := __lit2\ncx := __lit2\ncl := (cp, cq, cp)\ncl = (__lit1, cx, cx)", "", _differ),
    "crossed_shared_components_in_list": ("dp := __lit1\ndq := __lit2\ndx := __lit2\ndl := [(dp, dq, dp), (__lit1, dx, dx)]", "", _differ),
    "crossed_shared_components_in_call": ("ex := __lit2\ncg((__lit1, ex, ex))", "cg :: fn t: (*T, *U, *T) -> *T do\n    ret t[0]\nend\n", _differ),
    "crossed_function_types": ("fh: fn *X, *Y -> *Y = fn a: __lit1kind, b: __lit2kind -> __lit2kind do ret b end", "", None),
})
del STMT_CORES["crossed_function_types"]
GENERIC_LITS = {"early_return_in_trailing_if_expression": ["int", "str", "bool", "float"], "early_return_in_trailing_case_expression": ["int", "str", "bool"], "early_return_in_nested_trailing_blocks": ["int", "str", "bool"], "early_return_in_trailing_if_of_an_inferred_function": ["int", "str", "bool"],
                "crossed_shared_components_in_assignment": ["int", "str", "bool"], "crossed_shared_components_in_list": ["int", "str", "bool"], "crossed_shared_components_in_call": ["int", "str", "bool"],
                "generic_argument_variable_shared_with_a_function_parameter": ["int", "str", "bool"], "generic_result_variable_used_as_operand": ["int", "str", "float"],
                "compound_sub_between_aliases": ["int", "float", "str", "bool"], "compound_mul_after_comparison": ["int", "str", "bool"], "compound_sub_on_blob_field": ["int", "str", "bool"], "compound_add_between_aliases": ["int", "str", "bool"],
                "generic_tuple_local_not_returned": ["int", "float", "str", "bool"], "generic_inner_closure_and_outer_parameter": ["int", "str", "bool"], "operand_through_self": ["int", "str", "float"],
                "void_inside_tuple_literal": ["int", "str", "void"], "void_inside_list_literal": ["int", "str", "void"], "generic_tuple_result_unused_call": ["int", "float", "str"], "generic_tuple_result_in_tuple_literal": ["int", "float", "str"], "generic_tuple_result_trailing_in_closure": ["int", "str"],
                "generic_tuple_negation_unused_call": ["int", "float", "str", "bool"], "generic_tuple_negation_stored": ["int", "float", "str", "bool"], "generic_binop_args": ["int", "str", "bool", "float"], "generic_binop_via_variables": ["int", "str", "bool"], "tuple_elementwise": ["tuple", "tuple_str", "int"]}


def spec_binop_nested(S, I):
    # (1 op2 lit1) op1 2 : flag only combinations that are wrong whatever the inner result type is
    a = lambda k: I("lit1", k); o2 = lambda o: I("op2", o); o1 = lambda o: I("op1", o)
    inner_bad = z3.Or(z3.And(z3.Or(o2("+"), o2("-"), o2("*")), z3.Not(a("int"))), z3.And(z3.Or(o2("and"), o2("or")), z3.BoolVal(True)),
                      z3.And(z3.Or(o2("=="), o2("!="), o2("<=>")), z3.Not(a("int"))), z3.And(z3.Or(o2("<"), o2(">"), o2("<="), o2(">=")), z3.Not(z3.Or(a("int"), a("float")))),
                      z3.And(o2("/"), z3.Not(z3.Or(a("int"), a("float")))))
    inner_bool = z3.Or(o2("=="), o2("!="), o2("<=>"), o2("<"), o2(">"), o2("<="), o2(">="))
    outer_bad = z3.And(inner_bool, z3.Not(z3.Or(o1("=="), o1("!="), o1("<=>"))) )      # bool op int literal 2 is wrong unless..., == with int is wrong too
    outer_bad2 = z3.And(inner_bool, z3.BoolVal(True))                                    # a bool combined with the int literal 2 by any operator is a mismatch
    # a quotient is a float: combined with the int literal 2 it is a mismatch for every operator that wants operands of one kind
    inner_float = z3.And(o2("/"), z3.Or(a("int"), a("float")))
    outer_bad3 = z3.And(inner_float, z3.Or([o1(o) for o in ("+", "-", "*", "==", "!=", "<=>", "and", "or")]))
    return z3.Or(inner_bad, outer_bad2, outer_bad3)
CORES["binop_nested"] = (CORES["binop_nested"][0], "", spec_binop_nested, {})
CORES["void_in_variable"] = (CORES["void_in_variable"][0], "", spec_void_var, {})

# cores whose mismatch table is written for the literal kinds listed in GENERIC_LITS only (tuples and lists have element-wise rules of their own): same kinds in both tiers
SPEC_KINDS_FIXED = {"early_return_in_trailing_if_expression", "early_return_in_trailing_case_expression", "early_return_in_nested_trailing_blocks", "early_return_in_trailing_if_of_an_inferred_function", "crossed_shared_components_in_assignment", "crossed_shared_components_in_list", "crossed_shared_components_in_call", "generic_argument_variable_shared_with_a_function_parameter", "generic_result_variable_used_as_operand", "generic_tuple_result_unused_call", "generic_tuple_result_in_tuple_literal", "generic_tuple_result_trailing_in_closure", "generic_tuple_negation_unused_call", "generic_tuple_negation_stored",
                    "compound_sub_between_aliases", "compound_mul_after_comparison", "compound_sub_on_blob_field", "compound_add_between_aliases", "generic_tuple_local_not_returned",
                    "generic_inner_closure_and_outer_parameter", "operand_through_self", "void_inside_tuple_literal", "void_inside_list_literal"}
_CTX = {}


def indent_like(block, line_indent):
    return ("\n" + line_indent).join(block.split("\n"))


def build_jobs(tier):
    jobs = []
    q = tier == "quick"
    lits = ["int", "float", "str", "bool", "nil", "void"] if q else ["int", "float", "str", "bool", "nil", "tuple", "list", "void"]
    plc = list(PLACEMENTS) if not q else ["global_initialiser", "statement_in_start", "unused_expression_statement", "closure_body", "nested_closure_in_if_in_loop", "after_return"]
    for pn in plc:
        ptxt = PLACEMENTS[pn]
        for cn, (core, decls, spec, _) in CORES.items():
            if q and cn == "binop_nested": continue
            if cn == "binop" and q and pn != "unused_expression_statement": klits = ["int", "str", "bool", "void"]
            else: klits = lits
            if pn == "unused_expression_statement" and cn == "void_in_variable": continue      # a void call as a statement is fine
            if pn == "call_argument" and cn == "void_in_variable": continue
            jobs.append({"name": "%s@%s" % (cn, pn), "core": cn, "placement": pn, "text": decls + ptxt.replace("CORE", core), "spec": ("CORES", cn), "lits": klits})
        # statement-level cores go where `y := CORE` / `x := CORE` stands
        if pn in ("statement_in_start", "closure_body", "if_branch", "else_branch", "loop_body", "case_arm", "nested_closure_in_if_in_loop", "after_return", "after_return_in_branch"):
            for cn, (stmt, decls, spec) in STMT_CORES.items():
                if q and pn not in ("statement_in_start", "nested_closure_in_if_in_loop") and not (pn == "after_return" and cn in ("compound_sub_between_aliases", "generic_tuple_result_unused_call", "void_inside_tuple_literal")): continue
                lines = ptxt.split("\n"); out = []
                for ln in lines:
                    if "CORE" in ln:
                        ind = ln[:len(ln) - len(ln.lstrip())]; out.append(ind + indent_like(stmt, ind))
                    else: out.append(ln)
                jobs.append({"name": "%s@%s" % (cn, pn), "core": cn, "placement": pn, "text": decls + "\n".join(out), "spec": ("STMT_CORES", cn), "lits": GENERIC_LITS.get(cn, lits) if (q or cn == "tuple_elementwise" or cn in SPEC_KINDS_FIXED) else lits})
    return jobs


def work(job):
    try:
        from mirsym import ktc, macros as X
        k = _CTX.get("kernel")
        if k is None: k = _CTX["kernel"] = ktc.Kernel()
        t0 = time.time()
        r = k.explore(job["text"], lit_kinds=job["lits"], tys=["int", "float", "str", "bool"])
        if "error" in r: return {"name": job["name"], "status": "template_error", "why": r["error"]}
        S = r["sels"]
        I = lambda n, v: ktc.sel_is(S, n, v)
        table = CORES if job["spec"][0] == "CORES" else STMT_CORES
        spec = table[job["spec"][1]][2]
        mism = spec(S, I)
        acc = rej = panics = 0; cex = []; nq = 0; solver_s = 0.0; samples = []
        for pc, (kind, out) in r["paths"]:
            if kind != "ok":
                panics += 1; cex.append({"kind": "panic", "what": str(out)[:200], "assignment": _assign(r, pc, S)}); continue
            if not out["accepted"]: rej += 1; continue
            acc += 1
            s = z3.Solver(); s.set("timeout", 10000); s.add(r["base"]); s.add(pc); s.add(mism)
            t1 = time.time(); res = s.check(); solver_s += time.time() - t1; nq += 1
            if res == z3.sat:
                a = ktc.model_assignment(s.model(), S)
                cex.append({"kind": "accepted_mismatch", "assignment": a, "concrete": X.render_concrete(ktc.PRELUDE + job["text"], a)})
            elif res != z3.unsat: cex.append({"kind": "unknown"})
            if len(samples) < 2: samples.append({"pc": [str(c)[:80] for c in pc][:6], "verdict": str(res)})
        # validation of the encoding: one concrete instance per explored path goes through the native binary, which must agree on accept / reject
        disagree = []; ndiff = 0
        for pc, (kind, out) in r["paths"]:
            if kind != "ok": continue
            a = _assign(r, pc, S)
            if not a and S: continue
            conc = X.render_concrete(ktc.PRELUDE + job["text"], a)
            ok, nout = native_accepts(k.pl.art["sylt"], conc); ndiff += 1
            if not ok and "syntax error" in nout: continue      # the concrete spelling of a choice node does not parse in this context (e.g. a do-block as the only statement of a case arm): nothing to compare
            if ok != out["accepted"]: disagree.append({"assignment": a, "kernel": "accepted" if out["accepted"] else "rejected (%s)" % out.get("phase"), "native": "accepted" if ok else "rejected", "concrete": conc})
        return {"name": job["name"], "status": "ok", "paths": len(r["paths"]), "accepted": acc, "rejected": rej, "panics": panics, "cex": cex, "queries": nq + r["queries"], "solver_s": solver_s,
                "steps": r["steps"], "wall_s": time.time() - t0, "samples": samples, "core": job["core"], "placement": job["placement"], "disagree": disagree[:5], "native_differential": ndiff}
    except Exception as e:
        return {"name": job["name"], "status": "engine_error", "why": "%s: %s %s" % (type(e).__name__, str(e)[:300], traceback.format_exc()[-600:])}


def _assign(r, pc, S):
    from mirsym import ktc
    s = z3.Solver(); s.add(r["base"]); s.add(pc)
    return ktc.model_assignment(s.model(), S) if s.check() == z3.sat else {}


def native_accepts(sylt, text):
    rc, lua, out = common.compile_sy(sylt, {"main.sy": text}, extra=["--no-std"])
    return rc == 0 and lua is not None, out


def run(tier):
    t0 = time.time()
    from mirsym import pipeline
    art = common.artifacts(need_mir=pipeline.CRATES, need_replay=True)
    jobs = build_jobs(tier)
    with mp.get_context("fork").Pool(min(16, len(jobs))) as pool: results = pool.map(work, jobs, chunksize=1)
    fnd = common.Findings("C03")
    tot = {"paths": 0, "accepted": 0, "rejected": 0, "queries": 0, "steps": 0, "solver_s": 0.0}; samples = []; replayed = 0; vacuous = []
    for r in results:
        if r["status"] != "ok":
            fnd.undecided("%s: %s %s" % (r["name"], r["status"], r.get("why", "")[:300])); continue
        for k in tot: tot[k] += r.get(k, 0)
        replayed += r.get("native_differential", 0)
        for dg in r.get("disagree", []):
            fnd.undecided("%s: the type checker executed from MIR says %s, the native binary %s for %s (the encoding disagrees with the implementation)" % (r["name"], dg["kernel"], dg["native"], dg["assignment"]))
        # nothing accepted = nothing was asserted; nothing rejected is only suspicious when no accepted mismatch was found either (those are reported below)
        if r["accepted"] == 0 or (r["rejected"] == 0 and not r["cex"]): vacuous.append(r["name"])
        for c in r["cex"]:
            if c["kind"] == "accepted_mismatch":
                ok, out = native_accepts(art["sylt"], c["concrete"]); replayed += 1
                if ok:
                    a = c["assignment"]
                    fnd.report("accepted-mismatch:%s:%s" % (r["core"], ",".join("%s=%s" % kv for kv in sorted(a.items()) if not kv[0].startswith("lit"))),
                               "%s with %s is a type mismatch but is accepted (placement %s)" % (r["core"], a, r["placement"]), {"main.sy": c["concrete"]}, cmd="sylt --no-std -o out.lua main.sy   # must be rejected")
                else: fnd.undecided("%s: counterexample %s is rejected natively (encoder disagrees with the binary)" % (r["name"], c["assignment"]))
            elif c["kind"] == "panic":
                fnd.report("panic:%s" % r["core"], "%s: the type checker panics (%s) for %s" % (r["name"], c["what"], c["assignment"]), {"template.sy": r["name"]})
            else: fnd.undecided("%s: solver unknown" % r["name"])
        if len(samples) < 4: samples.append({"template": r["name"], "paths": r["paths"], "accepted": r["accepted"], "rejected": r["rejected"], "queries": r["queries"], "sample_queries": r["samples"]})
    for v in vacuous:
        if not v.startswith(("call_non_function", "void_in_variable")): fnd.undecided("vacuity: template %s has no accepted or no rejected path" % v)
    from mirsym import models2
    cov = {"states": tot["paths"], "transitions": tot["queries"], "traces_validated_against_impl": replayed, "samples": samples,
           "templates": len(jobs), "accepted_paths": tot["accepted"], "rejected_paths": tot["rejected"], "mir_statements": tot["steps"], "solver_s": round(tot["solver_s"], 2),
           "functions_encoded": ["name_resolution::resolve", "dependency::initialization_order", "typechecker::solve (+ everything they call, from the MIR dump)"],
           "bounds": {"placements": len(PLACEMENTS) if tier != "quick" else 5, "symbolic_positions_per_template": "<= 4", "literal_kinds": "int float str bool nil (tuple list) void-call", "operators": 13},
           "known_findings_seen": sorted(fnd.seen_known)}
    rc = fnd.finish()
    common.write_evidence("C03", tier, "model_checking", cov, ["tokenizer and parser run natively (REPLAY tool) to build the AST; resolver, dependency order and type checker run from MIR",
                          "std models (iterators, Option/Result, Vec, BTreeMap/HashMap, String) per mirsym/models2.py and core.py; format!/bake_type opaque; find_similar_name stubbed (help text only)",
                          "programs are compiled without the bundled std (`pr` declared external in the template)", "only the direction mismatch => rejected is asserted; the mismatch table flags only combinations that are wrong under every reading of the language guide"], time.time() - t0, len(fnd.violations))
    print("C03: %d templates, %d paths (%d accepted, %d rejected), %d queries, %d native replays, wall %.1fs" % (len(jobs), tot["paths"], tot["accepted"], tot["rejected"], tot["queries"], replayed, time.time() - t0))
    return rc
