"""C13 - operators parse with the documented precedence and associativity.
K-parse-expr: the real `expression::expression` (parse_precedence, prefix, unary, infix, valid_infix, precedence,
Prec::{partial_cmp,next}, Context::*, assignable/sub_assignable, grouping_or_tuple ...) is executed from its MIR on
token vectors `atom op atom op atom [op atom]` whose binary operators are z3 variables over the 13 operators; atoms
range over literals, identifiers, calls, index, field access, unary - / not, and postfix on parenthesised atoms.
For every explored path:  pc AND shape(result) != spec(levels(op_i))  must be unsat, where spec is the grouping the
table in the statement prescribes. A model is rendered to source text and re-parsed by the native parser."""
import itertools, multiprocessing as mp, subprocess, tempfile, os, time, traceback
import z3
from vlib import common

OPS = ["Plus", "Minus", "Star", "Slash", "EqualEqual", "NotEqual", "Greater", "GreaterEqual", "Less", "LessEqual", "And", "Or", "AssertEqual"]
OPTEXT = {"Plus": "+", "Minus": "-", "Star": "*", "Slash": "/", "EqualEqual": "==", "NotEqual": "!=", "Greater": ">", "GreaterEqual": ">=", "Less": "<", "LessEqual": "<=", "And": "and", "Or": "or", "AssertEqual": "<=>"}
LEVEL = {"Star": 5, "Slash": 5, "Plus": 4, "Minus": 4, "EqualEqual": 3, "NotEqual": 3, "Greater": 3, "GreaterEqual": 3, "Less": 3, "LessEqual": 3, "And": 2, "Or": 1, "AssertEqual": 0}

# atom kinds: (token list builder, expected shape, source text); i = atom index (makes leaves distinct)
ATOMS = {
    "int": (lambda i: [("Int", 10 + i)], lambda i: "%d" % (10 + i), lambda i: "%d" % (10 + i)),
    "ident": (lambda i: [("Identifier", "x%d" % i)], lambda i: "x%d" % i, lambda i: "x%d" % i),
    "call": (lambda i: [("Identifier", "f%d" % i), "LeftParen", ("Int", i), "RightParen"], lambda i: "call(f%d,[%d])" % (i, i), lambda i: "f%d(%d)" % (i, i)),
    "index": (lambda i: [("Identifier", "t%d" % i), "LeftBracket", ("Int", 0), "RightBracket"], lambda i: "index(t%d,0)" % i, lambda i: "t%d[0]" % i),
    "field": (lambda i: [("Identifier", "b%d" % i), "Dot", ("Identifier", "y")], lambda i: "field(b%d,y)" % i, lambda i: "b%d.y" % i),
    "neg": (lambda i: ["Minus", ("Int", 10 + i)], lambda i: "(neg %d)" % (10 + i), lambda i: "-%d" % (10 + i)),
    "not": (lambda i: ["Not", ("Identifier", "p%d" % i)], lambda i: "(not p%d)" % i, lambda i: "not p%d" % i),
    "neg_call": (lambda i: ["Minus", ("Identifier", "f%d" % i), "LeftParen", ("Int", i), "RightParen"], lambda i: "(neg call(f%d,[%d]))" % (i, i), lambda i: "-f%d(%d)" % (i, i)),
    "not_field": (lambda i: ["Not", ("Identifier", "b%d" % i), "Dot", ("Identifier", "y")], lambda i: "(not field(b%d,y))" % i, lambda i: "not b%d.y" % i),
    "tuple_index": (lambda i: ["LeftParen", ("Int", 10 + i), "Comma", ("Int", 2), "RightParen", "LeftBracket", ("Int", 1), "RightBracket"], lambda i: "index(tup(%d,2),1)" % (10 + i), lambda i: "(%d, 2)[1]" % (10 + i)),
    "paren_call": (lambda i: ["LeftParen", ("Identifier", "g%d" % i), "RightParen", "LeftParen", ("Int", i), "RightParen"], lambda i: "call(g%d,[%d])" % (i, i), lambda i: "(g%d)(%d)" % (i, i)),
    "call_field": (lambda i: [("Identifier", "f%d" % i), "LeftParen", "RightParen", "Dot", ("Identifier", "y")], lambda i: "field(call(f%d,[]),y)" % i, lambda i: "f%d().y" % i),
    # block expressions used as operands: they end at their `end`, what follows is an ordinary operator
    "if_expr": (lambda i: ["If", ("Identifier", "p%d" % i), "Do", ("Int", 10 + i), "Else", ("Int", 20 + i), "End"], lambda i: "If", lambda i: "if p%d do %d else %d end" % (i, 10 + i, 20 + i)),
    "fn_call": (lambda i: ["Fn", "Arrow", ("Int", 10 + i), "End", "LeftParen", "RightParen"], lambda i: "call(Function,[])", lambda i: "fn -> %d end()" % (10 + i)),
    "paren": (lambda i: ["LeftParen", ("Int", 10 + i), "RightParen"], lambda i: "%d" % (10 + i), lambda i: "(%d)" % (10 + i)),
}
UNARY = ("neg", "not", "neg_call", "not_field")
# the operand of a unary atom and the operator name, for the reading in which a unary operator takes the following run of * and / as its operand
INNER = {"neg": (lambda i: "%d" % (10 + i), "neg"), "not": (lambda i: "p%d" % i, "not"), "neg_call": (lambda i: "call(f%d,[%d])" % (i, i), "neg"), "not_field": (lambda i: "field(b%d,y)" % i, "not")}


def unary_reading():
    """The statement orders unary operators against + -, comparisons and the boolean operators only; how they stand against * and / is read off the
    implementation once (`-10 * 11`), and that one table is then required at EVERY position: 'tight' = (-10) * 11, 'loose' = -(10 * 11)."""
    if "reading" not in _CTX:
        sh = native_shape(("neg", "int"), ["Star"])
        _CTX["reading"] = {"((neg 10) . 11)": "tight", "(neg (10 . 11))": "loose"}.get(sh, "unreadable: " + sh)
    return _CTX["reading"]
_CTX = {}


def machine():
    if "m" not in _CTX:
        from mirsym import core as M
        art = common.artifacts(need_mir=("sylt-tokenizer", "sylt-parser"), need_replay=True)
        _CTX["m"] = M.Machine([art["mir"]["sylt-parser"], art["mir"]["sylt-tokenizer"]], common.REPO,
                              src_files=["sylt-tokenizer/src/token.rs", "sylt-tokenizer/src/tokenizer.rs", "sylt-common/src/lib.rs", "sylt-common/src/error.rs", "sylt-common/src/ty.rs", "sylt-parser/src/parser.rs", "sylt-parser/src/expression.rs", "sylt-parser/src/statement.rs"])
        _CTX["art"] = art
    return _CTX["m"]


def shape_of(m, M, e):
    """canonical string of a parser Expression value"""
    EK = m.enums["ExpressionKind"]; AK = m.enums["AssignableKind"]; SE = m.structs["Expression"]
    def ex(e):
        k = e.fields[SE.index("kind")]; name = EK[k.disc]
        B = lambda b: ex(b.fields[0])
        if name in ("Add", "Sub", "Mul", "Div", "And", "Or", "AssertEq"): return "(%s . %s)" % (B(k.fields[0]), B(k.fields[1]))
        if name == "Comparison": return "(%s . %s)" % (B(k.fields[0]), B(k.fields[2]))
        if name == "Neg": return "(neg %s)" % B(k.fields[0])
        if name == "Not": return "(not %s)" % B(k.fields[0])
        if name == "Parenthesis": return B(k.fields[0])
        if name == "Int": return str(k.fields[0])
        if name == "Tuple": return "tup(%s)" % ",".join(ex(x) for x in k.fields[0].items)
        if name == "Get": return ass(k.fields[0])
        return name
    def ass(a):
        k = a.fields[1]; name = AK[k.disc]
        if name == "Read": return k.fields[0].fields[1]
        if name == "Call": return "call(%s,[%s])" % (ass(k.fields[0].fields[0]), ",".join(ex(x) for x in k.fields[1].items))
        if name == "Index": return "index(%s,%s)" % (ass(k.fields[0].fields[0]), ex(k.fields[1].fields[0]))
        if name == "Access": return "field(%s,%s)" % (ass(k.fields[0].fields[0]), k.fields[1].fields[1])
        if name == "Expression": return ex(k.fields[0].fields[0])
        return name
    return ex(e)


def spec_term(levels, atoms, lo, hi, cfg=None, loose=False, strip=False):
    """z3 String term: the documented grouping of atoms lo..hi (binary operators lo..hi-1), left associative.
    loose: a unary atom takes the maximal run of * and / that follows it as its operand (strip: the unary operator of atom lo is already accounted for)"""
    un = lambda u: loose and cfg[u] in UNARY and not (u == lo and strip)
    def leaf(i, stripped): return INNER[cfg[i]][0](i) if stripped else atoms[i]
    if lo == hi: return z3.StringVal(leaf(lo, strip))
    def captured(r):
        alts = [z3.And([levels[j] == 5 for j in range(u, r + 1)]) for u in range(lo, r + 1) if un(u)]
        return z3.Or(alts) if alts else z3.BoolVal(False)
    term = None
    for r in range(hi - 1, lo - 1, -1):          # the root is the LAST operator of minimal level that no unary operator has taken
        cond = z3.And([z3.Not(captured(r))] + [z3.Or(captured(j), levels[r] < levels[j]) for j in range(lo, hi) if j > r] + [z3.Or(captured(j), levels[r] <= levels[j]) for j in range(lo, hi) if j < r])
        t = z3.Concat(z3.StringVal("("), spec_term(levels, atoms, lo, r, cfg, loose, strip), z3.StringVal(" . "), spec_term(levels, atoms, r + 1, hi, cfg, loose, False), z3.StringVal(")"))
        term = t if term is None else z3.If(cond, t, term)
    if un(lo):
        whole = z3.Concat(z3.StringVal("(%s " % INNER[cfg[lo]][1]), spec_term(levels, atoms, lo, hi, cfg, loose, True), z3.StringVal(")"))
        term = z3.If(z3.And([levels[j] == 5 for j in range(lo, hi)]), whole, term)
    return term


def work(cfg):
    try:
        from mirsym import core as M
        m = machine(); T = m.enums["Token"]
        n = len(cfg) - 1
        ops = [z3.Int("op%d" % i) for i in range(n)]
        base = []
        for i, o in enumerate(ops):
            base.append(z3.Or([o == T.index(x) for x in OPS]))
        def level(o):
            e = z3.IntVal(-1)
            for x in OPS: e = z3.If(o == T.index(x), LEVEL[x], e)
            return e
        def mk_ctx():
            toks = []
            for i, a in enumerate(cfg):
                for t in ATOMS[a][0](i):
                    if isinstance(t, tuple): toks.append(M.EnumV("Token", T.index(t[0]), [t[1]]))
                    else: toks.append(M.EnumV("Token", T.index(t), []))
                if i < n: toks.append(M.EnumV("Token", ops[i], []))
            spans = [M.StructV("Span", [0, 1, 1, k + 1, k + 2]) for k in range(len(toks))]
            file = M.EnumV("FileOrLib", 1, ["x"])
            vals = {"skip_newlines": False, "last_statement": 0, "tokens": toks, "spans": spans, "curr": 0, "file": M.Ref([file], 0), "file_id": 0, "root": M.Opaque("path")}
            return [M.StructV("Context", [vals[f] for f in m.structs["Context"]])]
        t0 = time.time()
        res = m.explore("expression::expression", mk_ctx, base)
        atoms = [ATOMS[a][1](i) for i, a in enumerate(cfg)]
        L = [level(o) for o in ops]
        spec = spec_term(L, atoms, 0, n, cfg, _CTX["reading"] == "loose")
        ntok = sum(len(ATOMS[a][0](i)) for i, a in enumerate(cfg)) + n
        bad = []; nq = 0; solver_s = 0.0; samples = []
        for pc, (kind, out) in res:
            s = z3.Solver(); s.set("timeout", 20000); s.add(base); s.add(pc)
            if kind != "ok" or out.disc != 0:
                s.check(); mdl = s.model()
                bad.append({"kind": "panic" if kind != "ok" else "parse_error", "ops": [T[mdl.eval(o, model_completion=True).as_long()] for o in ops], "what": str(out)[:200]}); continue
            ctx, expr = out.fields[0].fields
            consumed = ctx.fields[m.structs["Context"].index("curr")]
            sh = shape_of(m, M, expr)
            if consumed != ntok: sh += " +rest@%d" % consumed
            s.add(spec != z3.StringVal(sh)); nq += 1
            t1 = time.time(); r = s.check(); solver_s += time.time() - t1
            if r == z3.sat:
                mdl = s.model(); bad.append({"kind": "shape", "ops": [T[mdl.eval(o, model_completion=True).as_long()] for o in ops], "got": sh})
            elif r != z3.unsat: bad.append({"kind": "unknown"})
            if len(samples) < 2: samples.append({"pc": [str(c)[:60] for c in pc][:5], "shape": sh, "verdict": str(r)})
        return {"cfg": list(cfg), "status": "ok", "paths": len(res), "steps": m.ex.steps, "queries": m.ex.queries + nq, "solver_s": solver_s, "bad": bad, "samples": samples, "wall_s": time.time() - t0}
    except Exception as e:
        return {"cfg": list(cfg), "status": "engine_error", "why": "%s: %s %s" % (type(e).__name__, str(e)[:300], traceback.format_exc()[-500:])}


def source_of(cfg, opnames):
    parts = []
    for i, a in enumerate(cfg):
        parts.append(ATOMS[a][2](i))
        if i < len(cfg) - 1: parts.append(OPTEXT[opnames[i]])
    return " ".join(parts)


def native_shape(cfg, opnames):
    """parse the concrete source natively and compute the same shape"""
    from mirsym import core as M, decls as D
    m = machine(); art = _CTX["art"]
    if "cv" not in _CTX: _CTX["cv"] = D.Converter(D.Types(D.load_decls(common.REPO)))
    d = tempfile.mkdtemp(prefix="c13_", dir=common.SCRATCH)
    try:
        p = os.path.join(d, "e.sy"); open(p, "w").write(source_of(cfg, opnames) + "\n")
        out = subprocess.run([art["replay"], "expr", p], capture_output=True, text=True, timeout=30).stdout
    finally:
        import shutil; shutil.rmtree(d, ignore_errors=True)
    if not out.startswith("OK "): return "ERR " + out[:100]
    v = _CTX["cv"].conv(D.parse_debug(out[3:].strip()), "Expression", "expression", "sylt_parser")
    return shape_of(m, M, v)


def expected_shape(cfg, opnames):
    atoms = [ATOMS[a][1](i) for i, a in enumerate(cfg)]
    lv = [LEVEL[o] for o in opnames]
    loose = unary_reading() == "loose"
    def build(lo, hi, strip=False):
        un = lambda u: loose and cfg[u] in UNARY and not (u == lo and strip)
        if lo == hi: return INNER[cfg[lo]][0](lo) if strip else atoms[lo]
        if un(lo) and all(lv[j] == 5 for j in range(lo, hi)): return "(%s %s)" % (INNER[cfg[lo]][1], build(lo, hi, True))
        captured = lambda r: any(un(u) and all(lv[j] == 5 for j in range(u, r + 1)) for u in range(lo, r + 1))
        best = None
        for r in range(lo, hi):
            if captured(r): continue
            if best is None or lv[r] <= lv[best]: best = r          # last free operator of minimal level
        return "(%s . %s)" % (build(lo, best, strip), build(best + 1, hi))
    return build(0, len(cfg) - 1)


def value_stage(sylt, fnd, tier):
    """'evaluates to the same value': `A op1 B op2 C` and its fully parenthesised form (grouped by the table) go through the whole compiler;
    both must be accepted or both rejected, and when accepted the emitted Lua must be the same text (parentheses leave no trace in it)"""
    typings = [("1", "2", "3"), ("true", "false", "true"), ("1", "2", "true"), ("true", "1", "2"), ("1.5", "2.5", "0.5"), ("\"a\"", "\"b\"", "\"c\"")]
    if tier == "quick": typings = typings[:4]
    ops = [o for o in OPS if o != "AssertEqual"]
    n = 0; progs = {}
    for o1 in ops:
        for o2 in ops:
            for ti, (a, b, c) in enumerate(typings):
                flat = "%s %s %s %s %s" % (a, OPTEXT[o1], b, OPTEXT[o2], c)
                full = "((%s %s %s) %s %s)" % (a, OPTEXT[o1], b, OPTEXT[o2], c) if LEVEL[o1] >= LEVEL[o2] else "(%s %s (%s %s %s))" % (a, OPTEXT[o1], b, OPTEXT[o2], c)
                progs[(o1, o2, ti)] = (flat, full)
    def comp(expr):
        rc, lua, out = common.compile_sy(sylt, {"main.sy": "pr: fn *X -> void : external\nstart :: fn do\n    pr(%s)\nend\n" % expr}, extra=["--no-std"])
        return (rc == 0 and lua is not None), lua, out
    from concurrent.futures import ThreadPoolExecutor
    items = list(progs.items())
    with ThreadPoolExecutor(16) as tp: res = list(tp.map(lambda kv: (kv[0], comp(kv[1][0]), comp(kv[1][1])), items))
    for (o1, o2, ti), (ok1, lua1, out1), (ok2, lua2, out2) in res:
        n += 2; flat, full = progs[(o1, o2, ti)]
        if ok1 != ok2:
            fnd.report("value:acceptance:%s,%s" % (OPTEXT[o1], OPTEXT[o2]), "`%s` is %s but its fully parenthesised form `%s` is %s (%s)" % (flat, "accepted" if ok1 else "rejected", full, "accepted" if ok2 else "rejected", (out1 if not ok1 else out2)[-160:].replace("\n", " ")),
                       {"flat.sy": "pr: fn *X -> void : external\nstart :: fn do\n    pr(%s)\nend\n" % flat, "full.sy": "pr: fn *X -> void : external\nstart :: fn do\n    pr(%s)\nend\n" % full}, cmd="sylt --no-std -o a.lua flat.sy; sylt --no-std -o b.lua full.sy")
        elif ok1 and lua1 != lua2:
            fnd.report("value:code:%s,%s" % (OPTEXT[o1], OPTEXT[o2]), "`%s` and its fully parenthesised form `%s` compile to different Lua" % (flat, full),
                       {"flat.sy": "pr: fn *X -> void : external\nstart :: fn do\n    pr(%s)\nend\n" % flat, "full.sy": "pr: fn *X -> void : external\nstart :: fn do\n    pr(%s)\nend\n" % full}, cmd="sylt --no-std -o a.lua flat.sy; sylt --no-std -o b.lua full.sy; diff a.lua b.lua")
    # the same expressions broken over lines (before / after an operator, bare and inside brackets): a layout may be rejected, but when it
    # is accepted its grouping is the table's - the emitted Lua equals that of the fully parenthesised one-line form
    def comp_stmt(expr):
        rc, lua, out = common.compile_sy(sylt, {"main.sy": "pr: fn *X -> void : external\nstart :: fn do\n    x := %s\n    pr(x)\nend\n" % expr}, extra=["--no-std"])
        return (rc == 0 and lua is not None), lua, out
    LAYOUTS = [("break-before-second-operator", "%(a)s %(o1)s %(b)s\n        %(o2)s %(c)s"), ("break-before-first-operator", "%(a)s\n        %(o1)s %(b)s %(o2)s %(c)s"),
               ("break-before-both-operators", "%(a)s\n        %(o1)s %(b)s\n        %(o2)s %(c)s"), ("break-after-second-operator", "%(a)s %(o1)s %(b)s %(o2)s\n        %(c)s"),
               ("bracketed-break-before-second-operator", "(%(a)s %(o1)s %(b)s\n        %(o2)s %(c)s)"), ("bracketed-break-after-first-operator", "(%(a)s %(o1)s\n        %(b)s %(o2)s %(c)s)")]
    jobs = []
    for (o1, o2, ti), (flat, full) in items:
        if ti >= 2 and tier == "quick": continue
        a, b, c = typings[ti]
        for ln, lay in LAYOUTS:
            text = lay % {"a": a, "b": b, "c": c, "o1": OPTEXT[o1], "o2": OPTEXT[o2]}
            # outside brackets a line that starts with `-` is a statement of its own (a negation), not a continuation
            if not ln.startswith("bracketed") and any(l.strip().startswith("-") for l in text.split("\n")[1:]): continue
            jobs.append(((o1, o2, ti, ln), text, full))
    with ThreadPoolExecutor(16) as tp: res2 = list(tp.map(lambda j: (j, comp_stmt(j[1]), comp_stmt(j[2])), jobs))
    acc = 0
    for ((o1, o2, ti, ln), broken, full), (ok1, lua1, out1), (ok2, lua2, out2) in res2:
        n += 2
        if ok1: acc += 1
        if ok1 and ok2 and lua1 != lua2:
            fnd.report("value:code-across-lines:%s:%s,%s" % (ln, OPTEXT[o1], OPTEXT[o2]), "`%s` (%s) is accepted but compiles to different Lua than its fully parenthesised form `%s`" % (broken.replace("\n", "\\n"), ln, full),
                       {"broken.sy": "pr: fn *X -> void : external\nstart :: fn do\n    x := %s\n    pr(x)\nend\n" % broken, "full.sy": "pr: fn *X -> void : external\nstart :: fn do\n    x := %s\n    pr(x)\nend\n" % full}, cmd="sylt --no-std -o a.lua broken.sy; sylt --no-std -o b.lua full.sy; diff a.lua b.lua")
        elif ok1 and not ok2:
            fnd.report("value:acceptance-across-lines:%s:%s,%s" % (ln, OPTEXT[o1], OPTEXT[o2]), "`%s` (%s) is accepted but its fully parenthesised form `%s` is rejected" % (broken.replace("\n", "\\n"), ln, full),
                       {"broken.sy": "pr: fn *X -> void : external\nstart :: fn do\n    x := %s\n    pr(x)\nend\n" % broken}, cmd="sylt --no-std -o a.lua broken.sy")
    if acc == 0: raise common.Inconclusive("no multi-line layout of an operator expression is accepted (the bracketed ones are expected to be): the across-lines stage is vacuous")
    return n


def configs(tier):
    kinds = list(ATOMS)
    cfgs = [("int", "int", "int")]
    for k in kinds:
        if k == "int": continue
        cfgs += [(k, "int", "int"), ("int", k, "int"), ("int", "int", k)]
    cfgs += [("neg", "call", "not"), ("not", "field", "neg"), ("call", "index", "field"), ("tuple_index", "paren_call", "call_field")]
    if tier != "quick":
        cfgs.append(("int", "int", "int", "int"))
        for k in ("neg", "not", "call", "tuple_index", "paren_call"):
            cfgs += [(k, k, k), ("int", k, "int", "int"), ("int", "int", k, "int")]
    return cfgs


def run(tier):
    t0 = time.time()
    machine()
    cfgs = configs(tier)
    if unary_reading() not in ("tight", "loose"):
        print("INCONCLUSIVE property=C13 the probe `-10 * 11` parses to neither -(10 * 11) nor (-10) * 11: %s" % unary_reading()); return 2
    with mp.get_context("fork").Pool(16) as pool: results = pool.map(work, cfgs, chunksize=1)
    fnd = common.Findings("C13"); tot = {"paths": 0, "steps": 0, "queries": 0, "solver_s": 0.0}; samples = []; replayed = 0
    for r in results:
        if r["status"] != "ok":
            fnd.undecided("config %s: %s %s" % (r["cfg"], r["status"], r.get("why", "")[:300])); continue
        for k in tot: tot[k] += r.get(k, 0)
        for b in r["bad"]:
            if b["kind"] == "unknown": fnd.undecided("config %s: solver unknown" % (r["cfg"],)); continue
            src = source_of(r["cfg"], b["ops"]); exp = expected_shape(r["cfg"], b["ops"])
            got = native_shape(r["cfg"], b["ops"]); replayed += 1
            if got != exp:
                opsig = "+".join(sorted(set("lvl%d" % LEVEL[o] for o in b["ops"])))
                fnd.report("grouping:%s" % ",".join(sorted(set(r["cfg"]))), "`%s` should group as %s but the parser yields %s" % (src, exp, got), {"expr.sy": src + "\n", "expected.txt": exp, "actual.txt": got},
                           cmd="sylt-replay expr expr.sy")
            else: fnd.undecided("config %s ops %s: MIR path disagrees with the native parser (%s)" % (r["cfg"], b["ops"], b.get("got") or b.get("what")))
        if len(samples) < 4: samples.append({"atoms": r["cfg"], "paths": r["paths"], "queries": r["queries"], "sample_queries": r["samples"]})
    # self-validation of the oracle and the shape function on concrete operator tuples through the native parser
    import random
    rnd = random.Random(common.seed()); val = 0
    for _ in range(12 if tier == "quick" else 60):
        cfg = rnd.choice(cfgs); opn = [rnd.choice(OPS) for i in range(len(cfg) - 1)]
        if native_shape(cfg, opn) != expected_shape(cfg, opn):
            src = source_of(cfg, opn)
            fnd.report("grouping:%s" % ",".join(sorted(set(cfg))), "`%s` should group as %s but the native parser yields %s" % (src, expected_shape(cfg, opn), native_shape(cfg, opn)), {"expr.sy": src + "\n"})
        val += 1
    nval = value_stage(_CTX["art"]["sylt"], fnd, tier)
    cov = {"states": max(1, tot["paths"]), "transitions": max(1, tot["queries"]), "traces_validated_against_impl": replayed + val, "flat_vs_fully_parenthesised_compiles": nval, "samples": samples or [{"note": "nothing ran"}],
           "atom_configurations": len(cfgs), "mir_statements": tot["steps"], "solver_s": round(tot["solver_s"], 2),
           "functions_encoded": ["expression::expression", "parse_precedence", "prefix", "unary", "infix", "valid_infix", "precedence", "Prec::partial_cmp / next (derived)", "Context::{eat,token,peek,skip,span}", "assignable / sub_assignable / assignable_call / assignable_index / assignable_dot", "grouping_or_tuple", "value", "Expression::new"],
           "bounds": {"binary_operators_per_expression": 2 if tier == "quick" else 3, "operator_domain": 13, "atom_kinds": len(ATOMS)}, "unary_reading": unary_reading(), "known_findings_seen": sorted(fnd.seen_known)}
    rc = fnd.finish()
    common.write_evidence("C13", tier, "model_checking", cov, ["token vectors are built directly (the lexer is not part of this check); spans are synthetic",
                          "the statement leaves unary - / not against * and / open: the reading is taken from the implementation once (`-10 * 11`: tight = (-10) * 11, loose = -(10 * 11)) and that one table is required at every position; reading on this tree: " + unary_reading(),
                          "std models: slice::get, Option::unwrap_or, Clone, Try::branch, Box::new, PartialOrd via derived partial_cmp, Vec::push, format! opaque",
                          "'evaluates to the same value': every pair of the 12 value operators over 4-6 operand typings is compiled flat and fully parenthesised; acceptance and the emitted Lua text must be equal (natively); run-time values of precedence-sensitive expressions are also in C01's templates"], time.time() - t0, len(fnd.violations))
    print("C13: %d atom configurations, %d paths, %d queries, %d native re-parses, wall %.1fs" % (len(cfgs), tot["paths"], tot["queries"], replayed + val, time.time() - t0))
    return rc
