"""C06 - every accepted program yields loadable Lua.
 1. spelling kernels (E-REX): z3 chooses, from the token definitions of token.rs, identifiers that are Lua reserved
    words, string bodies of every class Lua's lexer treats specially, and numerals of every shape; each witness is
    compiled inside a minimal program by the real compiler and the chunk must load (luaparse = Lua 5.3 grammar +
    load-time limits).
 2. structural family: every expression kind as an unused statement / discarded branch value, bodies with m calls,
    many globals, deep nesting - the chunk must load.
 3. every chunk of the core catalogue must load."""
import re, time, multiprocessing as mp
import z3
from vlib import common
from rexsmt import tokens as T
from luasym.luaparse import parse, LuaSyntaxError
from checks import templates_core
from syltsem import ast as A

_CTX = {}


def witnesses(stats):
    """returns list of (class, kind, spelling) chosen by the solver from the token languages"""
    toks = T.read_tokens(common.repo_path("sylt-tokenizer/src/token.rs"))
    L = T.languages(toks)
    out = []
    x = z3.String("x")
    def all_models(constraints, limit=12):
        s = z3.Solver(); s.set("timeout", 10000); s.add(constraints); vals = []
        while len(vals) < limit:
            r = stats.check(s)
            if r != z3.sat:
                if r != z3.unsat: raise common.Inconclusive("z3 unknown in a token-language query")
                break
            v = s.model().eval(x, model_completion=True).as_string()
            v = re.sub(r"\\u\{([0-9a-fA-F]+)\}", lambda mm: chr(int(mm.group(1), 16)), v)      # z3 prints non-Latin-1 characters (and ambiguous backslashes) as \u{hex}
            vals.append(v); s.add(x != z3.StringVal(v))
        return vals
    # identifiers: in L(Identifier), not claimed by a keyword-like token, equal to a Lua reserved word
    others = z3.Union(*[L[v] for v in L if v not in ("Identifier", "Comment", "Whitespace", "String")])
    for v in all_models([z3.InRe(x, L["Identifier"]), z3.Not(z3.InRe(x, others)), z3.Or([x == z3.StringVal(k) for k in T.LUA_RESERVED])], 30):
        out.append(("identifier-is-lua-reserved-word", "ident", v))
        out.append(("external-is-lua-reserved-word", "extern", v))
    # a few ordinary identifiers as control (vacuity: these must load)
    for v in all_models([z3.InRe(x, L["Identifier"]), z3.Not(z3.InRe(x, others)), z3.Length(x) == 2, z3.And([x != z3.StringVal(k) for k in T.LUA_RESERVED])], 2):
        out.append(("identifier-ordinary", "ident", v))
    # string bodies: y with "y" in L(String)
    y = x
    instr = z3.InRe(z3.Concat(z3.StringVal('"'), y, z3.StringVal('"')), L["String"])
    bs = z3.StringVal("\\")
    classes = [
        ("string-plain", [z3.InRe(y, z3.Plus(z3.Range("a", "z"))), z3.Length(y) == 2]),
        ("string-trailing-backslash", [z3.SuffixOf(bs, y), z3.Length(y) <= 2, z3.Not(z3.SuffixOf(z3.Concat(bs, bs), y))]),
        ("string-backslash-nonescape", [z3.Contains(y, z3.Concat(bs, z3.StringVal("q"))), z3.Length(y) == 3]),
        ("string-raw-newline", [z3.Contains(y, z3.StringVal("\n")), z3.Length(y) <= 2]),
        ("string-raw-carriage-return", [z3.Contains(y, z3.StringVal("\r")), z3.Length(y) <= 2]),
        ("string-valid-lua-escape", [y == z3.Concat(bs, z3.StringVal("n"))]),
        ("string-decimal-escape-too-large", [z3.InRe(y, z3.Concat(z3.Re(bs), z3.Range("3", "9"), z3.Range("0", "9"), z3.Range("0", "9")))]),
        ("string-hex-escape-incomplete", [z3.InRe(y, z3.Concat(z3.Re(bs), z3.Re(z3.StringVal("x")), z3.Range("g", "z")))]),
        ("string-unicode-escape-incomplete", [y == z3.Concat(bs, z3.StringVal("u{"))]),
        ("string-single-quote", [z3.Contains(y, z3.StringVal("'")), z3.Length(y) == 1]),
        ("string-long-bracket-close", [y == z3.StringVal("]]")]),
        # classes that are empty for the pinned token definitions; if a change of token.rs makes them inhabited the emitter has to cope
        ("string-containing-a-double-quote", [z3.Contains(y, z3.StringVal('"')), z3.Length(y) <= 4]),
        ("string-ending-in-escaped-backslash-quote", [z3.SuffixOf(z3.Concat(bs, z3.StringVal('"')), y), z3.Length(y) <= 4]),
        ("string-non-ascii", [y == z3.StringVal("ä€")]),
        ("string-latin1-char", [z3.Length(y) == 1, z3.InRe(y, z3.Range(chr(0xa1), chr(0xff)))]),
        ("string-char-above-255", [z3.Length(y) == 1, z3.InRe(y, z3.Range(chr(0x100), chr(0x2fff)))]),
        ("string-char-above-999", [z3.Length(y) == 2, z3.InRe(y, z3.Concat(z3.Range(chr(0x3e8), chr(0x2fff)), z3.Range("0", "9")))]),
    ]
    for cname, cs in classes:
        for v in all_models([instr] + cs, 2)[:1]:
            out.append((cname, "string", v))
    # numerals
    for cname, cs in [("float-trailing-dot", [z3.InRe(x, L["Float"]), z3.SuffixOf(z3.StringVal("."), x), z3.Length(x) == 2]),
                      ("float-leading-dot", [z3.InRe(x, L["Float"]), z3.PrefixOf(z3.StringVal("."), x), z3.Length(x) == 2]),
                      ("float-exponent", [z3.InRe(x, L["Float"]), z3.Contains(x, z3.StringVal("e+")), z3.Length(x) == 4]),
                      ("float-neg-exponent", [z3.InRe(x, L["Float"]), z3.Contains(x, z3.StringVal("e-")), z3.Length(x) == 4]),
                      ("float-huge-exponent", [x == z3.StringVal("1e300")]),
                      ("float-tiny", [x == z3.StringVal("1e-300")]),
                      ("float-many-digits", [x == z3.StringVal("123456789012345678.125")]),
                      ("int-max", [x == z3.StringVal("9223372036854775807")]),
                      # empty for the pinned token definitions: integer spellings with letters (other bases), short and at full width
                      ("int-with-a-letter", [z3.InRe(x, L["Int"]), z3.InRe(x, z3.Concat(z3.Star(z3.Range(" ", "~")), z3.Union(z3.Range("a", "z"), z3.Range("A", "Z")), z3.Star(z3.Range(" ", "~")))), z3.Length(x) <= 6]),
                      ("int-with-a-letter-full-width", [z3.InRe(x, L["Int"]), z3.Contains(x, z3.StringVal("FFFFFFFFFFFFFFFF")), z3.Length(x) <= 18]),
                      ("int-with-a-letter-top-bit", [z3.InRe(x, L["Int"]), z3.Contains(x, z3.StringVal("8000000000000000")), z3.Length(x) <= 18]),
                      ("int-leading-zeros", [z3.InRe(x, L["Int"]), z3.PrefixOf(z3.StringVal("00"), x), z3.Length(x) == 3])]:
        for v in all_models(cs, 1): out.append((cname, "number", v))
    return out


def program_for(kind, spelling):
    if kind == "ident":
        return ("B :: blob {\n    %s: int,\n}\nstart :: fn do\n    b := B { %s: 1 }\n    b.%s = b.%s + 1\n    %s := 3\n    print(b.%s + %s)\nend\n" % ((spelling,) * 7))
    if kind == "extern":      # an external is the Lua global of that name, whatever the name is
        return "%s: fn int -> int : external\nstart :: fn do\n    print(%s(1))\n    g :: %s\n    print(g(2))\nend\n" % ((spelling,) * 3)
    if kind == "string":
        return 'start :: fn do\n    s := "%s"\n    print(s)\n    print(s + "x")\nend\n' % spelling
    return "start :: fn do\n    v := %s\n    print(v)\n    w := -%s\n    print(w)\n    print(%s - -%s)\nend\n" % (spelling, spelling, spelling, spelling)


# ------------------------------------------------------------------ structural family
EXPRS = ["1", "1.5", '"s"', "true", "nil", "1 + 2", "a + 1", "a < b", "a == b", "true and false", "p or q", "not p", "-a", "(1, 2)", "[1, 2]", "t[0]",
         "a <=> a", "if p do 1 else 2 end", "f(1)", "blb.x", "En.A 1", "fn -> int do ret 1 end", "Bl { x: 1 }", "(a, b) + (1, 2)", "p and q or not p",
         "case en do\n        A v -> v end\n        else 0 end\n    end"]
PRE = "Bl :: blob {\n    x: int,\n}\nEn :: enum\n    A int,\n    B,\nend\nf :: fn v: int -> int do ret v end\n"
LOCALS = "    a := 1\n    b := 2\n    p := true\n    q := false\n    t := (1, 2)\n    blb := Bl { x: 1 }\n    en := En.A 2\n"


def structural(tier):
    out = []
    for i, e in enumerate(EXPRS):
        out.append(("unused-expression-statement(%s)" % e.split("\n")[0], PRE + "start :: fn do\n" + LOCALS + "    " + e + "\n    print(a)\nend\n"))
        out.append(("expression-as-last-statement(%s)" % e.split("\n")[0], PRE + "g :: fn do\n" + LOCALS + "    " + e + "\nend\nstart :: fn do\n    g()\nend\n"))
        out.append(("discarded-branch-value(%s)" % e.split("\n")[0], PRE + "start :: fn do\n" + LOCALS + "    if p do\n        " + e.replace("\n", "\n    ") + "\n    else\n        " + e.replace("\n", "\n    ") + "\n    end\n    print(a)\nend\n"))
    for m in [20, 40, 60, 80, 100, 120, 140, 170, 199, 260]:
        out.append(("function-with-%d-calls" % m, "f :: fn v: int -> int do ret v end\nstart :: fn do\n" + "".join("    f(%d)\n" % i for i in range(m)) + "end\n"))
        out.append(("function-with-%d-reads" % m, "start :: fn do\n    a := 1\n    s := 0\n" + "".join("    s = s + a\n" for i in range(m)) + "    print(s)\nend\n"))
        out.append(("function-with-%d-locals" % m, "start :: fn do\n" + "".join("    v%d := %d\n" % (i, i) for i in range(m)) + "    print(v0)\nend\n"))
    for m in [40, 80, 100, 120, 160, 200, 260]:
        out.append(("program-with-%d-globals" % m, "".join("g%d :: %d\n" % (i, i) for i in range(m)) + "start :: fn do\n    print(g0)\nend\n"))
        out.append(("program-with-%d-functions" % m, "".join("h%d :: fn -> int do ret %d end\n" % (i, i) for i in range(m)) + "start :: fn do\n    print(h0())\nend\n"))
    for d in [10, 20, 30, 40, 70, 100]:
        out.append(("nested-parentheses-%d" % d, "start :: fn do\n    print(" + "(" * d + "1" + " + 1)" * d + ")\nend\n"))
        if d <= 10: out.append(("nested-ifs-%d" % d, "start :: fn do\n    a := 1\n" + "".join("    " * (i + 1) + "if a > 0 do\n" for i in range(d)) + "    " * (d + 1) + "print(a)\n" + "".join("    " * (d - i) + "end\n" for i in range(d)) + "end\n"))
        out.append(("nested-calls-%d" % d, "f :: fn v: int -> int do ret v end\nstart :: fn do\n    print(" + "f(" * d + "1" + ")" * d + ")\nend\n"))
        out.append(("long-operator-chain-%d" % d, "start :: fn do\n    a := 1\n    print(a" + " + a" * (d * 3) + ")\nend\n"))
    # statements after a control transfer (Lua allows `return` only as the last statement of a block)
    AFTER = {"ret-value-then-expression": "f :: fn a: int -> int do\n    ret a\n    a + 1\nend\nstart :: fn do\n    print(f(1))\nend\n",
             "bare-ret-then-statement": "g :: fn a: int do\n    ret\n    print(a)\nend\nstart :: fn do\n    g(1)\nend\n",
             "ret-in-branch-then-statement": "f :: fn a: int -> int do\n    if a > 0 do\n        ret 1\n        print(a)\n    end\n    ret 2\nend\nstart :: fn do\n    print(f(1))\nend\n",
             "ret-in-loop-then-statement": "f :: fn a: int -> int do\n    loop a > 0 do\n        ret 1\n        a -= 1\n    end\n    ret 2\nend\nstart :: fn do\n    print(f(1))\nend\n",
             "ret-in-case-arm-then-statement": "En :: enum\n    A int,\n    B,\nend\nf :: fn e: En -> int do\n    case e do\n        A v ->\n            ret v\n            print(v)\n        end\n        else end\n    end\n    ret 2\nend\nstart :: fn do\n    print(f(En.A 1))\nend\n",
             "ret-in-closure-then-statement": "start :: fn do\n    c := fn -> int do\n        ret 1\n        2\n    end\n    print(c())\nend\n",
             "two-rets": "f :: fn a: int -> int do\n    ret a\n    ret a + 1\nend\nstart :: fn do\n    print(f(1))\nend\n",
             "break-then-statement": "start :: fn do\n    loop do\n        break\n        print(1)\n    end\n    print(2)\nend\n",
             "continue-then-statement": "start :: fn do\n    i := 0\n    loop i < 2 do\n        i += 1\n        continue\n        print(1)\n    end\n    print(2)\nend\n",
             "unreachable-then-statement": "f :: fn a: int -> int do\n    if a > 5 do\n        <!>\n        print(a)\n    end\n    ret a\nend\nstart :: fn do\n    print(f(1))\nend\n"}
    for n, text in AFTER.items(): out.append(("statements-after-" + n, text))
    # the product: every control transfer as the last (or not last) statement of every kind of block, with statements after the block
    TRANSFERS = {"ret-value": ("ret a", True), "bare-ret": ("ret", False), "break": ("break", None), "continue": ("continue", None), "unreachable": ("<!>", None)}
    BLOCKS = {"plain-do": "do\n    T\nend", "if": "if a > 0 do\n    T\nend", "else": "if a > 5 do\n    print(a)\nelse\n    T\nend", "elif": "if a > 5 do\n    print(a)\nelif a > 0 do\n    T\nend",
              "loop": "loop a > 0 do\n    T\nend", "case-arm": "case e do\n    A v ->\n        T\n    end\n    else end\nend", "case-else-without-arms": "case e do\n    else\n        T\n    end\nend",
              "case-else": "case e do\n    A v -> print(v) end\n    else\n        T\n    end\nend", "nested-do": "do\n    do\n        T\n    end\n    print(1)\nend", "do-in-if": "if a > 0 do\n    do\n        T\n    end\n    print(2)\nend"}
    def indent(t, n): return "\n".join(" " * n + l for l in t.split("\n"))
    for tn, (tr, valued) in TRANSFERS.items():
        for bn, blk in BLOCKS.items():
            for inside in (False, True):
                body = blk.replace("T", tr + ("\n" + " " * (len(blk.split("T")[0].split("\n")[-1])) + "print(7)" if inside else ""))
                sig = "fn a: int, e: En -> int" if valued is not False else "fn a: int, e: En"
                text = "En :: enum\n    A int,\n    B,\nend\nf :: %s do\n    i := 0\n    loop i < 3 do\n        i += 1\n%s\n        print(i)\n    end\n%s\nend\nstart :: fn do\n    %s\nend\n" % (
                    sig, indent(body, 8), "    ret 2" if valued is not False else "    print(0)", "print(f(1, En.A 1))" if valued is not False else "f(1, En.A 1)")
                out.append(("control-transfer(%s)-ends-block(%s)%s" % (tn, bn, "-followed-inside" if inside else ""), text))
    return out


def _one(job):
    role, src = job
    import subprocess
    t0 = time.time()
    if role.startswith("corpus:"):
        # one of the repo's own programs, compiled where it lies (it may import neighbouring files)
        try: r = subprocess.run([_CTX["sylt"], "-o", "-", src], cwd=common.REPO, capture_output=True, text=True, errors="surrogateescape", timeout=120)
        except subprocess.TimeoutExpired: return (role, "timeout", "compiler did not finish in 120 s", src, None)
        if r.returncode != 0: return (role, "rejected", r.stdout[-200:], src, None)
        st = {}
        try: parse(r.stdout, st)
        except LuaSyntaxError as e: return (role, "load_error", str(e), open(src, errors="replace").read(), r.stdout)
        except RecursionError: return (role, "load_error", "parser recursion (nesting beyond the C-levels limit)", open(src, errors="replace").read(), r.stdout)
        return (role, "loads", "", src, None)
    try: rc, lua, out = common.compile_sy(_CTX["sylt"], {"main.sy": src}, timeout=20)
    except subprocess.TimeoutExpired: return (role, "timeout", "compiler did not finish in 20 s", src, None)
    if rc != 0 or lua is None: return (role, "rejected", out[-300:], src, None)
    st = {}
    try: parse(lua, st)
    except LuaSyntaxError as e: return (role, "load_error", str(e), src, lua)
    except RecursionError: return (role, "load_error", "parser recursion (nesting beyond the C-levels limit)", src, lua)
    # the chunk a user pipes into lua (`-o -`) is the same text: anything else the compiler prints must not land in it
    import tempfile, shutil, os
    d = tempfile.mkdtemp(prefix="c06o_", dir=common.SCRATCH)
    try:
        open(os.path.join(d, "main.sy"), "w", errors="surrogateescape").write(src)
        r = subprocess.run([_CTX["sylt"], "-o", "-", "main.sy"], cwd=d, capture_output=True, text=True, errors="surrogateescape", timeout=20)
    except subprocess.TimeoutExpired: r = None
    finally: shutil.rmtree(d, ignore_errors=True)
    if r is not None and r.returncode == 0 and r.stdout != lua:
        try: parse(r.stdout, {})
        except LuaSyntaxError as e: return (role, "load_error", "the chunk written to stdout (-o -) differs from the one written to FILE and does not load: %s; first line: %r" % (e, r.stdout.split("\n", 1)[0][:100]), src, r.stdout)
        except RecursionError: pass
    return (role, "loads", "max_locals=%s max_upvals=%s" % (st.get("max_locals"), st.get("max_upvals")), src, None)


def sig_of(role):
    import re
    return "load_error:" + re.sub(r"\d+", "N", role)


def run(tier):
    t0 = time.time()
    art = common.artifacts(); _CTX["sylt"] = art["sylt"]
    stats = common.SolverStats()
    ws = witnesses(stats)
    jobs = [("%s[%r]" % (c, sp), program_for(k, sp)) for c, k, sp in ws]
    n_w = len(jobs)
    jobs += structural(tier)
    n_s = len(jobs) - n_w
    for t in templates_core.CATALOGUE: jobs.append(("catalogue:" + t["name"], A.render(t["text"])[0]))
    from luasym import runner
    import os
    root = common.repo_path("tests"); n_c = 0
    for f in runner.corpus(root): jobs.append(("corpus:" + os.path.relpath(f, root), f)); n_c += 1
    import threading
    threading.stack_size(256 * 1024 * 1024)
    with mp.get_context("fork").Pool(16) as pool: results = pool.map(_one, jobs, chunksize=4)
    fnd = common.Findings("C06"); counts = {"loads": 0, "rejected": 0, "load_error": 0, "timeout": 0}; samples = []; thresholds = {}
    import re
    first_fail = {}
    for role, st, msg, src, lua in results:
        m = re.search(r"-(\d+)(-|$)", role.split("[")[0])
        if st == "load_error" and m:
            k = sig_of(role.split("[")[0]); first_fail[k] = min(first_fail.get(k, 10**9), int(m.group(1)))
    for role, st, msg, src, lua in results:
        counts[st] += 1
        if st == "load_error":
            base = role.split("[")[0]
            sg = sig_of(base)
            if sg in first_fail: sg += ":from-%d" % first_fail[sg]
            fnd.report(sg, "%s: accepted by the compiler but the chunk does not load: %s" % (role, msg), {"main.sy": src, "out.lua": lua or ""}, cmd="sylt -o out.lua main.sy && luac -p out.lua")
        elif st == "rejected" and (role.startswith("catalogue:") or role.startswith("identifier-ordinary") or role.startswith("string-plain") or role.startswith("float-")):      # a float spelling of the token language in `v := LIT` is a valid program: a rejection means the witness program is wrong (vacuous class)
            fnd.undecided("%s: rejected by the compiler: %s" % (role, msg.replace("\n", " ")[:200]))
        if st == "timeout": print("NOTE compiler timeout (not a C06 matter, see C07): " + role)
        if len(samples) < 6 and (st != "loads" or role.startswith(("identifier-is", "string-raw"))): samples.append({"case": role, "result": st, "detail": msg[:160]})
    cov = {"explanation": "three parts: (1) %d spelling witnesses chosen by z3 from the token languages of token.rs (identifiers that are Lua reserved words, string-body classes, numeral shapes), each compiled in a minimal program and loaded; (2) %d structural programs (each expression kind unused / last / discarded, bodies with m calls/reads/locals, many globals/functions, deep nesting); (3) %d catalogue chunks and every accepted program of tests/**/*.sy (%d files). 'loads' = accepted by luaparse (Lua 5.3 grammar + assignment-target, break, goto/label, 200-locals, 255-upvalues, 200 C-levels rules)." % (n_w, n_s, len(templates_core.CATALOGUE), n_c),
           "evaluations": len(jobs), "distinct_nontrivial": counts["loads"] + counts["load_error"], "counts": counts, "samples": samples,
           "solver": stats.as_dict(), "token_languages": "regenerated from sylt-tokenizer/src/token.rs on this run", "known_findings_seen": sorted(fnd.seen_known)}
    rc = fnd.finish()
    common.write_evidence("C06", tier, "other", cov, ["logos implements longest-match over the declared token set (trusted)", "\\d is modelled as ASCII digits", "{:?} formatting of finite f64 is taken from Rust's documented behaviour",
                                                       "the C-levels limit of the real lua binary is a few levels below 200 (its own C frames); luaparse uses 200"], time.time() - t0, len(fnd.violations))
    print("C06: %d cases (%d witnesses, %d structural, %d catalogue, %d corpus programs): %s, wall %.1fs" % (len(jobs), n_w, n_s, len(templates_core.CATALOGUE), n_c, counts, time.time() - t0))
    return rc
