"""C02 - type soundness: accepted programs never hit dynamic type errors.
Templates and their type perturbations go through the real compiler; every accepted one is executed symbolically
(all hole values, all paths); a path ending in a Lua 'attempt to ...' error, or reading an undeclared / out-of-scope
variable, is a counterexample (replayed concretely before it is reported)."""
import random, time
from vlib import common
from syltsem import parse as SP
from checks import tvrun, templates_core, gen, perturb


FALLS_OFF = """
f :: fn n: int -> int do
    i := 0
    loop i < 3 do
        if i == n do ret i * 10 end
        i += 1
    end
end
start :: fn do
    print(f(?a) + 1)
end
"""


def falls_off_possible(src):
    """does the program contain a function with a declared non-void return type whose body does not end in a
    `ret` or a value expression (so control can fall off its end)?"""
    try: prog = SP.strip_parens(SP.parse_program(src))
    except Exception: return False
    found = []
    def walk(t):
        if isinstance(t, tuple):
            if t and t[0] == "fn" and t[2] not in (None, "void", "->"):
                body = t[3]
                if not body or body[-1][0] not in ("ret", "expr", "unreachable"): found.append(t)
                elif body[-1][0] == "expr" and body[-1][1][0] == "if" and body[-1][1][1][-1][0] is not None: found.append(t)
            for x in t: walk(x)
        elif isinstance(t, list):
            for x in t: walk(x)
    walk(prog)
    return bool(found)


def build_templates(seed, n_rand, n_pert_each):
    rnd = random.Random(seed * 7919 + 11)
    out = []
    base = [dict(t) for t in templates_core.CATALOGUE] + gen.random_templates(seed, n_rand)
    base.append({"name": "falls_off_end", "role": "dropped ret: function with a declared return type can fall off its end", "dom": {"a": (0, 3)}, "text": FALLS_OFF})
    for t in base:
        t = dict(t); t["name"] = "base_" + t["name"]; out.append(t)
    for t in base:
        try: prog = SP.strip_parens(SP.parse_program(t["text"]))
        except SP.Outside: continue
        for i, (text, desc) in enumerate(perturb.perturbations(prog, rnd, n_pert_each)):
            out.append({"name": "pert_%s_%d" % (t["name"], i), "role": "perturbed(%s)" % desc, "text": text, "dom": t.get("dom", {})})
    return out


def sig(r, d, kind):
    if kind == "load_error": return "load_error"
    why = (d or {}).get("why", "") or ""
    role = r.get("role", "")
    if ("nil" in why or "uninitialised" in why) and falls_off_possible(r.get("source", "")): return "soundness:missing-return"
    return "soundness:" + why.split(":")[0] + ":" + role


def run(tier):
    t0 = time.time()
    art = common.artifacts()
    q = tier == "quick"
    templates = build_templates(common.seed(), 30 if q else 300, 6 if q else 12)
    return tvrun.tv_check("C02", tier, templates, art["sylt"], t0, oracle_name="soundness", expect_accept=False, sig_of=sig,
                          assumptions=tvrun.TV_ASSUMPTIONS + ["programs use no external declarations and no unsafe_force; the std library's own Lua is executed as it is",
                                                              "perturbations: <= 2 edits per template (literal/operator/wrapper/else/arity/scope/ret edits)"])
