"""C02 - type soundness: accepted programs never hit dynamic type errors.
Templates and their type perturbations go through the real compiler; every accepted one is executed symbolically
(all hole values, all paths); a path ending in a Lua 'attempt to ...' error, or reading an undeclared / out-of-scope
variable, is a counterexample (replayed concretely before it is reported)."""
import random, time
from vlib import common
from syltsem import parse as SP
from checks import tvrun, templates_core, gen, perturb


FALLS_OFF = """
f :: fn n: int -> int do
    i := 0
    loop i < 3 do
        if i == n do ret i * 10 end
        i += 1
    end
end
start :: fn do
    print(f(?a) + 1)
end
"""


BLOB_HEAD = """
Small :: blob {
    x: int,
}
Big :: blob {
    x: int,
    y: int,
}
"""
# blobs unify structurally; wherever a Small and a Big meet (either order), reading `.y` of the result must not reach run time
BLOB_MIX = {
    "if_small_else_big": "start :: fn do\n    small := Small { x: ?a }\n    big := Big { x: 1, y: 2 }\n    v := if ?a < 2 do small else big end\n    print(v.y + 1)\nend\n",
    "if_big_else_small": "start :: fn do\n    small := Small { x: ?a }\n    big := Big { x: 1, y: 2 }\n    v := if ?a < 2 do big else small end\n    print(v.y + 1)\nend\n",
    "list_of_both": "start :: fn do\n    l := [Big { x: 1, y: 2 }, Small { x: ?a }]\n    l -> for_each(fn b do print(b.y + 1) end)\nend\n",
    "list_of_both_rev": "start :: fn do\n    l := [Small { x: ?a }, Big { x: 1, y: 2 }]\n    l -> for_each(fn b do print(b.y + 1) end)\nend\n",
    "reassign_big_with_small": "start :: fn do\n    v := Big { x: 1, y: 2 }\n    if ?a < 2 do\n        v = Small { x: 3 }\n    end\n    print(v.y + 1)\nend\n",
    "reassign_small_with_big": "start :: fn do\n    v := Small { x: 3 }\n    w := Big { x: 1, y: 2 }\n    if ?a < 2 do\n        w = v\n    end\n    print(w.y + 1)\nend\n",
    "param_big_gets_small": "sum :: fn p: Big -> int do\n    ret p.x + p.y\nend\nstart :: fn do\n    print(sum(Small { x: ?a }))\nend\n",
    "pick_in_function": "pick :: fn c: bool, a: Small, b: Big -> int do\n    v := if c do a else b end\n    v.y + 1\nend\nstart :: fn do\n    print(pick(?a < 2, Small { x: 1 }, Big { x: 1, y: 2 }))\nend\n",
    "case_arms": "E :: enum\n    A,\n    B,\nend\nstart :: fn do\n    e := if ?a < 2 do E.A else E.B end\n    v := case e do\n        A -> Small { x: 1 } end\n        else Big { x: 1, y: 2 } end\n    end\n    print(v.y + 1)\nend\n",
    "closure_returns_either": "start :: fn do\n    mk := fn c: bool do\n        if c do ret Big { x: 1, y: 2 } end\n        ret Small { x: 1 }\n    end\n    print(mk(?a < 2).y + 1)\nend\n",
}


def falls_off_possible(src):
    """does the program contain a function with a declared non-void return type whose body does not end in a
    `ret` or a value expression (so control can fall off its end)?"""
    try: prog = SP.strip_parens(SP.parse_program(src))
    except Exception: return False
    found = []
    def walk(t):
        if isinstance(t, tuple):
            if t and t[0] == "fn" and t[2] not in (None, "void", "->"):
                body = t[3]
                if not body or body[-1][0] not in ("ret", "expr", "unreachable"): found.append(t)
                elif body[-1][0] == "expr" and body[-1][1][0] == "if" and body[-1][1][1][-1][0] is not None: found.append(t)
            for x in t: walk(x)
        elif isinstance(t, list):
            for x in t: walk(x)
    walk(prog)
    return bool(found)


def build_templates(seed, n_rand, n_pert_each):
    rnd = random.Random(seed * 7919 + 11)
    out = []
    base = [dict(t) for t in templates_core.CATALOGUE] + gen.random_templates(seed, n_rand)
    base.append({"name": "falls_off_end", "role": "dropped ret: function with a declared return type can fall off its end", "dom": {"a": (0, 3)}, "text": FALLS_OFF})
    for n, body in BLOB_MIX.items():
        base.append({"name": "blob_mix_" + n, "role": "structurally different blobs meet (%s)" % n, "dom": {"a": (0, 3)}, "text": BLOB_HEAD + body})
    # un-annotated parameters: the operator constraint has to survive until the call that instantiates the parameter
    for op in ("<", ">", "<=", ">=", "+", "-", "*"):
        for side in ("const_left", "const_right"):
            for bad in ('"s"', "true", "(1, 2)"):
                if bad == "(1, 2)" and op in ("+", "-", "*"): e_ok = "(3, 4)"
                else: e_ok = "2"
                expr = ("%s %s x" % (e_ok, op)) if side == "const_left" else ("x %s %s" % (op, e_ok))
                for use in ("print(%s)", "y := %s\n    print(1)"):
                    body = "g :: fn x do\n    " + (use % expr) + "\nend\nstart :: fn do\n    g(%s)\n    g(%s)\nend\n" % ("?a" if e_ok == "2" else "(?a, 1)", bad)
                    base.append({"name": "generic_%s_%s_%s_%d" % ({"<": "lt", ">": "gt", "<=": "le", ">=": "ge", "+": "add", "-": "sub", "*": "mul"}[op], side, bad.strip('"(), ').replace(", ", ""), use.startswith("y")), "role": "operator constraint on an un-annotated parameter (%s, %s)" % (op, side), "dom": {"a": (0, 3)}, "text": body})
    # holes of the generic-function instantiation (constraints or type variables that are not carried by the copied signature)
    base.append({"name": "generic_local_tuple_constraint", "no_perturb": True, "role": "generic function: constraint on a local tuple", "dom": {"a": (0, 3)},
                 "text": "f :: fn x do\n    y :: (x, 1) - (2, 2)\n    print(1)\nend\nstart :: fn do\n    f(?a)\n    f(\"s\")\nend\n"})
    base.append({"name": "polymorphic_mutable_function_variable", "no_perturb": True, "role": "mutable variable holding a polymorphic function re-assigned to a monomorphic one", "dom": {"a": (0, 3)},
                 "text": "g :: fn x: int -> int do\n    x + 1\nend\nstart :: fn do\n    f := fn x: *A -> *A do\n        x\n    end\n    print(f(?a))\n    f = g\n    print(f(\"abc\"))\nend\n"})
    base.append({"name": "closure_returning_captured_parameter", "no_perturb": True, "role": "closure over a generic parameter read at two types", "dom": {"a": (0, 3)},
                 "text": "f :: fn x do\n    g :: fn -> x end\n    a : int : g()\n    b : str : g()\n    print(a + 1)\n    print(b + \"s\")\nend\nstart :: fn do\n    f(?a)\nend\n"})
    # a name declared inside a construct and read after it: rejected, or - if accepted - it must not read an undeclared variable
    ENUM = "En :: enum\n    A,\n    B,\nend\n"
    scopes = {"if_branch": "    if ?a > 1 do\n        side := 5\n    end\n", "else_branch": "    if ?a > 1 do\n        print(0)\n    else\n        side := 5\n    end\n",
              "loop_body": "    i := 0\n    loop i < 1 do\n        i += 1\n        side := 5\n    end\n", "block": "    do\n        side := 5\n    end\n",
              "case_arm": "    e := if ?a > 1 do En.A else En.B end\n    case e do\n        A -> side := 5 end\n        else print(0) end\n    end\n",
              "case_else": "    e := if ?a > 1 do En.A else En.B end\n    case e do\n        A -> print(0) end\n        else side := 5 end\n    end\n",
              "closure_body": "    c :: fn do\n        side := 5\n    end\n    c()\n", "elif_branch": "    if ?a > 2 do\n        print(0)\n    elif ?a > 1 do\n        side := 5\n    end\n"}
    for n, body in scopes.items():
        base.append({"name": "use_after_scope_" + n, "role": "name used after the %s that declares it" % n.replace("_", " "), "dom": {"a": (0, 3)}, "text": ENUM + "start :: fn do\n" + body + "    print(side * side)\nend\n"})
    # generic functions whose result is tuple arithmetic / negation over their parameters, called with operands the operator does not support
    for n, fn_, call in (("tuple_times_constant", "sc :: fn v ->\n    (v, v) * (2, 3)\nend\n", "sc(\"four\")"), ("tuple_minus_annotated", "df :: fn t: (*A, *A) ->\n    t - (1, 1)\nend\n", "df((\"a\", \"b\"))"),
                          ("negated_tuple", "ng :: fn a ->\n    -(a, 1)\nend\n", "ng(\"s\")"), ("tuple_of_parameters", "sw :: fn x, y, k ->\n    (x, y) * (k, k)\nend\n", "sw(1, 2, \"s\")")):
        for use in ("    print(%s)\n", "    %s\n    print(1)\n", "    r := %s\n    print(r)\n"):
            base.append({"name": "generic_tuple_%s_%d" % (n, len(use)), "no_perturb": True, "role": "generic function returning tuple arithmetic over its parameters (%s)" % n, "dom": {"a": (0, 3)},
                         "text": fn_ + "start :: fn do\n    print(?a)\n" + (use % call) + "end\n"})
    for n, text in (("plain", "base :: ?a\nlimit : int : limit + base\nstart :: fn do\n    print(limit)\nend\n"), ("closure", "total : int : (fn -> int do ret total * 2 end)()\nstart :: fn do\n    print(total + ?a)\nend\n"),
                    ("blob", "Pt :: blob {\n    x: int,\n    y: int,\n}\norigin :: Pt { x: ?a, y: origin.x }\nstart :: fn do\n    print(origin.y)\nend\n"),
                    ("call_argument", "twice :: fn f: fn int -> int -> fn int -> int do\n    ret fn n: int -> int do ret f(f(n)) end\nend\nstep : fn int -> int : twice(step)\nstart :: fn do\n    print(step(?a))\nend\n")):
        base.append({"name": "global_initialiser_reads_itself_" + n, "no_perturb": True, "role": "global initialiser that reads the global it initialises (%s)" % n, "dom": {"a": (0, 3)}, "text": text})
    for n, text in (("if", "er :: fn c: bool -> int do\n    if c do\n        ret \"negative\"\n    else\n        2\n    end\nend\nstart :: fn do\n    print(er(?a == 0) + 1)\nend\n"),
                    ("case", "Ev :: enum\n    A int,\n    B,\nend\ner :: fn e: Ev -> int do\n    case e do\n        A v ->\n            ret (v, v)\n        end\n        else\n            3\n        end\n    end\nend\nstart :: fn do\n    print(er(Ev.A ?a) * 2)\nend\n"),
                    ("inferred", "er :: fn c ->\n    if c do\n        ret \"negative\"\n    else\n        2\n    end\nend\nstart :: fn do\n    k: int = er(?a == 0)\n    print(k + 1)\nend\n")):
        base.append({"name": "early_return_of_another_type_in_trailing_" + n, "no_perturb": True, "role": "early ret of another type inside the trailing %s expression of a block" % n, "dom": {"a": (0, 1)}, "text": text})
    base.append({"name": "if_value_with_a_branch_that_has_no_value", "no_perturb": True, "role": "if used as a value, one branch ends in a statement", "dom": {"a": (0, 4)},
                 "text": "start :: fn do\n    y := 0\n    x :: if ?a > 2 do 1 else y = 2 end\n    print(x + 1)\nend\n"})
    base.append({"name": "function_parameter_used_at_two_types", "no_perturb": True, "role": "function-typed parameter with wildcard type called at two types", "dom": {"a": (0, 3)},
                 "text": "apply :: fn g: fn * -> * ->\n    g(?a)\n    g(\"a\")\nend\nstart :: fn do\n    x :: apply(fn a: int -> int do a + 1 end)\n    print(1)\nend\n"})
    for t in base:
        t = dict(t); t["name"] = "base_" + t["name"]; out.append(t)
    for t in base:
        if t.get("no_perturb"): continue          # templates that already show a recorded finding: their perturbations would only restate it
        try: prog = SP.strip_parens(SP.parse_program(t["text"]))
        except SP.Outside: continue
        for i, (text, desc) in enumerate(perturb.perturbations(prog, rnd, n_pert_each)):
            out.append({"name": "pert_%s_%d" % (t["name"], i), "role": "perturbed(%s)" % desc, "text": text, "dom": t.get("dom", {})})
    return out


def sig(r, d, kind):
    if kind == "load_error": return "load_error"
    why = (d or {}).get("why", "") or ""
    role = r.get("role", "")
    if ("nil" in why or "uninitialised" in why) and falls_off_possible(r.get("source", "")): return "soundness:missing-return"
    return "soundness:" + why.split(":")[0] + ":" + role


def run(tier):
    t0 = time.time()
    art = common.artifacts()
    q = tier == "quick"
    templates = build_templates(common.seed(), 30 if q else 300, 6 if q else 12)
    return tvrun.tv_check("C02", tier, templates, art["sylt"], t0, oracle_name="soundness", expect_accept=False, sig_of=sig,
                          assumptions=tvrun.TV_ASSUMPTIONS + ["programs use no external declarations and no unsafe_force; the std library's own Lua is executed as it is",
                                                              "perturbations: <= 2 edits per template (literal/operator/wrapper/else/arity/scope/ret edits)"])
