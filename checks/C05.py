"""C05 - blob, enum, tuple, loop and entry-point shape rules are enforced.
K-tc with alternative-snippet selectors: blob instantiation with every field subset, field access (direct and
through an un-annotated parameter), enum construction / matching with every variant subset, tuple index and
length, externblob instantiation, break/continue under every nest kind, and the type of `start`. z3 decides per
explored path that no must-reject valuation is accepted and no must-accept valuation is rejected."""
import time
import z3
from vlib import common
from checks import ktcrun

HEAD = '''
Bb :: blob {
    a: int,
    b: int,
}
Xb :: externblob {
    a: int,
}
Gb :: blob(*T) {
    v: *T,
}
En :: enum
    A int,
    B,
end
Ge :: enum(*V)
    Ja *V,
    No,
end
'''
def alts(items): return ", ".join("fn do\n%s\nend" % s for s, _ in items)
def ealts(items): return ", ".join(s for s, _ in items)

BLOB_INST = [("Bb { a: 1, b: 2 }", False), ("Bb { b: 2, a: 1 }", False), ("Bb { a: 1 }", True), ("Bb { b: 2 }", True), ("Bb { a: 1, b: 2, c: 3 }", True), ("Bb { c: 3 }", True), ("Bb { }", True),
             ("Xb { a: 1 }", True), ("Gb { v: 1 }", False), ("Gb { v: 1, w: 2 }", True), ("Gb { }", True), ("Bb { a: 1, a: 2, b: 3 }", None),
             # a repeated initialiser does not stand in for a missing field (as many given as declared, one of them missing)
             ("Bb { a: 1, a: 2 }", True), ("Bb { b: 1, b: 2 }", True), ("Bb { a: 1, a: 2, a: 3 }", True), ("Bb { a: 1, c: 2 }", True), ("Bb { c: 1, c: 2 }", True), ("Gb { v: 1, v: 2 }", None)]
FIELD = [("k :: bv.a", False), ("k :: bv.b", False), ("k :: bv.c", True), ("k :: ga(bv)", False), ("k :: gc(bv)", True), ("bv.c = 1", True), ("bv.a = 2", False), ("k :: gv.v", False), ("k :: gv.w", True),
         ("k :: (bv.a).x", True)]
ENUM = [("e :: En.A 1", False), ("e :: En.B", False), ("e :: En.C", True), ("e :: En.C 1", True), ("e :: Ge.Ja 1", False), ("e :: Ge.No", False), ("e :: Ge.Xx 1", True), ("e :: Bb.A 1", True)]
CASE = [("case ev do\n    A v -> pr(v) end\n    B -> pr(0) end\nend", False),
        ("case ev do\n    A v -> pr(v) end\n    else pr(0) end\nend", False),
        ("case ev do\n    else pr(0) end\nend", False),
        ("case ev do\n    A v -> pr(v) end\nend", True),
        ("case ev do\n    B -> pr(0) end\nend", True),
        ("case ev do\n    A v -> pr(v) end\n    B -> pr(0) end\n    C -> pr(1) end\nend", True),
        ("case ev do\n    A v -> pr(v) end\n    C -> pr(1) end\n    else pr(0) end\nend", True),
        ("case ev do\n    C w -> pr(w) end\n    else pr(0) end\nend", True),
        ("case ev do\n    C -> pr(1) end\n    else pr(0) end\nend", True),
        ("case (1 + 2) do\n    Three -> pr(1) end\n    else pr(0) end\nend", True),
        ("case bv do\n    A v -> pr(v) end\n    else pr(0) end\nend", True),
        ("case gev do\n    Ja v -> pr(v) end\n    No -> pr(0) end\nend", False),
        ("case gev do\n    Ja v -> pr(v) end\nend", True)]
TUPLE = [("k :: tp[0]", False), ("k :: tp[2]", False), ("k :: tp[3]", True), ("k :: tp[7]", True), ("tq: (int, int) = (1, 2)", False), ("tq: (int, int) = (1, 2, 3)", True), ("tq: (int, int, int) = (1, 2)", True),
         ("k :: (1, 2) == (1, 2, 3)", True), ("k :: (1, 2) + (1, 2, 3)", True), ("k :: (1, 2) + (3, 4)", False), ("k :: (1,)[0]", False), ("k :: (1,)[1]", True), ("k :: ()", False), ("k :: gt(tp)", True), ("k :: gt((1, 2, 3, 4))", False)]
BODY = '''
ga :: fn x -> x.a end
gc :: fn x -> x.c end
gt :: fn x -> x[3] end
start :: fn do
    bv := Bb { a: 1, b: 2 }
    gv := Gb { v: 1 }
    ev := En.A 1
    gev := Ge.Ja 1
    tp :: (1, 2, 3)
    CORE
    pr(1)
end
'''
LOOPS = [  # break/continue placements: (text, must_reject)
    ("WORD", True),
    ("loop 1 < 2 do\n    WORD\nend", False),
    ("loop 1 < 2 do\n    if 1 < 2 do\n        WORD\n    end\n    break\nend", False),
    ("loop 1 < 2 do\n    cf :: fn do\n        WORD\n    end\n    break\nend", True),
    ("loop 1 < 2 do\n    cf :: fn do\n        loop 1 < 2 do\n            WORD\n        end\n    end\n    break\nend", False),
    ("if 1 < 2 do\n    WORD\nend", True),
    ("do\n    WORD\nend", True),
    ("loop 1 < 2 do\n    do\n        WORD\n    end\n    break\nend", False),
    ("loop 1 < 2 do\n    case ev do\n        A v ->\n            WORD\n        end\n        else pr(0) end\n    end\n    break\nend", False),
    ("cf :: fn do\n    WORD\nend", True),
    ("loop (if 1 < 2 do\n    WORD\n    true\nelse\n    false\nend) do\n    break\nend", True),
    ("loop 1 < 2 do\n    loop (if 1 < 2 do\n        WORD\n        true\n    else\n        false\n    end) do\n        break\n    end\n    break\nend", False),
    ("loop 1 < 2 do\n    break\nend\nWORD", True),
    ("loop 1 < 2 do\n    cf :: pu do\n        if 1 < 2 do\n            WORD\n        end\n    end\n    break\nend", True),
]
START = [("fn do\n    pr(1)\nend", False), ("fn a: int do\n    pr(a)\nend", True), ("fn -> int do\n    ret 1\nend", True), ("5", True), ("fn -> void do\n    pr(1)\nend", False), ("pu do\nend", None)]


def _spec(items, sel):
    return (lambda S, I: z3.Or([I(sel, i) for i, (_, rej) in enumerate(items) if rej is True] or [z3.BoolVal(False)]),
            lambda S, I: z3.Or([I(sel, i) for i, (_, rej) in enumerate(items) if rej is False] or [z3.BoolVal(False)]))


def _spec_loops(S, I):
    return z3.Or([I("alt1", i) for i, (_, rej) in enumerate(LOOPS) if rej])
def _acc_loops(S, I):
    return z3.Or([I("alt1", i) for i, (_, rej) in enumerate(LOOPS) if not rej])


SPECS = {}; ACCEPT_SPECS = {}
for _n, _items, _sel in [("blob_inst", BLOB_INST, "ealt1"), ("field", FIELD, "alt1"), ("enum", ENUM, "alt1"), ("case", CASE, "alt1"), ("tuple", TUPLE, "alt1"), ("start", START, "ealt1")]:
    SPECS[_n], ACCEPT_SPECS[_n] = _spec(_items, _sel)
SPECS["loops_break"] = SPECS["loops_continue"] = _spec_loops
ACCEPT_SPECS["loops_break"] = ACCEPT_SPECS["loops_continue"] = _acc_loops


def ind(s, n=4): return ("\n" + " " * n).join(s.split("\n"))


def jobs():
    J = []
    J.append({"name": "blob_instantiation", "core": "blob-fields", "module": "checks.C05", "spec": "blob_inst", "text": HEAD + BODY.replace("CORE", "bi := __ealt1(%s)" % ealts(BLOB_INST))})
    for n, items in [("field", FIELD), ("enum", ENUM), ("case", CASE), ("tuple", TUPLE)]:
        J.append({"name": n, "core": n, "module": "checks.C05", "spec": n, "text": HEAD + BODY.replace("CORE", "__alt1(%s)" % alts([(ind(s), r) for s, r in items]))})
    for w in ("break", "continue"):
        items = [(t.replace("WORD", w), r) for t, r in LOOPS]
        J.append({"name": "loops_" + w, "core": w + "-placement", "module": "checks.C05", "spec": "loops_" + w, "text": HEAD + BODY.replace("CORE", "__alt1(%s)" % alts([(ind(s), r) for s, r in items]))})
    # the same shape rules for code that follows a `ret` in its block (unreachable code is still code: it is resolved and emitted)
    after = BODY.replace("    CORE\n", "    if gv.v > 0 do\n        ret\n        CORE2\n    end\n    ret\n    CORE\n")
    for n, items in [("field", FIELD), ("enum", ENUM), ("case", CASE), ("tuple", TUPLE)]:
        J.append({"name": n + "@after_ret", "core": n + "(after ret)", "module": "checks.C05", "spec": n, "text": HEAD + after.replace("CORE2", "pr(2)").replace("CORE", "__alt1(%s)" % alts([(ind(s), r) for s, r in items]))})
    J.append({"name": "blob_instantiation@after_ret_in_branch", "core": "blob-fields(after ret)", "module": "checks.C05", "spec": "blob_inst", "text": HEAD + after.replace("CORE2", "bi := __ealt1(%s)" % ealts(BLOB_INST)).replace("    CORE\n", "    pr(3)\n")})
    items = [(t.replace("WORD", "break"), r) for t, r in LOOPS]
    J.append({"name": "loops_break@after_ret", "core": "break-placement(after ret)", "module": "checks.C05", "spec": "loops_break", "text": HEAD + after.replace("CORE2", "pr(2)").replace("CORE", "__alt1(%s)" % alts([(ind(s), r) for s, r in items]))})
    J.append({"name": "start_type", "core": "start-type", "module": "checks.C05", "spec": "start", "text": HEAD + "start :: __ealt1(%s)\n" % ealts(START)})
    # `start` declared as an external (no body to look at): only `fn -> void` may be accepted
    J.append({"name": "start_external_result", "core": "start-type(external)", "module": "checks.C05", "spec": "start_ext_ret", "tys": ["void", "int", "str", "bool"], "text": "start : fn -> Ty__1 : external\n"})
    J.append({"name": "start_external_parameter", "core": "start-type(external)", "module": "checks.C05", "spec": "start_ext_bad", "tys": ["int", "str", "bool", "float"], "text": "start : fn Ty__1 -> void : external\n"})
    J.append({"name": "start_external_not_a_function", "core": "start-type(external)", "module": "checks.C05", "spec": "start_ext_bad", "tys": ["int", "str", "bool", "float"], "text": "start : Ty__1 : external\n"})
    J.append({"name": "start_annotated_definition", "core": "start-type(annotated)", "module": "checks.C05", "spec": "start_ext_ret", "tys": ["void", "int", "str", "bool"], "text": "start : fn -> Ty__1 : fn do\n    pr(1)\nend\n"})
    return J


# ---- declaration order of the types involved and `self`: the same violations with the blob / enum declared AFTER the type that has a field of it
FWD_BLOB = {"used_first": "Aa :: blob {\n    b: Bb,\n}\nBb :: blob {\n    x: int,\n}\n", "declared_first": "Bb :: blob {\n    x: int,\n}\nAa :: blob {\n    b: Bb,\n}\n"}
FWD_ENUM = {"used_first": "Aa :: blob {\n    e: Ee,\n}\nEe :: enum\n    X,\n    Y,\nend\n", "declared_first": "Ee :: enum\n    X,\n    Y,\nend\nAa :: blob {\n    e: Ee,\n}\n"}
def _fwd_jobs():
    J = []
    for order, decl in FWD_BLOB.items():
        J.append({"name": "field_of_field_" + order, "core": "field-access-through-field(%s)" % order, "module": "checks.C05", "spec": "fwd_access",
                  "text": decl + "ff :: fn a: Aa -> int do\n    ret __ealt1(a.b.x, a.b.nope, undefined_zz)\nend\nstart :: fn do\n    pr(ff(Aa { b: Bb { x: 1 } }))\nend\n"})
        J.append({"name": "field_value_of_blob_type_" + order, "core": "field-value-of-blob-type(%s)" % order, "module": "checks.C05", "spec": "fwd_access",
                  "text": decl + "start :: fn do\n    v := Aa { b: __ealt1(Bb { x: 1 }, 1, undefined_zz) }\n    pr(v.b)\nend\n"})
    for order, decl in FWD_BLOB.items():
        J.append({"name": "field_of_field_in_uncalled_function_" + order, "core": "field-access-through-field-in-uncalled-function(%s)" % order, "module": "checks.C05", "spec": "fwd_access",
                  "text": decl + "ff :: fn a: Aa -> int do\n    ret __ealt1(a.b.x, a.b.nope, undefined_zz)\nend\nstart :: fn do\n    v :: Aa { b: Bb { x: 1 } }\n    pr(v.b.x)\nend\n"})
    for order, decl in FWD_ENUM.items():
        J.append({"name": "case_on_field_in_uncalled_function_" + order, "core": "case-on-enum-field-in-uncalled-function(%s)" % order, "module": "checks.C05", "spec": "fwd_case",
                  "text": decl + "ff :: fn a: Aa -> int do\n    __alt1(fn do\n        case a.e do\n            X -> ret 1 end\n            Y -> ret 2 end\n        end\n    end, fn do\n        case a.e do\n            Nope -> ret 1 end\n        end\n    end, fn do\n        case a.e do\n            X -> ret 1 end\n        end\n    end, fn do\n        pr(undefined_zz)\n    end)\n    ret 0\nend\nstart :: fn do\n    v :: Aa { e: Ee.X }\n    pr(v.e)\nend\n"})
    for order, decl in FWD_ENUM.items():
        J.append({"name": "case_on_field_" + order, "core": "case-on-enum-field(%s)" % order, "module": "checks.C05", "spec": "fwd_case",
                  "text": decl + "ff :: fn a: Aa -> int do\n    __alt1(fn do\n        case a.e do\n            X -> ret 1 end\n            Y -> ret 2 end\n        end\n    end, fn do\n        case a.e do\n            Nope -> ret 1 end\n        end\n    end, fn do\n        case a.e do\n            X -> ret 1 end\n        end\n    end)\n    ret 0\nend\nstart :: fn do\n    pr(ff(Aa { e: Ee.X }))\nend\n"})
    J.append({"name": "self_field", "core": "field-access-through-self", "module": "checks.C05", "spec": "fwd_access",
              "text": "Aa :: blob {\n    x: int,\n    f: fn -> int,\n}\nstart :: fn do\n    a :: Aa { x: 1, f: fn -> int do ret __ealt1(self.x, self.nope, undefined_zz) end }\n    pr(a.f())\nend\n"})
    return J
SPECS["start_ext_ret"] = lambda S, I: z3.Not(I("ty1", "void")); ACCEPT_SPECS["start_ext_ret"] = lambda S, I: I("ty1", "void")
SPECS["start_ext_bad"] = lambda S, I: z3.BoolVal(True)
SPECS["fwd_access"] = lambda S, I: I("ealt1", 1); ACCEPT_SPECS["fwd_access"] = lambda S, I: I("ealt1", 0)
SPECS["fwd_case"] = lambda S, I: z3.Or(I("alt1", 1), I("alt1", 2)); ACCEPT_SPECS["fwd_case"] = lambda S, I: I("alt1", 0)


def run(tier):
    t0 = time.time()
    J = jobs() + _fwd_jobs()
    rc = ktcrun.run_check("C05", tier, J, t0, ktcrun.KTC_FUNCTIONS,
                          {"blob_field_subsets": len(BLOB_INST), "field_accesses": len(FIELD), "enum_constructions": len(ENUM), "case_shapes": len(CASE), "tuple_shapes": len(TUPLE), "break_continue_placements": len(LOOPS), "start_types": len(START)},
                          ktcrun.KTC_ASSUMPTIONS + ["blobs with two fields, enums with two variants (plain and generic), tuples of length <= 4",
                                                    "a missing `start` / `start` only in an imported module is checked on the native binary by C12's negative layouts, not here"],
                          allow_vacuous=("start_external_parameter", "start_external_not_a_function"))
    return rc
