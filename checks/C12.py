"""C12 - modules: imports resolve as documented and files are isolated.
A single-file base program is distributed over files / folders in several layouts and with every import style
(use, use..as, from..use, from..use..as, sub-folder, /-rooted, folder exports.sy, cycle, diamond); each
distribution is compiled by the real compiler and validated against the reference semantics of the single-file
program for all hole values. Negative variants (a needed import removed / a name used without import) must be
rejected."""
import random, re, time
from vlib import common
from syltsem import ast as A, parse as SP
from checks import tvrun

BASE = '''
K :: ?a
cnt := 0
bump :: fn n: int -> int do
    cnt += n
    ret cnt
end
P :: blob {
    x: int,
}
E :: enum
    A int,
    B,
end
mk :: fn n: int -> P do
    ret P { x: n + K }
end
sel :: fn e: E -> int do
    case e do
        A v -> v + K end
        else 0 end
    end
end
twice :: fn n: int -> int do
    ret bump(n) + bump(n)
end
start :: fn do
    print(mk(2).x)
    print(sel(E.A 3))
    print(sel(E.B))
    print(twice(?b))
    print(cnt)
    print(K)
    p := mk(1)
    print(p == P { x: K + 1 })
end
'''
GLOBALS = ["K", "cnt", "bump", "P", "E", "mk", "sel", "twice"]

# layout: module path (relative, without .sy) -> globals it defines; "main" holds start
LAYOUTS = {
    "one_lib": {"lib": GLOBALS},
    "diamond": {"c": ["K", "cnt", "bump"], "a": ["P", "E", "mk", "sel"], "b": ["twice"]},
    "folder_exports": {"sub/exports": ["K", "cnt", "bump"], "sub/t": ["P", "E", "mk", "sel"], "w": ["twice"]},
    "cycle": {"x": ["K", "mk", "P", "cnt", "bump"], "y": ["E", "sel", "twice"]},
    "deep": {"d1/d2/m": ["K", "cnt", "bump", "twice"], "d1/n": ["P", "E", "mk", "sel"]},
}
STYLES = ["use", "use_as", "from", "from_as", "root"]


def deps_of(stmt, names):
    """globals referenced by a top-level statement (syntactic)"""
    found = set()
    def walk(t):
        if isinstance(t, tuple):
            if t and t[0] == "var" and t[1] in names: found.add(t[1])
            if t and t[0] == "blob" and t[1] in names: found.add(t[1])
            if t and t[0] == "variant" and t[1] in names: found.add(t[1])
            if t and t[0] == "fn":
                for _, ty in t[1]:
                    if ty: found.update(n for n in names if re.search(r"\b%s\b" % n, ty))
                if t[2] and t[2] != "->": found.update(n for n in names if re.search(r"\b%s\b" % n, t[2]))
            for x in t: walk(x)
        elif isinstance(t, list):
            for x in t: walk(x)
    walk(stmt)
    return found


def requalify(t, q):
    """q: name -> qualified text (e.g. 'a.K', 'K', 'zz'); rewrites references"""
    if isinstance(t, tuple):
        if t and t[0] == "var" and t[1] in q: return ("var", q[t[1]])
        if t and t[0] == "blob" and t[1] in q: return ("blob", q[t[1]], requalify(t[2], q))
        if t and t[0] == "variant" and t[1] in q: return ("variant", q[t[1]], t[2], requalify(t[3], q))
        if t and t[0] == "fn":
            ps = [(p, None if ty is None else retype(ty, q)) for p, ty in t[1]]
            ret = t[2] if t[2] in (None, "->") else retype(t[2], q)
            return ("fn", ps, ret, requalify(t[3], q)) + tuple(t[4:])
        if t and t[0] == "def" and t[3] is not None: return ("def", t[1], t[2], retype(t[3], q), requalify(t[4], q))
        if t and t[0] == "blobdef": return ("blobdef", t[1], [(f, retype(ty, q)) for f, ty in t[2]])
        return tuple(requalify(x, q) for x in t)
    if isinstance(t, list): return [requalify(x, q) for x in t]
    return t


def retype(ty, q):
    for n, r in q.items(): ty = re.sub(r"(?<![\w.])%s\b" % n, r, ty)
    return ty


def modname(path, frm=""):
    if path.endswith("/exports"):
        # imported from inside its own folder it is the file `exports`, from outside it is the folder
        if "/".join(frm.split("/")[:-1]) == path[:-len("/exports")]: return "exports"
        return path.split("/")[-2]
    return path.split("/")[-1]


def import_path(frm, to, style):
    """path text to import module `to` from module `frm`"""
    tdir = to[:-len("exports")] if to.endswith("/exports") else to
    fdir = "/".join(frm.split("/")[:-1])
    if style == "root" or not (tdir.startswith(fdir + "/") or fdir == ""):
        return "/" + tdir
    rel = tdir[len(fdir) + 1:] if fdir else tdir
    return rel or "exports"


def build(layout_name, layout, style, drop_import=None, k=0, base=None, isolate=False):
    prog = SP.strip_parens(SP.parse_program(base or BASE))
    style_of = style if callable(style) else (lambda m, to: style)
    where = {"start": "main", "secret": "main", "scratch": "main"}
    for m, gs in layout.items():
        for g in gs: where[g] = m
    mods = {"main": []}
    for m in layout: mods[m] = []
    for st in prog:
        name = st[1]
        mods[where[name]].append(st)
    files = {}
    for m, stmts in mods.items():
        need = {}
        for st in stmts:
            for d in deps_of(st, set(GLOBALS)):
                if where[d] != m: need.setdefault(where[d], set()).add(d)
        lines = []; q = {}
        for i, (to, names) in enumerate(sorted(need.items())):
            style = style_of(m, to)
            path = import_path(m, to, style); mn = modname(to, m) if style != "root" else modname(to)
            if (m, to) == drop_import: 
                for n in names: q[n] = (mn + "." + n) if style in ("use", "root") else n
                continue
            if style in ("use", "root"):
                lines.append("use " + path)
                for n in names: q[n] = mn + "." + n
            elif style == "use_as":
                alias = "m%d%s" % (i, mn)
                lines.append("use %s as %s" % (path, alias))
                for n in names: q[n] = alias + "." + n
            elif style == "from":
                lines.append("from %s use (%s)" % (path, ", ".join(sorted(names))))
                for n in names: q[n] = n
            elif style == "from_as":
                ren = {n: (n + "Z" if n[0].isupper() else "z_" + n) for n in names}
                lines.append("from %s use (%s)" % (path, ", ".join("%s as %s" % (n, ren[n]) for n in sorted(names))))
                for n in names: q[n] = ren[n]
        text = "\n".join(lines) + "\n\n" + A.to_text(requalify(stmts, q))
        if isolate and m != "main":
            # every module has private globals of the same names as the main file's and the other modules'
            n = 11 * (1 + sorted(mods).index(m))
            text += "\nsecret :: %d\nscratch := %d\nnote :: fn -> int do\n    scratch += 1\n    ret secret + scratch\nend\n" % (n, n)
        files["main.sy" if m == "main" else m + ".sy"] = text
    return files


BASE_ISO = BASE.replace("start :: fn do\n", "secret :: 99\nscratch := 5\nstart :: fn do\n    scratch += 1\n    print(secret + scratch)\n")
PATH_POOL = ["a", "b", "c", "lib", "d/e", "d/exports", "p/q/r", "p/exports", "p/q/exports", "zz/y"]


def random_layouts(rnd, n):
    """random distributions of the base program's globals over 1-4 files at random paths, a random import style per import edge,
    and same-named private globals in every file (isolation)"""
    out = []
    tries = 0
    while len(out) < n and tries < 20 * n:
        tries += 1
        k = rnd.randint(1, 4)
        paths = rnd.sample(PATH_POOL, k)
        if len({modname(p) for p in paths}) < k: continue          # two namespaces of one name in one importer is a (legitimate) error
        if any(modname(p) in GLOBALS for p in paths): continue
        layout = {p: [] for p in paths}
        for g in GLOBALS: layout[rnd.choice(paths)].append(g)
        layout = {p: gs for p, gs in layout.items() if gs}
        edge_style = {}
        def style(m, to, edge_style=edge_style, salt=rnd.random()):
            if (m, to) not in edge_style: edge_style[(m, to)] = random.Random("%s|%s|%s" % (salt, m, to)).choice(STYLES)
            return edge_style[(m, to)]
        try: files = build("rand", layout, style, base=BASE_ISO, isolate=True)
        except Exception: continue
        main = files.pop("main.sy")
        desc = "+".join(sorted(layout))
        out.append({"name": "rand_layout_%d_%s" % (len(out), desc.replace("/", "_")), "role": "module-layout(random,%s)" % desc, "text": main, "files": files, "ref_text": BASE_ISO,
                    "dom": {"a": (0, 3), "b": (0, 3)}, "expect": "accept", "styles": {"%s->%s" % e: v for e, v in edge_style.items()}})
    return out


def templates(tier):
    out = []
    for ln, layout in LAYOUTS.items():
        for style in STYLES:
            files = build(ln, layout, style)
            main = files.pop("main.sy")
            out.append({"name": "%s_%s" % (ln, style), "role": "module-layout(%s,%s)" % (ln, style), "text": main, "files": files, "ref_text": BASE,
                        "dom": {"a": (0, 3), "b": (0, 3)}, "expect": "accept"})
        # negative: main lacks one import it needs
        files = build(ln, layout, "use", drop_import=("main", sorted(layout)[0]))
        main = files.pop("main.sy")
        out.append({"name": "%s_missing_import" % ln, "role": "name-not-imported(%s)" % ln, "text": main, "files": files, "ref_text": BASE, "dom": {"a": (0, 3), "b": (0, 3)}, "expect": "reject"})
    # a name of another module used unqualified without `from`
    files = build("one_lib", LAYOUTS["one_lib"], "use")
    main = files.pop("main.sy").replace("lib.K", "K", 1)
    out.append({"name": "unqualified_use", "role": "name-not-imported(unqualified)", "text": main, "files": files, "ref_text": BASE, "dom": {"a": (0, 3), "b": (0, 3)}, "expect": "reject"})
    # a module's private-looking helper is visible only through its module name, not through another module that imports it
    files = build("diamond", LAYOUTS["diamond"], "use")
    main = files.pop("main.sy").replace("c.K", "a.K")
    out.append({"name": "transitive_name_not_reexported", "role": "name-not-imported(transitive)", "text": main, "files": files, "ref_text": BASE, "dom": {"a": (0, 3), "b": (0, 3)}, "expect": "reject"})
    out += extra_templates()
    out += random_layouts(random.Random(common.seed() * 7919 + 12), 40 if tier == "quick" else 400)
    return out


def extra_templates():
    """hand-written layouts: user modules named like bundled std modules in sub-folders; multi-hop namespace paths for values and types"""
    out = []
    # (1) util/math.sy, util/list.sy, lib/set.sy, a/b/dict/exports.sy are the USER's files, not the bundled std modules of the same name
    # (plain `use util/list` would name the namespace `list`, which legitimately collides with the bundled `list` every file imports)
    for style in ("use_as", "from", "root"):
        imp = {
               "use_as": ("use util/math as m1\nuse util/list as m2\nuse lib/set as m3\nuse a/b/dict/ as m4\n", "m1.", "m2.", "m3.", "m4."),
               "from": ("from util/math use (twice)\nfrom util/list use (K)\nfrom lib/set use (P, mk)\nfrom a/b/dict/ use (last)\n", "", "", "", ""),
               "root": ("use /util/math as r1\nuse /util/list as r2\nfrom /lib/set use (P, mk)\nuse /a/b/dict/ as r4\n", "r1.", "r2.", "", "r4.")}[style]
        main = imp[0] + "start :: fn do\n    print(%stwice(?b))\n    print(%sK)\n    p: %sP = %smk(2)\n    print(p.x)\n    print(%slast(?b))\nend\n" % (imp[1], imp[2], imp[3], imp[3], imp[4])
        files = {"util/math.sy": "twice :: fn n: int -> int do\n    ret n * 2 + 1\nend\n", "util/list.sy": "K :: ?a\n",
                 "lib/set.sy": "P :: blob {\n    x: int,\n}\nmk :: fn n: int -> P do\n    ret P { x: n + 5 }\nend\n", "a/b/dict/exports.sy": "last :: fn n: int -> int do\n    ret n - 1\nend\n"}
        ref = "twice :: fn n: int -> int do\n    ret n * 2 + 1\nend\nK :: ?a\nP :: blob {\n    x: int,\n}\nmk :: fn n: int -> P do\n    ret P { x: n + 5 }\nend\nlast :: fn n: int -> int do\n    ret n - 1\nend\nstart :: fn do\n    print(twice(?b))\n    print(K)\n    p: P = mk(2)\n    print(p.x)\n    print(last(?b))\nend\n"
        out.append({"name": "std_named_user_modules_" + style, "role": "user-module-named-like-std(%s)" % style, "text": main, "files": files, "ref_text": ref, "dom": {"a": (0, 3), "b": (0, 3)}, "expect": "accept"})
    # (2) multi-hop namespace paths: shapes.point.Point / shapes.point.mk, with a decoy of the same name in the importing file
    for decoy in (False, True):
        main = "use shapes\n" + ("Point :: blob {\n    x: int,\n    y: int,\n}\nmk :: fn n: int -> int do\n    ret 0 - n\nend\n" if decoy else "") + \
               "start :: fn do\n    p: shapes.point.Point = shapes.point.Point { x: ?a }\n    print(p.x)\n    print(shapes.point.mk(?b).x)\n    print(shapes.point.K)\n    print(shapes.side(p))\n" + \
               ("    q := Point { x: 1, y: 2 }\n    print(q.y)\n    print(mk(?b))\n" if decoy else "") + "end\n"
        files = {"shapes.sy": "use point\nside :: fn p: point.Point -> int do\n    ret p.x * 2\nend\n", "point.sy": "K :: 7\nPoint :: blob {\n    x: int,\n}\nmk :: fn n: int -> Point do\n    ret Point { x: n + K }\nend\n"}
        ref = "K :: 7\nPoint :: blob {\n    x: int,\n}\nmk :: fn n: int -> Point do\n    ret Point { x: n + K }\nend\nside :: fn p: Point -> int do\n    ret p.x * 2\nend\n" + \
              ("Point2 :: blob {\n    x: int,\n    y: int,\n}\nmk2 :: fn n: int -> int do\n    ret 0 - n\nend\n" if decoy else "") + \
              "start :: fn do\n    p: Point = Point { x: ?a }\n    print(p.x)\n    print(mk(?b).x)\n    print(K)\n    print(side(p))\n" + ("    q := Point2 { x: 1, y: 2 }\n    print(q.y)\n    print(mk2(?b))\n" if decoy else "") + "end\n"
        out.append({"name": "namespace_chain" + ("_with_decoy" if decoy else ""), "role": "multi-hop-namespace-path" + ("(decoy)" if decoy else ""), "text": main, "files": files, "ref_text": ref, "dom": {"a": (0, 3), "b": (0, 3)}, "expect": "accept"})
    # (2b) a FOLDER or a /-rooted file named like a bundled module is the user's, only the bare name means the bundled module
    for nm, imp in (("folder", "use math/ as m"), ("rooted_file", "use /list as m"), ("rooted_folder", "use /math/ as m")):
        out.append({"name": "std_named_" + nm, "role": "user-module-named-like-std(%s)" % nm, "text": imp + "\nstart :: fn do\n    print(m.answer + ?a)\nend\n", "files": {"math/exports.sy": "answer :: 42\n", "list.sy": "answer :: 42\n"},
                    "ref_text": "start :: fn do\n    print(42 + ?a)\nend\n", "dom": {"a": (0, 3)}, "expect": "accept"})
    # (3) one namespace name bound to two different files must be rejected (otherwise one of the two modules is silently unreachable)
    two = {"net/config.sy": "port :: 80\n", "db/config.sy": "port :: 5432\n", "a.sy": "v :: 1\n", "b.sy": "v :: 2\n"}
    for nm, imports, use in (("same_last_component", "use net/config\nuse db/config\n", "config.port"), ("same_alias", "use a as m\nuse b as m\n", "m.v"),
                             ("alias_equals_module", "use a\nuse b as a\n", "a.v"), ("from_same_name", "from a use v\nfrom b use v\n", "v")):
        main = imports + "start :: fn do\n    print(%s + ?a)\nend\n" % use
        out.append({"name": "namespace_name_bound_twice_" + nm, "role": "name-bound-to-two-modules(%s)" % nm, "text": main, "files": dict(two), "ref_text": "start :: fn do\n    print(?a)\nend\n", "dom": {"a": (0, 3)}, "expect": "reject"})
    # (4) the entry point is the `start` the MAIN file binds, not a `start` of some other module
    for nm, imports in (("import_then_use", "from b use start\nuse a\n"), ("use_then_import", "use a\nfrom b use start\n")):
        out.append({"name": "entry_point_" + nm, "role": "entry-point-is-the-main-file's-start(%s)" % nm, "text": imports + "k :: ?a\n", "files": {"a.sy": "start :: fn do\n    print(1)\nend\n", "b.sy": "start :: fn do\n    print(2)\nend\n"},
                    "ref_text": "k :: ?a\nstart :: fn do\n    print(2)\nend\n", "dom": {"a": (0, 1)}, "expect": "accept"})
    out.append({"name": "entry_point_own_start_and_imported_module_with_start", "role": "entry-point-is-the-main-file's-start(own)", "text": "use a\nstart :: fn do\n    print(?a)\nend\n", "files": {"a.sy": "start :: fn do\n    print(7)\nend\n"},
                "ref_text": "start :: fn do\n    print(?a)\nend\n", "dom": {"a": (0, 3)}, "expect": "accept"})
    # (6) a folder's exports.sy that re-exports names of its leaf files (what exports.sy is for), imported as a namespace and by name
    # (importing a re-exported name BY NAME, `from sub/ use one`, is pinned as an error by the repo's own tests/import/faulty_from_circular.sy - not claimed here)
    for style, imp, q in (("use", "use sub/\n", "sub."), ("use_as", "use sub/ as s\n", "s.")):
        out.append({"name": "folder_exports_reexport_" + style, "role": "folder-exports-re-export(%s)" % style, "text": imp + "start :: fn do\n    print(%sone + ?a)\n    print(%stwo(?a))\nend\n" % (q, q),
                    "files": {"sub/leaf.sy": "one :: 1\n", "sub/other_leaf.sy": "two :: fn n: int -> int do\n    ret n * 2\nend\n", "sub/exports.sy": "from leaf use one\nfrom other_leaf use two\n"},
                    "ref_text": "one :: 1\ntwo :: fn n: int -> int do\n    ret n * 2\nend\nstart :: fn do\n    print(one + ?a)\n    print(two(?a))\nend\n", "dom": {"a": (0, 3)}, "expect": "accept"})
    # (5) one file reached through a /-rooted path and through a relative path is ONE module (one copy of its state)
    cnt = "count := 0\nbump :: fn do\n    count += 1\nend\n"
    ref = cnt + "peek :: fn -> int do\n    ret count * 10\nend\nstart :: fn do\n    bump()\n    bump()\n    print(peek() + ?a)\n    print(count)\nend\n"
    for nm, mi, files in (("main_rooted_other_relative", "use /counter\nuse reader\n", {"reader.sy": "use counter\npeek :: fn -> int do\n    ret counter.count * 10\nend\n"}),
                          ("main_relative_other_rooted", "use counter\nuse reader\n", {"reader.sy": "use /counter\npeek :: fn -> int do\n    ret counter.count * 10\nend\n"}),
                          ("main_relative_subfolder_rooted", "use counter\nuse sub/reader\n", {"sub/reader.sy": "use /counter\npeek :: fn -> int do\n    ret counter.count * 10\nend\n"}),
                          ("main_rooted_subfolder_rooted", "use /counter\nuse /sub/reader\n", {"sub/reader.sy": "use /counter\npeek :: fn -> int do\n    ret counter.count * 10\nend\n"})):
        out.append({"name": "one_file_two_spellings_" + nm, "role": "one-module-per-file(%s)" % nm, "text": mi + "start :: fn do\n    counter.bump()\n    counter.bump()\n    print(reader.peek() + ?a)\n    print(counter.count)\nend\n",
                    "files": dict(files, **{"counter.sy": cnt}), "ref_text": ref, "dom": {"a": (0, 3)}, "expect": "accept"})
    return out


# the emitted program must not depend on how the path of the main file is spelled on the command line
SPELLING_FILES = {"proj/main.sy": "use /counter\nuse reader\nuse sub/deep\nfrom /sub/deep use (K)\nstart :: fn do\n    counter.bump()\n    print(reader.peek() + K)\n    print(deep.peek2())\n    print(counter.count)\nend\n",
                  "proj/counter.sy": "count := 0\nbump :: fn do\n    count += 1\nend\n", "proj/reader.sy": "use counter\npeek :: fn -> int do\n    ret counter.count * 10\nend\n",
                  "proj/sub/deep.sy": "use /counter\nK :: 3\npeek2 :: fn -> int do\n    ret counter.count * 100\nend\n"}
SPELLINGS = [("proj", "main.sy"), ("proj", "./main.sy"), ("proj", "ABS"), (".", "proj/main.sy"), (".", "./proj/main.sy"), ("proj/sub", "../main.sy"), (".", "proj/sub/../main.sy"), (".", "proj//main.sy")]


def main_spelling(sylt, fnd):
    import os, subprocess, tempfile, shutil
    d = tempfile.mkdtemp(prefix="c12sp_", dir=common.SCRATCH); outs = []
    try:
        for rel, text in SPELLING_FILES.items():
            os.makedirs(os.path.dirname(os.path.join(d, rel)), exist_ok=True); open(os.path.join(d, rel), "w").write(text)
        for cwd, sp in SPELLINGS:
            arg = os.path.join(d, "proj/main.sy") if sp == "ABS" else sp
            o = os.path.join(d, "out.lua")
            if os.path.exists(o): os.remove(o)
            r = subprocess.run([sylt, "-o", o, arg], cwd=os.path.join(d, cwd), capture_output=True, text=True, timeout=60)
            outs.append((cwd, sp, r.returncode, open(o).read() if os.path.exists(o) else None, (r.stdout + r.stderr)[-300:].replace(d, "<dir>")))
    finally: shutil.rmtree(d, ignore_errors=True)
    base = outs[2]        # the absolute spelling is the reference
    n = 0
    for cwd, sp, rc, lua, msg in outs:
        if (rc, lua) != (base[2], base[3]):
            n += 1
            fnd.report("main-path-spelling:%s@%s" % (sp, cwd), "the same project compiled as `sylt %s` from %s/ %s, but as `sylt <absolute path>/proj/main.sy` it %s" % (sp, cwd, ("is rejected: " + msg) if rc else "gives a different program", "is rejected" if base[2] else "compiles"),
                       dict(SPELLING_FILES), cmd="cd %s && sylt -o out.lua %s" % (cwd, sp))
    return len(outs), n


ORDER_PAIRS = [
    ("re_export_through_from", {"consumer.sy": "from hub use x\ny :: x\n", "hub.sy": "from impl use x\n", "impl.sy": "x :: 1\n"}, "use consumer", "use hub", "start :: fn do\n    print(consumer.y)\nend\n"),
    ("two_plain_modules", {"a.sy": "x :: 1\n", "b.sy": "use a\ny :: a.x + 1\n"}, "use a", "use b", "start :: fn do\n    print(b.y + a.x)\nend\n"),
    ("from_and_use_of_same_module", {"a.sy": "x :: 1\nz :: 2\n"}, "use a", "from a use z", "start :: fn do\n    print(a.x + z)\nend\n"),
    ("diamond", {"a.sy": "use c\nx :: c.k + 1\n", "b.sy": "use c\ny :: c.k + 2\n", "c.sy": "k :: 5\n"}, "use a", "use b", "start :: fn do\n    print(a.x + b.y)\nend\n"),
]


def run(tier):
    t0 = time.time()
    art = common.artifacts()
    ts = templates(tier)
    results = tvrun.run_templates(art["sylt"], ts, tier)
    fnd = common.Findings("C12"); agg = tvrun.summarize(results); confirmed = 0; samples = []
    for t, r in zip(ts, results):
        st = r["status"]
        if t["expect"] == "reject":
            if st != "rejected":
                confirmed += 1
                fnd.report("accepted:" + t["role"], "layout %s uses a name that was not imported but is accepted (status %s)" % (t["name"], st), dict({"main.sy": r.get("source", "")}, **t["files"]))
            continue
        if st == "rejected":
            confirmed += 1
            fnd.report("rejected:" + t["role"], "layout %s is a documented import form but is rejected: %s" % (t["name"], r.get("compiler_output", "")[:300]), dict({"main.sy": r.get("source", "")}, **t["files"]))
        elif st == "diff":
            for d in r["diffs"]:
                if d.get("replayed") is True:
                    confirmed += 1; info = d.get("replay", {})
                    fnd.report("diff:" + t["role"], "layout %s holes %s: single-file program denotes %s, split program does %s" % (t["name"], d["holes"], str(info.get("ref"))[:200], str(info.get("lua_trace"))[:200]),
                               dict({"main.sy": info.get("source", ""), "out.lua": info.get("lua", "")}, **t["files"]))
                    break
                else: fnd.undecided("%s: counterexample did not reproduce" % t["name"])
        elif st == "load_error":
            confirmed += 1; fnd.report("load_error:" + t["role"], "layout %s: %s" % (t["name"], r["load_error"]), {"main.sy": r["source"]})
        elif st != "ok":
            fnd.undecided("%s: %s %s" % (t["name"], st, str(r.get("why"))[:300]))
        if len(samples) < 3 and st == "ok": samples.append({"layout": t["name"], "files": sorted(t["files"]), "main": t["text"][:400]})
    # acceptance must not depend on the order of the import lines of a file
    for name, files, l1, l2, rest in ORDER_PAIRS:
        st = []
        for first, second in ((l1, l2), (l2, l1)):
            rc, lua, out = common.compile_sy(art["sylt"], dict(files, **{"main.sy": first + "\n" + second + "\n" + rest})); st.append((rc == 0, out[-200:].replace("\n", " ")))
        if st[0][0] != st[1][0]:
            confirmed += 1
            fnd.report("import-order-changes-acceptance:" + name, "%s: with `%s` before `%s` the program is %s, in the other order it is %s (%s)" % (name, l1, l2, "accepted" if st[0][0] else "rejected", "accepted" if st[1][0] else "rejected", (st[0][1] if not st[0][0] else st[1][1])),
                       dict(files, **{"main.sy": l1 + "\n" + l2 + "\n" + rest, "main_swapped.sy": l2 + "\n" + l1 + "\n" + rest}), cmd="sylt -o a.lua main.sy; sylt -o b.lua main_swapped.sy")
    nsp, bad = main_spelling(art["sylt"], fnd); confirmed += bad
    cov = {"programs": agg["programs"], "disagreements_checked": confirmed, "samples": samples, "main_path_spellings_compared": nsp,
           "status_counts": {k: agg.get(k, 0) for k in ("ok", "diff", "rejected", "load_error", "undecided", "stuck", "engine_error", "template_error")},
           "paths_lua": agg["paths_lua"], "cut_paths": agg["cut_paths"], "solver": {k: agg[k] for k in ("queries", "sat", "unsat", "unknown", "solver_s")},
           "layouts": sorted(LAYOUTS), "import_styles": STYLES, "known_findings_seen": sorted(fnd.seen_known)}
    rc = fnd.finish()
    common.write_evidence("C12", tier, "translation_validation", cov, tvrun.TV_ASSUMPTIONS + ["one base program, 5 layouts (<= 3 extra files, <= 2 folder levels) x 5 import styles, 7 negative variants", "real file-system corner cases (symlinks, case-insensitive FS) are outside the claim"], time.time() - t0, len(fnd.violations))
    print("C12: %d layouts, %s, %d confirmed, wall %.1fs" % (len(ts), cov["status_counts"], confirmed, time.time() - t0))
    return rc
