"""C15 - diagnostics name the file and line of the offending construct.
 (1) K-diag: programs with one planted local error are tokenised and parsed natively; every Span's line numbers are
     then replaced by terms ell(n) of an uninterpreted, strictly increasing line map, and the real resolver / type
     checker run from MIR. The primary span of the first reported error must equal ell(line of the offending
     construct) for EVERY increasing ell - i.e. the span must really derive from that construct's tokens, whatever
     text precedes it - and the error must carry the file the construct is written in. z3 decides it per path.
 (2) line numbers of tokens themselves: C17's inductive kernel (same MIR) - re-run here for the position obligations.
 (3) native end-to-end: z3 chooses the shape of the text preceding the construct (blank lines, comments with multi-byte
     characters, multi-line string literals, CRLF) for every error kind incl. syntax errors and git conflict markers,
     in the main file and in an imported module; the native binary's first error must name the right file and line."""
import multiprocessing as mp, os, re, shutil, subprocess, tempfile, time, traceback
import z3
from vlib import common

PRE = "pr: fn *X -> void : external\n"
# name -> (lines of the construct [inserted at CONSTRUCT], offset of the offending line inside it (0-based), accept: set of offsets that are acceptable)
KINDS = {
    "unresolved_name": (["    y := nope + 1"], [0]),
    "assign_to_constant": (["    kc :: 1", "    kc = 2"], [1]),
    "operator_mismatch": (["    z := 1 + \"s\""], [0]),
    "operator_mismatch_multiline": (["    z := (1 +", "        \"s\")"], [0, 1]),
    "argument_mismatch_multiline": (["    two(", "        1,", "        \"s\",", "    )"], [2]),
    "argument_mismatch": (["    two(1, \"s\")"], [0]),
    "annotation_mismatch": (["    q: int = \"s\""], [0]),
    "break_outside_loop": (["    if 1 < 2 do", "        break", "    end"], [1]),
    "unknown_field": (["    bv := Bb { a: 1 }", "    pr(bv.", "        nope)"], [1, 2]),
    "non_bool_condition": (["    if 1 do", "        pr(1)", "    end"], [0]),
    "wrong_arity": (["    two(", "        1)"], [0, 1]),
    "unresolved_namespace_member": (["    pr(nsmod.nosuch)"], [0]),
    "unresolved_namespace_member_multiline": (["    two(1,", "        nsmod.nosuch", "", "    )"], [1]),
    "unresolved_namespace_function_multiline": (["    nsmod.nosuch(", "        1", "    )"], [0]),
    "operator_mismatch_after_multi_line_string": (["    z := \"a", "b\" + 1"], [0, 1]),
    "unresolved_name_after_multi_line_string": (["    w := (\"a", "b", "c\", nope)"], [0, 2]),
}
TOP_KINDS = {
    "duplicate_global": (["dup :: 1", "other_name :: 2", "dup :: 3"], [0, 2]),
    "unresolved_global": (["gg :: missing_thing"], [0]),
}
HEAD = "use nsmod\ntwo :: fn a: int, b: int -> int do\n    ret a\nend\nBb :: blob {\n    a: int,\n}\n"
NSMOD = {"nsmod.sy": "nv :: 1\nnf :: fn a: int do\nend\n"}
TOP_SYNTAX = {"expression_at_top_level": (["1 + 1"], [0]), "assignment_at_top_level": (["two = two"], [0])}


def program(kind, where="main"):
    """returns (files, main, expected file, [acceptable 1-based lines])"""
    if kind in KINDS:
        cons, acc = KINDS[kind]
        body = HEAD + "work :: fn do\n    pr(0)\n" + "\n".join(cons) + "\n    pr(1)\nend\n"
        first = body.split("\n").index(cons[0]) + 1
    else:
        cons, acc = TOP_KINDS[kind]
        body = HEAD + "\n".join(cons) + "\nwork :: fn do\n    pr(0)\nend\n"
        first = body.split("\n").index(cons[0]) + 1
    if where == "main":
        text = PRE + body + "start :: fn do\n    work()\nend\n"
        return dict(NSMOD, **{"main.sy": text}), "main.sy", [first + 1 + o for o in acc]
    text = PRE + body
    main = "use lib\nstart :: fn do\n    lib.work()\nend\n"
    return dict(NSMOD, **{"main.sy": main, "lib.sy": text}), "lib.sy", [first + 1 + o for o in acc]


_CTX = {}


def symbolise_lines(M, v, ell, used):
    if isinstance(v, M.StructV):
        if v.ty == "Span" and len(v.fields) == 5:
            f = list(v.fields)          # file_id, line_start, line_end, col_start, col_end
            for i in (1, 2):
                if isinstance(f[i], int) and f[i] > 0: used.add(f[i]); f[i] = ell(f[i])
            return M.StructV("Span", f)
        return M.StructV(v.ty, [symbolise_lines(M, x, ell, used) for x in v.fields])
    if isinstance(v, M.EnumV): return M.EnumV(v.ty, v.disc, [symbolise_lines(M, x, ell, used) for x in v.fields])
    if isinstance(v, M.TupleV): return M.TupleV([symbolise_lines(M, x, ell, used) for x in v.fields])
    if isinstance(v, M.BoxV): return M.BoxV(symbolise_lines(M, v.fields[0], ell, used))
    if isinstance(v, M.VecV): return M.VecV([symbolise_lines(M, x, ell, used) for x in v.items])
    if isinstance(v, M.MapV):
        mv = M.MapV(v.kind)
        for kr, (k, val) in v.d.items(): mv.d[kr] = [k, symbolise_lines(M, val, ell, used)]
        return mv
    return v


def kdiag(job):
    kind, where = job
    try:
        from mirsym import core as M, pipeline as P
        pl = _CTX.get("pl")
        if pl is None: pl = _CTX["pl"] = P.Pipeline()
        files, efile, lines = program(kind, where)
        ast0, err = pl.parse_native(files, no_std=True)
        if ast0 is None: return {"job": job, "status": "parse_error", "why": err[:300]}
        ELL = z3.Function("ell", z3.IntSort(), z3.IntSort())
        used = set()
        ast = symbolise_lines(M, ast0, lambda n: ELL(n), used)
        ul = sorted(used)
        base = [ELL(ul[0]) >= 1] + [ELL(a) < ELL(b) for a, b in zip(ul, ul[1:])] + [ELL(ul[-1]) < 2**31]
        ns = pl.namespaces(ast0)
        ex = pl.m.ex; fns = pl.m.fns
        SV = M.QENUMS[("name_resolution", "Statement")]
        def thunk():
            a = M.deep(ast); n = M.deep(ns)
            r = ex.run(fns["resolve"], [M.Ref([a], 0), M.Ref([n], 0)])
            if r.disc != 0: return ("resolve", r.fields[0])
            vars_, stmts = r.fields[0].fields
            o = ex.run(fns["initialization_order"], [M.Ref([stmts], 0)])
            if o.disc != 0: return ("order", None)
            items = [M.deep(x.get() if isinstance(x, M.Ref) else x) for x in o.fields[0].items]
            items.sort(key=lambda s: 0 if SV[s.disc] in ("Blob", "Enum") else 1)
            s = ex.run(fns["solve"], [M.Ref([vars_], 0), M.Ref([M.VecV(items)], 0), M.Ref([n], 0)])
            if s.disc != 0: return ("solve", s.fields[0])
            return ("accepted", None)
        ex.base = base; ex.steps = 0; ex.queries = 0
        res = ex.explore(thunk)
        EV = M.QENUMS[("sylt_common", "Error")]
        out = []; nq = 0
        for pc, (k, val) in res:
            if k != "ok": out.append({"verdict": "panic", "what": str(val)[:200]}); continue
            phase, errs = val
            if phase == "accepted" or errs is None: out.append({"verdict": "no_error", "phase": phase}); continue
            e = errs.items[0]; vname = EV[e.disc]
            fields = {"SyntaxError": ["file", "span", "message"], "CompileError": ["file", "span", "message", "helpers"], "TypeError": ["kind", "file", "span", "message", "helpers"], "GitConflictError": ["file", "span"]}.get(vname)
            if fields is None: out.append({"verdict": "other_error", "variant": vname}); continue
            span = e.fields[fields.index("span")]; fl = e.fields[fields.index("file")]
            fname = fl.fields[0] if fl.fields else "?"
            ls = span.fields[1]
            goal = z3.Or([ls == ELL(n) for n in lines])
            s = z3.Solver(); s.set("timeout", 20000); s.add(base); s.add(pc); s.add(z3.Not(goal)); nq += 1
            r = s.check()
            rec = {"phase": phase, "variant": vname, "file": str(fname), "file_ok": str(fname).endswith(efile), "verdict": "holds" if r == z3.unsat else str(r), "line_term": str(ls)[:60], "expected": ["ell(%d)" % n for n in lines]}
            out.append(rec)
        return {"job": job, "status": "ok", "paths": len(res), "steps": ex.steps, "queries": ex.queries + nq, "results": out, "lines": lines, "file": efile}
    except Exception as e:
        return {"job": job, "status": "engine_error", "why": "%s: %s %s" % (type(e).__name__, str(e)[:300], traceback.format_exc()[-500:])}


# ------------------------------------------------------------------ native end-to-end with solver-chosen preceding text
PREFIX_LINES = ["", "// kommentar med åäö och €", "// plain", "s%d :: \"rad ett\nrad två\"", "   ", "u%d :: 1 // trailing ö", "// merge leftovers look like <<<<<<< or >>>>>>> or =======", "m%d :: \"<<<<<<< HEAD\""]


def native_case(replay, kind, where, shape, crlf=False):
    """shape: list of indices into PREFIX_LINES (text inserted before the program body)"""
    files, efile, lines = program(kind, where)
    pre = []; extra = 0
    for j, i in enumerate(shape):
        t = PREFIX_LINES[i]
        if "%d" in t: t = t % j
        pre.append(t); extra += 1 + t.count("\n")
    tgt = efile
    src = files[tgt]
    head, rest = src.split("\n", 1) if where == "main" else ("", src)        # keep `pr` declaration first in main
    if where == "main": new = head + "\n" + "\n".join(pre) + ("\n" if pre else "") + rest
    else: new = "\n".join(pre) + ("\n" if pre else "") + src
    if crlf: new = new.replace("\n", "\r\n")
    files = dict(files); files[tgt] = new
    d = tempfile.mkdtemp(prefix="c15_", dir=common.SCRATCH)
    try:
        for rel, text in files.items(): open(os.path.join(d, rel), "w", encoding="utf-8", newline="").write(text)
        out = subprocess.run([replay, "errors", "main.sy", "--no-std"], cwd=d, capture_output=True, text=True, timeout=30).stdout
    finally: shutil.rmtree(d, ignore_errors=True)
    m = re.search(r"^ERR \w+ \{ (?:kind: .*?, )?file: (File\(\"([^\"]*)\"\)|Lib\(\"[^\"]*\"\)), span: Span \{ file_id: \d+, line_start: (\d+)", out, re.M)
    exp = [n + extra for n in lines]
    if not m: return {"ok": False, "why": "no located error: " + out[:200], "files": files, "expected": exp}
    got_file = m.group(2) or m.group(1); got_line = int(m.group(3))
    return {"ok": got_file.endswith(efile) and got_line in exp, "got": (got_file, got_line), "expected": (efile, exp), "files": files}


SYNTAX = {
    "syntax_error": (["    x := ) 1"], [0]),
    "syntax_error_unclosed": (["    y := (1 +", "    z := 2"], [0, 1]),
    "conflict_marker": (["<<<<<<< HEAD"], [0]),
    # a binary operator as the last token of a line (outside brackets): the error is on that line, whatever the following lines hold
    "dangling_operator_then_blank_and_comment_lines": (["    b := 1 +", "", "    // note", "", "    c := 2"], [0]),
    "dangling_operator_then_a_line_that_could_be_an_operand": (["    b := 1 +", "    pr(3)"], [0]),
    "dangling_boolean_operator": (["    t := true and", "", "", "    u := 3"], [0]),
    "dangling_comparison_operator": (["    t := 1 <=", "    // c", "    u := 3"], [0]),
    # something that is not a line break after a statement whose LAST token spans lines: the offending token is on the last of those lines
    "junk_after_a_statement_ending_in_a_multi_line_string": (["    s := \"a", "b", "c\" junk"], [2]),
    "junk_after_a_multi_line_call": (["    two(1,", "        2) junk"], [1]),
    "junk_after_a_call_with_a_multi_line_string_argument": (["    pr(\"a", "b\") junk"], [1]),
    "second_statement_after_a_multi_line_string": (["    s := \"a", "", "b\" t := 2"], [2]),
}


# (name, text that ends the file WITHOUT a final line break, how many lines back from the last line the open construct starts)
EOF_CASES = [("statement_without_final_newline", "last :: 1", [0]), ("unclosed_parenthesis", "last :: (1 +", [0]), ("unclosed_block", "last :: fn do\n    pr(1)", [0, 1]),
             ("unclosed_blob", "Last :: blob {\n    a: int,", [0, 1]), ("dangling_operator", "last :: 1 +", [0]), ("unclosed_call", "start :: fn do\n    pr(1,", [0, 1])]


def eof_case(replay, tail, back, where, shape, crlf=False):
    pre = []
    for j, i in enumerate(shape):
        t = PREFIX_LINES[i]
        if "%d" in t: t = t % j
        pre.append(t)
    body = "\n".join(pre) + ("\n" if pre else "") + "first :: 0\n" + tail
    files = {"main.sy": PRE + body} if where == "main" else {"main.sy": PRE + "use lib\nstart :: fn do\n    pr(lib.first)\nend\n", "lib.sy": body}
    efile = "main.sy" if where == "main" else "lib.sy"
    if crlf: files[efile] = files[efile].replace("\n", "\r\n")
    nlines = files[efile].count("\n") + 1
    exp = [nlines - b for b in back]
    d = tempfile.mkdtemp(prefix="c15_", dir=common.SCRATCH)
    try:
        for rel, text in files.items(): open(os.path.join(d, rel), "w", encoding="utf-8", newline="").write(text)
        out = subprocess.run([replay, "errors", "main.sy", "--no-std"], cwd=d, capture_output=True, text=True, timeout=30).stdout
    finally: shutil.rmtree(d, ignore_errors=True)
    m = re.search(r"^ERR \w+ \{ (?:kind: .*?, )?file: (File\(\"([^\"]*)\"\)|Lib\(\"[^\"]*\"\)), span: Span \{ file_id: \d+, line_start: (\d+)", out, re.M)
    if not m:
        if out.startswith("OK"): return {"ok": True, "got": "accepted", "files": files}      # accepting the text is fine for C15: nothing is reported
        return {"ok": False, "why": "no located error: " + out[:200], "files": files, "expected": (efile, exp)}
    got_file = m.group(2) or m.group(1); got_line = int(m.group(3))
    return {"ok": got_file.endswith(efile) and got_line in exp, "got": (got_file, got_line), "expected": (efile, exp), "files": files}


# (name, lines of the importing file after the prefix, acceptable 0-based offsets among those lines)
IMPORT_DUPS = [("duplicate_import_vs_import", ["from shapes use area", "from other use area"], [0, 1]), ("duplicate_import_vs_definition", ["area :: 5", "", "from shapes use area"], [0, 2]),
               ("duplicate_definition_vs_import", ["from shapes use area", "", "area :: 5"], [0, 2]), ("duplicate_import_vs_namespace", ["use shapes", "from other use area as shapes"], [0, 1]),
               ("duplicate_renamed_imports", ["from shapes use area as ar", "from other use side as ar"], [0, 1]),
               # duplicates inside ONE file: the duplicate is the later occurrence (the earlier one is the valid definition, it is what the help text points at)
               ("duplicate_enum_variant", ["Pal :: enum", "    Red,", "    Green,", "    Blue,", "    Green,", "end"], [4]),
               ("duplicate_blob_field", ["Pt :: blob {", "    x: int,", "    y: int,", "    x: int,", "}"], [3]),
               ("duplicate_global_definition", ["area2 :: 1", "", "side2 :: 3", "area2 :: 2"], [3]),
               ("duplicate_type_definition", ["Pt :: blob {", "    x: int,", "}", "", "Pt :: blob {", "    y: int,", "}"], [4, 5, 6]),
               # an import list spread over several lines: the error is at the line of the offending NAME, not at the head of the list
               ("unresolved_name_in_a_multi_line_import_list", ["from shapes use (", "    area,", "    side,", "    nope,", ")"], [3]),
               ("unresolved_renamed_name_in_a_multi_line_import_list", ["from shapes use (", "    area,", "    nope as known,", "    side,", ")"], [2]),
               ("duplicate_in_a_multi_line_import_list_vs_definition", ["from shapes use (", "    area,", "    side,", ")", "side :: 5"], [2, 4]),
               ("duplicate_alias_in_a_multi_line_import_list_vs_definition", ["ar :: 5", "from shapes use (", "    side,", "    area as ar,", ")"], [0, 3]),
               ("duplicate_within_one_multi_line_import_list", ["from shapes use (", "    area,", "    side as area,", ")"], [1, 2])]


def import_dup_case(replay, body, acc, where, shape, crlf=False):
    pre = []
    for j, i in enumerate(shape):
        t = PREFIX_LINES[i]
        if "%d" in t: t = t % j
        pre.append(t)
    ptxt = "\n".join(pre) + ("\n" if pre else "")
    extra = ptxt.count("\n")
    mods = {"shapes.sy": "// shapes\n\n\n\n\n\narea :: 1\nside :: 2\n", "other.sy": "\n\narea :: 3\nside :: 4\n"}
    text = ptxt + "\n".join(body) + "\n"
    if where == "main": files = dict(mods, **{"main.sy": PRE + text + "start :: fn do\nend\n"}); efile = "main.sy"; base = 1 + extra
    else: files = dict(mods, **{"main.sy": PRE + "use lib\nstart :: fn do\nend\n", "lib.sy": text}); efile = "lib.sy"; base = extra
    if crlf: files[efile] = files[efile].replace("\n", "\r\n")
    exp = [base + 1 + o for o in acc]
    d = tempfile.mkdtemp(prefix="c15_", dir=common.SCRATCH)
    try:
        for rel, t in files.items(): open(os.path.join(d, rel), "w", encoding="utf-8", newline="").write(t)
        out = subprocess.run([replay, "errors", "main.sy", "--no-std"], cwd=d, capture_output=True, text=True, timeout=30).stdout
    finally: shutil.rmtree(d, ignore_errors=True)
    m = re.search(r"^ERR \w+ \{ (?:kind: .*?, )?file: (File\(\"([^\"]*)\"\)|Lib\(\"[^\"]*\"\)), span: Span \{ file_id: \d+, line_start: (\d+)", out, re.M)
    if not m: return {"ok": False, "why": "no located error: " + out[:200], "files": files, "expected": (efile, exp)}
    got_file = m.group(2) or m.group(1); got_line = int(m.group(3))
    return {"ok": got_file.endswith(efile) and got_line in exp, "got": (got_file, got_line), "expected": (efile, exp), "files": files}


def run(tier):
    t0 = time.time()
    from mirsym import pipeline
    art = common.artifacts(need_mir=pipeline.CRATES, need_replay=True)
    jobs = [(k, w) for k in list(KINDS) + list(TOP_KINDS) for w in ("main", "lib")]
    with mp.get_context("fork").Pool(min(16, len(jobs))) as pool: results = pool.map(kdiag, jobs, chunksize=1)
    fnd = common.Findings("C15"); tot = {"paths": 0, "queries": 0, "steps": 0}; samples = []
    for r in results:
        if r["status"] != "ok":
            fnd.undecided("%s: %s %s" % (r["job"], r["status"], r.get("why", "")[:300])); continue
        for k in tot: tot[k] += r[k]
        for x in r["results"]:
            kind, where = r["job"]
            if x["verdict"] == "holds" and x.get("file_ok"): continue
            if x["verdict"] in ("no_error", "other_error", "panic"):
                fnd.undecided("%s in %s: %s" % (kind, where, x)); continue
            if x["verdict"] == "holds" and not x.get("file_ok"):
                fnd.report("wrong-file:%s" % kind, "%s planted in %s is reported in file %s" % (kind, r["file"], x["file"]), {"case.txt": str(program(kind, where)[0])}); continue
            if x["verdict"] == "sat":
                # replay natively with extra lines before the construct (any shape shows it if the span is really derived elsewhere)
                nat = native_case(art["replay"], kind, where, [1, 0, 3])
                if not nat["ok"]:
                    fnd.report("wrong-line:%s" % kind, "%s in %s: reported at %s, written at %s (span line term %s)" % (kind, where, nat.get("got"), nat.get("expected"), x["line_term"]), nat["files"], cmd="sylt --no-std -o out.lua main.sy")
                else: fnd.undecided("%s in %s: symbolic line check fails (%s not in %s) but the native run agrees" % (kind, where, x["line_term"], x["expected"]))
            else: fnd.undecided("%s in %s: solver %s" % (kind, where, x["verdict"]))
        if len(samples) < 4: samples.append({"case": list(r["job"]), "results": r["results"][:2]})
    # (3) native runs; the preceding text shape is chosen by z3 (a model of small constraints = a list of line kinds)
    stats = common.SolverStats(); nat_n = 0
    allk = list(KINDS) + list(TOP_KINDS)
    SYN = dict(SYNTAX)
    for kind in allk + list(SYN):
        for where in ("main", "lib"):
            shapes = solver_shapes(stats, 2 if tier == "quick" else 6, _case_seed(kind, where))
            if kind == "conflict_marker": shapes = shapes + [([6], False), ([7, 6], False), ([1, 7, 3], True)]      # marker-like text earlier in the file, not at the start of a line
            for shape, crlf in shapes:
                if kind in SYN:
                    KINDS[kind] = SYN[kind]
                nat = native_case(art["replay"], kind, where, shape, crlf); nat_n += 1
                if kind in SYN: del KINDS[kind]
                if not nat["ok"]:
                    fnd.report("wrong-line:%s" % kind, "%s in %s after %d lines of preceding text%s: reported at %s, written at %s" % (kind, where, len(shape), " (CRLF)" if crlf else "", nat.get("got") or nat.get("why"), nat.get("expected")), nat["files"], cmd="sylt --no-std -o out.lua main.sy")
    for kind, spec in TOP_SYNTAX.items():
        for where in ("main", "lib"):
            for shape, crlf in solver_shapes(stats, 2 if tier == "quick" else 6, _case_seed(kind, where)):
                TOP_KINDS[kind] = spec
                nat = native_case(art["replay"], kind, where, shape, crlf); nat_n += 1
                del TOP_KINDS[kind]
                if not nat["ok"]:
                    fnd.report("wrong-line:%s" % kind, "%s in %s after %d lines of preceding text%s: reported at %s, written at %s" % (kind, where, len(shape), " (CRLF)" if crlf else "", nat.get("got") or nat.get("why"), nat.get("expected")), nat["files"], cmd="sylt --no-std -o out.lua main.sy")
    # errors located at the end of the file (truncated input): the line must be a real line of that file, the last one or the one the open construct starts on
    for name, tail, back in EOF_CASES:
        for where in ("main", "lib"):
            for shape, crlf in solver_shapes(stats, 2 if tier == "quick" else 6, _case_seed(name, where)):
                nat = eof_case(art["replay"], tail, back, where, shape, crlf); nat_n += 1
                if not nat["ok"]:
                    fnd.report("wrong-line:eof:%s" % name, "%s at the end of %s after %d lines of preceding text%s: reported at %s, written at %s" % (name, where, len(shape), " (CRLF)" if crlf else "", nat.get("got") or nat.get("why"), nat.get("expected")), nat["files"], cmd="sylt --no-std -o out.lua main.sy")
    # duplicate names that come in through `from .. use ..`: the error belongs to the importing file, at one of the two colliding statements
    for name, body, acc in IMPORT_DUPS:
        for where in ("main", "lib"):
            for shape, crlf in solver_shapes(stats, 2 if tier == "quick" else 6, _case_seed(name, where)):
                nat = import_dup_case(art["replay"], body, acc, where, shape, crlf); nat_n += 1
                if not nat["ok"]:
                    fnd.report("wrong-line:%s" % name, "%s in %s after %d lines of preceding text: reported at %s, written at %s" % (name, where, len(shape), nat.get("got") or nat.get("why"), nat.get("expected")), nat["files"], cmd="sylt --no-std -o out.lua main.sy")
    # a user definition that collides with a name the bundled preamble imports into every file: the construct the user wrote is in the user's file
    for uname in ("print", "max", "math", "list"):
        for pre_lines in (0, 3):
            text = "// c\n" * pre_lines + "start :: fn do\nend\n\n%s :: fn x do\nend\n" % uname
            rc, lua, outp = common.compile_sy(art["sylt"], {"main.sy": text}); nat_n += 1
            m0 = re.search(r"error: (.*?):(\d+)", outp)
            want = ("main.sy", pre_lines + 4)
            if rc == 0 or not m0: fnd.undecided("definition of %s next to the bundled one: no located error (%s)" % (uname, outp[:120]))
            elif (m0.group(1), int(m0.group(2))) != want:
                fnd.report("wrong-file:duplicate_of_a_bundled_name", "a user definition of `%s` (main.sy:%d) collides with the bundled preamble's import: reported at %s:%s, written at %s:%d" % (uname, want[1], m0.group(1), m0.group(2), want[0], want[1]), {"main.sy": text}, cmd="sylt -o out.lua main.sy")
                break
    cov = {"states": max(1, tot["paths"]), "transitions": max(1, tot["queries"] + stats.queries), "traces_validated_against_impl": nat_n, "samples": samples or [{"note": "none"}],
           "error_kinds": allk + list(SYNTAX), "mir_statements": tot["steps"], "functions_encoded": ["name_resolution::resolve", "dependency::initialization_order", "typechecker::solve"],
           "bounds": {"symbolic": "line map ell: strictly increasing, otherwise arbitrary", "files": 2, "native_preceding_text_shapes_per_case": 2 if tier == "quick" else 6}, "known_findings_seen": sorted(fnd.seen_known)}
    rc = fnd.finish()
    common.write_evidence("C15", tier, "model_checking", cov, ["token line numbers are exact (C17's inductive kernel on the same MIR)", "syntax errors and git conflict markers are checked on the native binary only (preceding text chosen by z3)",
                          "the primary location is the span of the first error of the returned list", "for multi-line constructs every line of the construct's extent named in the table is accepted"], time.time() - t0, len(fnd.violations))
    print("C15: %d symbolic-line cases, %d paths, %d queries, %d native runs, wall %.1fs" % (len(jobs), tot["paths"], tot["queries"], nat_n, time.time() - t0))
    return rc


def _case_seed(*parts):
    import zlib
    return zlib.crc32(("/".join(map(str, parts)) + "/%d" % common.seed()).encode()) & 0xffff


def solver_shapes(stats, n, seed):
    """n models of: a sequence of 1..4 line kinds, with at least one multi-line / multi-byte line among every two shapes"""
    out = []; s = z3.Solver(); s.set("random_seed", seed % 1000)
    ks = [z3.Int("k%d" % i) for i in range(4)]; ln = z3.Int("len"); cr = z3.Bool("crlf")
    s.add(ln >= 1, ln <= 4); s.add([z3.And(k >= 0, k < len(PREFIX_LINES)) for k in ks])
    s.add(z3.Or([z3.And(ln > i, z3.Or(ks[i] == 1, ks[i] == 3)) for i in range(4)]))
    s.add(ks[0] == seed % len(PREFIX_LINES))
    while len(out) < n and stats.check(s) == z3.sat:
        m = s.model(); L = m.eval(ln, model_completion=True).as_long()
        shape = [m.eval(ks[i], model_completion=True).as_long() for i in range(L)]
        out.append((shape, z3.is_true(m.eval(cr, model_completion=True))))
        s.add(z3.Or([ks[i] != shape[i] for i in range(L)] + [ln != L])); s.add(ks[0] >= 0)
        s.reset() if False else None
    return out
