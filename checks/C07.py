"""C07 - the compiler is total: no panic, no hang, failures are rendered errors.
 (A) K-parse-stmt: the real `parser::module` (outer_statement, statement, block, expression, assignable, parse_type,
     the error-recovery loops) is executed from MIR on token vectors = concrete prefix + N tokens whose kind is a z3
     variable over EVERY token kind (identifier payload lower/upper case symbolic). Every path must end in Ok or in
     Err with a non-empty error list - no panic, no unsupported arithmetic, no path cut.
 (B) K-tc + IR: oddity templates (declarations inside bodies that shadow globals, wrong numbers of type arguments,
     cyclic inferred types, self references, empty bodies ...) with alternative-snippet selectors go through resolver,
     dependency order, type checker, IR lowering and usage counting from MIR: no panic on any path.
 (C) K-render: `write_source_span_at` from MIR over symbolic spans that satisfy the tokenizer's post-condition: the
     underline arithmetic cannot underflow.
 (D) native: token soups chosen by z3 from the token languages, every token-boundary truncation of catalogue programs
     and nesting probes run through the native binary: exit status 0/1, no `panicked`, bounded time."""
import multiprocessing as mp, os, re, shutil, subprocess, tempfile, time, traceback
import z3
from vlib import common

PREFIXES = ["", "x :: ", "x := 1 + ", "f :: fn a: ", "f :: fn do\n", "B :: blob { ", "f :: fn do\n    if a do loop b do 1 end ", "f :: fn do\n    loop a do x end ", "f :: fn do\n    if a do x end ", "E :: enum ", "use ", "from a use ", "x : ", "if a do ",
            "f :: fn -> ", "t :: (1, ", "f(", "x . ", "case a do A ", "f :: fn do\n    do x end ", "f :: fn do\n    case a do A -> x end ", "f :: fn do\n    x := fn do y end "]
_CTX = {}


def parser_machine():
    if "pm" not in _CTX:
        from mirsym import core as M
        art = common.artifacts(need_mir=("sylt-tokenizer", "sylt-parser", "sylt-common"), need_replay=True)
        _CTX["pm"] = M.Machine([art["mir"]["sylt-parser"], art["mir"]["sylt-tokenizer"], art["mir"]["sylt-common"]], common.REPO,
                               src_files=["sylt-tokenizer/src/token.rs", "sylt-tokenizer/src/tokenizer.rs", "sylt-common/src/lib.rs", "sylt-common/src/error.rs", "sylt-common/src/ty.rs",
                                          "sylt-parser/src/parser.rs", "sylt-parser/src/expression.rs", "sylt-parser/src/statement.rs"])
        _CTX["art"] = art
    return _CTX["pm"]


def native_tokens_of(replay, text):
    d = tempfile.mkdtemp(prefix="c07_", dir=common.SCRATCH)
    try:
        p = os.path.join(d, "t.sy"); open(p, "w").write(text)
        out = subprocess.run([replay, "tokens", p], capture_output=True, text=True, timeout=30).stdout
    finally: shutil.rmtree(d, ignore_errors=True)
    res = []
    for ln in out.split("\n"):
        mm = re.match(r"^PlacedToken \{ token: (\w+)(?:\((.*)\))?, span:", ln)
        if mm: res.append((mm.group(1), mm.group(2)))
    return res


def stmt_kernel(job):
    prefix, n, first_group, ngroups = job
    try:
        from mirsym import core as M
        m = parser_machine(); T = m.enums["Token"]
        pre = native_tokens_of(_CTX["art"]["replay"], prefix) if prefix else []
        ds = [z3.Int("t%d" % i) for i in range(n)]; ps = [z3.Int("p%d" % i) for i in range(n)]
        base = [z3.And(d >= 0, d < len(T), d != T.index("EOF")) for d in ds] + [z3.And(p >= 0, p < 2) for p in ps]
        if ngroups > 1: base.append(ds[0] % ngroups == first_group)
        def payload(k, v):
            if v is None: return []
            if k in ("Identifier", "String", "Comment"): return [v.strip('"')]
            if k == "Int": return [int(v)]
            if k == "Float": return [float(v)]
            if k == "Bool": return [v == "true"]
            return [v]
        def mk():
            toks = []
            for j, (k, v) in enumerate(pre):
                toks.append(M.StructV("PlacedToken", [M.EnumV("Token", T.index(k), payload(k, v)), M.StructV("Span", [0, 1, 1, j + 1, j + 2])]))
            for i in range(n):
                tok = M.EnumV("Token", ds[i], [M.ChoiceV(ps[i], ["a", "A"])])
                toks.append(M.StructV("PlacedToken", [tok, M.StructV("Span", [0, 2, 2, i + 1, i + 2])]))
            return [M.Ref([M.EnumV("FileOrLib", 0, ["main.sy"])], 0), 0, M.Opaque("root"), toks]
        t0 = time.time()
        res = m.explore("module", mk, base)
        bad = []; ok = err = 0
        for pc, (k, v) in res:
            if k != "ok":
                s = z3.Solver(); s.add(base); s.add(pc); s.check(); mdl = s.model()
                toks = [T[mdl.eval(d, model_completion=True).as_long()] for d in ds]
                bad.append({"what": str(v)[:200], "tokens": toks, "idents": [["a", "A"][mdl.eval(p, model_completion=True).as_long()] for p in ps]}); continue
            r = v.fields[1]
            if r.disc == 0: ok += 1
            else:
                err += 1
                if len(r.fields[0].items) == 0: bad.append({"what": "Err with an empty error list", "tokens": []})
        return {"job": [prefix, n, first_group], "status": "ok", "paths": len(res), "accepted": ok, "rejected": err, "bad": bad, "steps": m.ex.steps, "queries": m.ex.queries, "wall_s": time.time() - t0}
    except RecursionError:
        return {"job": [prefix, n, first_group], "status": "engine_error", "why": "recursion limit (unbounded recursion in the parser on some token sequence?)"}
    except Exception as e:
        return {"job": [prefix, n, first_group], "status": "engine_error", "why": "%s: %s %s" % (type(e).__name__, str(e)[:300], traceback.format_exc()[-400:])}


TOKTEXT = None
def token_text(kind, ident="a"):
    global TOKTEXT
    if TOKTEXT is None:
        from rexsmt import tokens as RT
        TOKTEXT = {t["variant"]: t["text"] for t in RT.read_tokens(common.repo_path("sylt-tokenizer/src/token.rs")) if t["kind"] == "token"}
        TOKTEXT.update({"Identifier": None, "String": '"s"', "Float": "1.5", "Int": "1", "Nil": "nil", "Bool": "true", "Comment": "// c\n", "Whitespace": " ", "Error": "$"})
    if kind == "Identifier": return ident
    return TOKTEXT.get(kind, "?")


# ------------------------------------------------------------------ (B) oddities through resolver / type checker / IR
ODD_HEAD = "A :: blob {\n    a: int,\n}\nEn :: enum\n    X int,\nend\nPair :: blob(*P, *Q) {\n    p: *P,\n    q: *Q,\n}\nvd :: fn do end\n"
ODD = [
    "A :: blob {\n    b: int,\n}", "En :: enum\n    Y,\nend", "pr: fn *X -> void : external", "Zz :: blob {\n    b: int,\n}",
    "v: Pair(int, str, bool) = Pair { p: 1, q: \"s\" }", "v: Pair(int) = Pair { p: 1, q: \"s\" }", "v: A(int) = A { a: 1 }", "v: En(int, int) = En.X 1",
    "l := []\nl = [l]", "xs := []\nxs -> push2(xs)", "l2 := []\nl2 = [l2]\nz2 :: l2 + 1", "t3 := (1, 2)\nt3 = (t3, 1)", "l4 := []\nl4 = [l4]\npr(l4 == 1)", "g5 := fn x do end\ng5 = fn x do g5(g5) end\nz5 :: g5 + 1", "s := s", "s := fn -> int do ret s() end", "loop do end", "k :: ()", "k :: (,)", "t :: (1,)\npr(t[0])",
    "ff :: fn do end\nff = ff", "q :: if 1 < 2 do end", "case En.X 1 do\n    else end\nend", "w :: [[]]", "z :: -vd()", "u := vd\nu()()", "b := A { a: A { a: 1 } }",
    "selfplus :: fn x do\n    x == (x, 1)\n    y :: x + x\nend", "selfless :: fn x do\n    x == (x, 1)\n    y :: x < x\nend", "selfneg :: fn x do\n    x == (x, 1)\n    y :: -x\nend", "selfdiv :: fn x do\n    x == (x, 1)\n    y :: x / 2\nend",
    # integer and float literals at the edges of their ranges in every arithmetic position (anything the compiler computes itself must not overflow)
    "n1 :: 9223372036854775807 + 1\npr(n1)", "n2 :: -(-9223372036854775807 - 1)\npr(n2)", "n3 :: 1000000000 * 60 * 60 * 24 * 365 * 300\npr(n3)", "n4 :: 9223372036854775807 * 2\npr(n4)",
    "n5 :: -9223372036854775807 - 2\npr(n5)", "n6 :: 4611686018427387904 + 4611686018427387904\npr(n6)", "n7 :: 3037000500 * 3037000500\npr(n7)", "n8 :: 0 - 9223372036854775807 - 9223372036854775807\npr(n8)",
    "n9 :: (9223372036854775807, 1) + (1, 9223372036854775807)\npr(n9)", "f1 :: 1.0 / 0.0\npr(f1)", "i1 :: 1 / 0\npr(i1)", "c1 :: 9223372036854775807 < 9223372036854775807 + 1\npr(c1)",
    "m := 1\nm.x = 2", "n := (1, 2)\nn[0] = 3", "o := En.X\npr(o)", "r :: fn -> do end", "e :: [fn do end, fn -> int do ret 1 end]",
]
ODD_TEXT = ODD_HEAD + "push2 :: fn l, x do end\nstart :: fn do\n    __alt1(%s)\n    pr(1)\nend\n" % ", ".join("fn do\n%s\nend" % ("\n    " + "\n    ".join(s.split("\n"))) for s in ODD)


def odd_kernel(_):
    try:
        from mirsym import ktc, core as M
        k = ktc.Kernel()
        t0 = time.time()
        sys_lim = __import__("sys").getrecursionlimit()
        r = k.explore(ODD_TEXT, with_ir=True)
        if "error" in r: return {"status": "template_error", "why": r["error"]}
        bad = []; acc = rej = 0
        for pc, (kind, out) in r["paths"]:
            s = z3.Solver(); s.add(r["base"]); s.add(pc); s.check(); a = ktc.model_assignment(s.model(), r["sels"])
            if kind != "ok": bad.append({"what": str(out)[:200], "snippet": ODD[a.get("alt1", 0)]}); continue
            if out["accepted"]: acc += 1
            else:
                rej += 1
                errs = out.get("errors")
                if errs is not None and hasattr(errs, "items") and len(errs.items) == 0: bad.append({"what": "Err with an empty error list", "snippet": ODD[a.get("alt1", 0)]})
        return {"status": "ok", "paths": len(r["paths"]), "accepted": acc, "rejected": rej, "bad": bad, "steps": r["steps"], "queries": r["queries"], "wall_s": time.time() - t0}
    except RecursionError:
        return {"status": "ok", "paths": 0, "accepted": 0, "rejected": 0, "bad": [{"what": "unbounded recursion while type checking (stack overflow in the real compiler)", "snippet": "one of the oddity snippets"}], "steps": 0, "queries": 0}
    except Exception as e:
        return {"status": "engine_error", "why": "%s: %s %s" % (type(e).__name__, str(e)[:300], traceback.format_exc()[-500:])}


# ------------------------------------------------------------------ (C) renderer arithmetic
def render_kernel(stats):
    from mirsym import core as M
    art = common.artifacts(need_mir=("sylt-common", "sylt-tokenizer"))
    m = M.Machine([art["mir"]["sylt-common"], art["mir"]["sylt-tokenizer"]], common.REPO, src_files=["sylt-tokenizer/src/tokenizer.rs", "sylt-common/src/lib.rs", "sylt-common/src/error.rs", "sylt-common/src/ty.rs"])
    ex = m.ex
    ls, le, cs, ce = z3.Ints("line_start line_end col_start col_end")
    # post-condition of the tokenizer (C17): columns are 1-based; a token on one line ends after it starts; Span::zero is all zeros
    base = [ls >= 0, le >= ls, cs >= 0, ce >= 0, z3.Implies(ls == le, ce >= cs), ls <= 2**31, cs <= 2**31, ce <= 2**31]
    okres = M.EnumV("Result", 0, [M.TupleV([])])
    ex.stubs.update({"write_source_line_from_file_at": lambda a: okres, "write_source_line_from_stdlib": lambda a: okres, "underline": lambda a: okres, "Formatter::<'_>::write_fmt": lambda a: okres, "write_fmt": lambda a: okres})
    span = lambda: M.StructV("Span", [0, ls, le, cs, ce])
    out = []
    for which, fl in (("File", M.EnumV("FileOrLib", 0, [M.Opaque("path")])), ("Lib", M.EnumV("FileOrLib", 1, ["list"]))):
        res = m.explore("write_source_span_at", lambda: [M.Ref([M.Opaque("fmt")], 0), M.Ref([M.deep(fl)], 0), span()], base)
        for pc, (k, v) in res:
            if k != "ok":
                s = z3.Solver(); s.add(base); s.add(pc); r = stats.check(s)
                out.append({"obligation": "write_source_span_at(%s) cannot panic: %s" % (which, str(v)[:80]), "verdict": "sat" if r == z3.sat else str(r), "model": str(s.model()) if r == z3.sat else ""})
            else: out.append({"obligation": "write_source_span_at(%s) path returns" % which, "verdict": "holds", "pc": [str(c)[:60] for c in pc][:4]})
    return out, ex.steps


# ------------------------------------------------------------------ (D) native robustness
def native_run(sylt, files, timeout=20):
    d = tempfile.mkdtemp(prefix="c07n_", dir=common.SCRATCH)
    try:
        for rel, text in files.items():
            p = os.path.join(d, rel); os.makedirs(os.path.dirname(p), exist_ok=True); open(p, "w", encoding="utf-8", newline="").write(text)
        import resource
        cpu = lambda: sum(resource.getrusage(resource.RUSAGE_CHILDREN)[:2])      # CPU seconds of finished children: independent of the machine's load
        c0 = cpu()
        try: r = subprocess.run([sylt, "-o", "out.lua", "main.sy"], cwd=d, capture_output=True, text=True, timeout=max(timeout, 10) * 6)
        except subprocess.TimeoutExpired: return "timeout", timeout, ""
        dt = cpu() - c0
        out = r.stdout + r.stderr
        if "panicked" in out or r.returncode not in (0, 1): return "panic", dt, out[-400:]
        if r.returncode == 1 and "error" not in out.lower(): return "silent_failure", dt, out[-200:]
        if r.returncode == 0 and not os.path.exists(os.path.join(d, "out.lua")): return "silent_failure", dt, "exit status 0 but no output was written (an empty error list?) " + out[-120:]
        if dt > timeout: return "timeout", dt, ""
        return "ok", dt, ""
    finally: shutil.rmtree(d, ignore_errors=True)


def native_part(art, tier, stats, fnd):
    from checks import templates_core, C17
    from rexsmt import tokens as RT
    from syltsem import ast as A
    toks = RT.read_tokens(common.repo_path("sylt-tokenizer/src/token.rs"))
    n = 0
    soups = C17.witness_strings(toks, stats, 40 if tier == "quick" else 400, common.seed() + 7)
    for text in soups:
        st, dt, out = native_run(art["sylt"], {"main.sy": text}); n += 1
        if st != "ok": fnd.report("native-%s:token-soup" % st, "input %r: %s %s" % (text, st, out.replace("\n", " ")[-200:]), {"main.sy": text}, cmd="sylt -o out.lua main.sy")
    # truncations of real programs at token boundaries
    progs = [A.render(t["text"], {h: 1 for h in "abcdefghijklmnopqrstuvwxyz"})[0] for t in templates_core.CATALOGUE[:: (6 if tier == "quick" else 1)]]
    for src in progs:
        cuts = [m.end() for m in re.finditer(r"\S+\s*", src)]
        step = max(1, len(cuts) // (12 if tier == "quick" else 60))
        for c in cuts[::step]:
            st, dt, out = native_run(art["sylt"], {"main.sy": src[:c]}); n += 1
            if st != "ok":
                fnd.report("native-%s:truncated-program" % st, "program truncated after %d chars: %s %s" % (c, st, out.replace("\n", " ")[-200:]), {"main.sy": src[:c]}, cmd="sylt -o out.lua main.sy")
    # multi-file: missing, self and cyclic imports
    for name, files in [("missing_import", {"main.sy": "use nothere\nstart :: fn do end\n"}), ("self_import", {"main.sy": "use main\nstart :: fn do end\n"}),
                        ("cyclic_import", {"main.sy": "use a\nstart :: fn do end\n", "a.sy": "use b\nx :: 1\n", "b.sy": "use a\ny :: 2\n"}),
                        ("conflicting_names", {"main.sy": "use a\nuse b as a\nstart :: fn do end\n", "a.sy": "x :: 1\n", "b.sy": "x :: 2\n"}),
                        ("error_on_a_line_longer_than_65535_columns", {"main.sy": "start :: fn do\n    x := \"" + "a" * 70000 + "\" )\nend\n"}), ("loop_directly_before_end_of_enclosing_block", {"main.sy": "start :: fn do\n    if true do loop false do 1 end end\nend\n"}),
                        ("global_initialised_from_itself", {"main.sy": "a :: a + 1\nstart :: fn do end\n"}), ("global_list_containing_itself", {"main.sy": "retries :: [retries, 3]\nstart :: fn do end\n"}),
                        ("mutable_global_initialised_from_itself_in_a_branch", {"main.sy": "x := if true do x else 0 end\nstart :: fn do end\n"}), ("global_initialised_from_itself_in_an_import", {"main.sy": "use a\nstart :: fn do end\n", "a.sy": "v :: v * 2\n"}),
                        ("two_globals_initialised_from_each_other", {"main.sy": "a :: b\nb :: a\nstart :: fn do end\n"}),
                        ("empty_file", {"main.sy": ""}), ("no_trailing_newline", {"main.sy": "start :: fn do end"}), ("only_comment", {"main.sy": "// nothing"}), ("nul_byte", {"main.sy": "start :: fn do\n\0\nend\n"})]:
        st, dt, out = native_run(art["sylt"], files); n += 1
        if st != "ok": fnd.report("native-%s:%s" % (st, name), "%s: %s %s" % (name, st, out.replace("\n", " ")[-200:]), files)
    # errors rendered with long, non-ASCII context lines (every alignment of the multi-byte characters relative to any fixed byte width)
    for k in range(4):
        for width in (60, 100):
            long_line = "    s%d := \"%s%s\"" % (k, "x" * k, "åö€" * width)
            for name, files in (("type_error_below_long_line", {"main.sy": "start :: fn do\n" + long_line + "\n    y := 1 + \"a\"\nend\n"}), ("syntax_error_on_long_line", {"main.sy": "start :: fn do\n" + long_line + " )\nend\n"}),
                                ("long_comment_above_error", {"main.sy": "// " + "x" * k + "éß" * width + "\nstart :: fn do\n    y := nope\nend\n"})):
                st, dt, out = native_run(art["sylt"], files); n += 1
                if st != "ok": fnd.report("native-%s:%s" % (st, name), "%s (offset %d, %d characters): %s %s" % (name, k, 3 * width, st, out.replace("\n", " ")[-200:]), files); break
    # how `start` is bound in the main file (alias, namespace, import) and odd path arguments
    for name, files in [("start_is_alias_of_import", {"main.sy": "from other use run as start\n", "other.sy": "run :: fn do end\n"}), ("start_is_namespace", {"main.sy": "use start\n", "start.sy": "x :: 1\n"}),
                        ("start_is_namespace_alias", {"main.sy": "use other as start\n", "other.sy": "x :: 1\n"}), ("start_imported_by_name", {"main.sy": "from other use start\n", "other.sy": "start :: fn do end\n"}),
                        ("start_is_self_import_alias", {"main.sy": "from main use run as start\nrun :: fn do end\n"}), ("start_is_blob", {"main.sy": "start :: blob {\n    a: int,\n}\n"}), ("start_is_int", {"main.sy": "start :: 1\n"}),
                        ("start_is_enum", {"main.sy": "Start :: enum\n    A,\nend\nstart :: Start.A\n"}), ("start_takes_argument", {"main.sy": "start :: fn a: int do end\n"}), ("start_only_in_import", {"main.sy": "use other\n", "other.sy": "start :: fn do end\n"})]:
        st, dt, out = native_run(art["sylt"], files); n += 1
        if st != "ok": fnd.report("native-%s:%s" % (st, name), "%s: %s %s" % (name, st, out.replace("\n", " ")[-200:]), files)
    d = tempfile.mkdtemp(prefix="c07p_", dir=common.SCRATCH)
    try:
        open(os.path.join(d, "main.sy"), "w").write("start :: fn do end\n"); os.makedirs(os.path.join(d, "dir.sy"))
        for arg in ("", "/", ".", "..", "dir.sy", "nosuch.sy", "/nosuch/x.sy", "main.sy/", "./main.sy", "../" + os.path.basename(d) + "/main.sy", "main", "a\nb.sy"):
            r = subprocess.run([art["sylt"], "-o", "out.lua", arg], cwd=d, capture_output=True, text=True, timeout=20); n += 1
            out = r.stdout + r.stderr
            if "panicked" in out or r.returncode not in (0, 1): fnd.report("native-panic:path-argument", "sylt -o out.lua %r: exit %d %s" % (arg, r.returncode, out.replace("\n", " ")[:200]), {"main.sy": "start :: fn do end\n"}, cmd="sylt -o out.lua %r" % arg)
            elif r.returncode == 1 and "not found" not in out and "error" not in out.lower(): fnd.report("native-silent_failure:path-argument", "sylt -o out.lua %r: exit 1 without a rendered error" % arg, {"main.sy": "start :: fn do end\n"})
    finally: shutil.rmtree(d, ignore_errors=True)
    # long but FLAT inputs: lists of N siblings nest nothing, so the size of the list must not be what the native stack measures
    N = 3000
    wide = {
        "enum_variants": "E :: enum\n" + "".join("    V%d,\n" % i for i in range(N)) + "end\nstart :: fn do\nend\n",
        "blob_fields": "B :: blob {\n" + "".join("    f%d: int,\n" % i for i in range(N)) + "}\nstart :: fn do\nend\n",
        "list_literal": "start :: fn do\n    l :: [" + ", ".join("1" for i in range(N)) + "]\nend\n",
        "tuple_literal": "start :: fn do\n    l :: (" + ", ".join("1" for i in range(N)) + ")\nend\n",
        "call_arguments": "f :: fn do end\nstart :: fn do\n    f(" + ", ".join("1" for i in range(N)) + ")\nend\n",
        "parameters": "f :: fn " + ", ".join("p%d: int" % i for i in range(N)) + " do end\nstart :: fn do\nend\n",
        "statements": "start :: fn do\n" + "".join("    x%d :: %d\n" % (i, i) for i in range(N)) + "end\n",
        "globals": "".join("g%d :: %d\n" % (i, i) for i in range(N)) + "start :: fn do\nend\n",
        "elif_chain": "start :: fn do\n    x :: 1\n    if x == 0 do\n" + "".join("    elif x == %d do\n" % i for i in range(N)) + "    end\nend\n",
        "case_arms": "E :: enum\n    A,\nend\nstart :: fn do\n    e :: E.A\n    case e do\n" + "".join("        A -> end\n" for i in range(N)) + "    end\nend\n",
        "blob_instance_fields": "B :: blob {\n    a: int,\n}\nstart :: fn do\n    b :: B { " + ", ".join("a: 1" for i in range(N)) + " }\nend\n",
        "type_arguments": "B :: blob(*T) {\n    a: *T,\n}\nf :: fn b: B(" + ", ".join("int" for i in range(N)) + ") do end\nstart :: fn do\nend\n",
        "type_parameters": "B :: blob(" + ", ".join("*T%d" % i for i in range(N)) + ") {\n    a: int,\n}\nstart :: fn do\nend\n",
        "tuple_type": "f :: fn b: (" + ", ".join("int" for i in range(N)) + ") do end\nstart :: fn do\nend\n",
        "imported_names": "from a use (" + ", ".join("x" for i in range(N)) + ")\nstart :: fn do\nend\n",
        "blank_lines_and_comments": "// c\n\n" * N + "start :: fn do\nend\n",
    }
    for name, text in wide.items():
        st, dt, out = native_run(art["sylt"], {"main.sy": text, "a.sy": "x :: 1\n"}, timeout=60); n += 1
        if st != "ok": fnd.report("native-%s:wide-flat-input:%s" % (st, name), "%d %s, nothing nested: %s %s" % (N, name.replace("_", " "), st, out.replace("\n", " ")[-200:]), {"gen.py": "N = %d\nprint(%r)\n" % (N, "see the description: " + name)},
                                  cmd="python3 -c 'print(\"E :: enum\\n\" + \"\".join(\"    V%d,\\n\" % i for i in range(3000)) + \"end\\nstart :: fn do\\nend\")' > main.sy; sylt -o out.lua main.sy" if name == "enum_variants" else "sylt -o out.lua main.sy")
    # nesting probes (time growth)
    for kind, gen in [("nested_call_closures", lambda d: "a :: fn f do end\nstart :: fn do\n" + "a(fn do\n" * d + "end)\n" * d + "end\n"), ("nested_ifs", lambda d: "start :: fn do\n    x := 1\n" + "if x > 0 do\n" * d + "x = 2\n" + "end\n" * d + "end\n")]:
        first_slow = None
        for d in (4, 8, 12, 16):
            st, dt, out = native_run(art["sylt"], {"main.sy": gen(d)}, timeout=10); n += 1
            if st == "panic": fnd.report("native-panic:%s" % kind, "%s depth %d: %s" % (kind, d, out[-200:]), {"main.sy": gen(d)}); break
            if st == "timeout" or dt > 5:
                first_slow = d; break
        if first_slow is not None:
            fnd.report("native-slow:%s:from-%d" % (kind, first_slow), "%s nested %d deep needs more than 5 s of CPU time to compile (parse time grows exponentially with nesting)" % (kind, first_slow), {"main.sy": gen(first_slow)}, cmd="time sylt -o out.lua main.sy")
    return n


def run(tier):
    t0 = time.time(); stats = common.SolverStats()
    fnd = common.Findings("C07")
    parser_machine(); art = _CTX["art"]
    q = tier == "quick"
    jobs = []
    for p in (PREFIXES[:8] if q else PREFIXES): jobs.append((p, 2 if p else (2 if q else 3), 0, 1))
    if not q:
        jobs = [j for j in jobs if j[0] != ""] + [("", 3, g, 16) for g in range(16)]
    with mp.get_context("fork").Pool(16) as pool:
        odd_async = pool.apply_async(odd_kernel, (0,))
        results = pool.map(stmt_kernel, jobs, chunksize=1)
        odd = odd_async.get()
    tot = {"paths": 0, "steps": 0, "queries": 0}; samples = []
    for r in results:
        if r["status"] != "ok": fnd.undecided("K-parse-stmt %s: %s" % (r["job"], r.get("why", "")[:300])); continue
        for k in tot: tot[k] += r[k]
        for b in r["bad"]:
            src = r["job"][0] + " ".join(token_text(t, i) for t, i in zip(b.get("tokens", []), b.get("idents", [])))
            st, dt, out = native_run(art["sylt"], {"main.sy": src + "\n"})
            if st != "ok" or "empty error list" in b["what"]:
                fnd.report("parser-panic:" + re.sub(r"[^a-zA-Z ]", "", b["what"])[:40].strip().replace(" ", "_"), "token sequence `%s`: %s (native: %s %s)" % (src, b["what"], st, out[-150:].replace("\n", " ")), {"main.sy": src + "\n"}, cmd="sylt -o out.lua main.sy")
            else: fnd.undecided("K-parse-stmt: MIR path panics (%s) on `%s` but the native parser does not" % (b["what"], src))
        if len(samples) < 3: samples.append({"prefix": r["job"][0], "symbolic_tokens": r["job"][1], "paths": r["paths"], "ok": r["accepted"], "err": r["rejected"]})
    if odd["status"] != "ok": fnd.undecided("oddity kernel: %s %s" % (odd["status"], odd.get("why", "")[:300]))
    else:
        tot["paths"] += odd["paths"]; tot["steps"] += odd["steps"]; tot["queries"] += odd["queries"]
        for b in odd["bad"]:
            src = ODD_HEAD + "push2 :: fn l, x do end\npr: fn *X -> void : external\nstart :: fn do\n    " + "\n    ".join(b["snippet"].split("\n")) + "\n    pr(1)\nend\n"
            st, dt, out = native_run(art["sylt"], {"main.sy": src})
            if st != "ok": fnd.report("compiler-panic:" + re.sub(r"[^a-zA-Z ]", "", b["snippet"].split("\n")[0])[:30].strip().replace(" ", "_"), "snippet `%s`: %s (native: %s %s)" % (b["snippet"], b["what"], st, out[-200:].replace("\n", " ")), {"main.sy": src})
            else: fnd.undecided("oddity kernel: MIR path fails (%s) on `%s` but the native compiler does not" % (b["what"], b["snippet"]))
        samples.append({"oddity_snippets": len(ODD), "paths": odd["paths"], "accepted": odd["accepted"], "rejected": odd["rejected"]})
    rk, rsteps = render_kernel(stats)
    for c in rk:
        if c["verdict"] != "holds": fnd.report("render-arith", "%s: %s %s" % (c["obligation"], c["verdict"], c.get("model", "")), {"obligation.txt": str(c)})
    nat = native_part(art, tier, stats, fnd)
    cov = {"states": max(1, tot["paths"]), "transitions": max(1, tot["queries"] + stats.queries), "traces_validated_against_impl": nat, "samples": samples or [{"note": "none"}],
           "mir_statements": tot["steps"] + rsteps, "render_obligations": len(rk),
           "functions_encoded": ["parser::module", "statement::{outer_statement, statement, block, use_path, path}", "expression::* (all)", "parser::{parse_type, type_assignable, assignable*, Context::*}",
                                 "name_resolution::resolve", "dependency::initialization_order", "typechecker::solve", "intermediate::compile", "error::write_source_span_at"],
           "bounds": {"symbolic_tokens_after_prefix": 2 if q else "2 (3 from the empty prefix)", "prefixes": len(jobs), "token_kinds": "all (EOF excluded)", "oddity_snippets": len(ODD)}, "known_findings_seen": sorted(fnd.seen_known)}
    rc = fnd.finish()
    common.write_evidence("C07", tier, "model_checking", cov, ["bounded bug finding, not a totality proof: token sequences beyond the bound, the logos lexer and std are trusted",
                          "library_name/library_source, Path/PathBuf, format! are contract stubs; file discovery (`tree`) is exercised natively only", "native stack depth is not measured (nesting probes stop at depth 16)"], time.time() - t0, len(fnd.violations))
    print("C07: %d MIR paths (%d parser jobs + oddities), %d render obligations, %d native runs, wall %.1fs" % (tot["paths"], len(jobs), len(rk), nat, time.time() - t0))
    return rc
