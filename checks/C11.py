"""C11 - top-level order is irrelevant; globals are initialised before use.
Each base template's top-level statements are permuted (all permutations up to 24, a seeded sample above);
every permutation goes through the real compiler; all permutations must agree on accept/reject, and each accepted
one is validated against the (order-independent) reference semantics for all hole values."""
import itertools, random, time
from vlib import common
from syltsem import ast as A, parse as SP
from checks import tvrun, templates_core

BASES = [
("blob_field_of_a_type_declared_elsewhere_ill_typed", False, {}, '''
Box :: blob {
    c: Color,
}
Color :: enum
    Red,
    Green,
end
start :: fn do
    b :: Box { c: 42 }
    print(1)
end
'''),
("function_annotated_with_an_enum_declared_elsewhere_ill_typed", False, {}, '''
show :: fn c: Color -> int do
    ret 1
end
Color :: enum
    Red,
    Green,
end
start :: fn do
    print(show(42))
end
'''),
("function_annotated_with_a_blob_declared_elsewhere_ill_typed", False, {}, '''
area :: fn b: Box -> int do
    ret b.w
end
Box :: blob {
    w: int,
}
start :: fn do
    print(area(42))
end
'''),
("global_list_filled_at_two_types_through_a_generic_function", False, {"a": (0, 1)}, '''
xs := []
h :: fn v do
    xs -> list.push(v)
end
f :: fn do
    h(?a)
end
k :: fn do
    xs -> list.push("s")
end
start :: fn do
    f()
    k()
end
'''),
("method_of_a_global_instance_reads_a_later_global", True, {"a": (0, 3)}, '''
counter :: Counter { n: 10, next: fn -> int do ret step + self.n end }
first :: counter.next()
step :: ?a + 1
Counter :: blob {
    n: int,
    next: fn -> int,
}
start :: fn do
    print(first)
    print(counter.next() + step)
end
'''),
("method_of_a_global_instance_only_called_from_start", True, {"a": (0, 3)}, '''
Greeter :: blob {
    greet: fn -> int,
}
g :: Greeter { greet: fn -> int do ret base * 2 end }
start :: fn do
    print(g.greet())
end
base :: ?a + 5
'''),
("initialiser_calls_a_method_that_reads_it", False, {"a": (0, 3)}, '''
Cn :: blob {
    next: fn -> int,
}
cn :: Cn { next: fn -> int do ret first + ?a end }
first :: cn.next()
start :: fn do
    print(first)
end
'''),
("initialiser_that_reads_itself", False, {"a": (0, 3)}, '''
base :: ?a
limit : int : limit + base
start :: fn do
    print(limit)
end
'''),
("initialiser_that_reads_itself_through_a_closure", False, {"a": (0, 3)}, '''
base :: ?a
total : int : (fn -> int do ret total * 2 + base end)()
start :: fn do
    print(total)
end
'''),
("initialiser_that_reads_itself_in_a_blob", False, {"a": (0, 3)}, '''
Pt :: blob {
    x: int,
    y: int,
}
origin :: Pt { x: ?a, y: origin.x }
start :: fn do
    print(origin.y)
end
'''),
("independent_initialisers_with_side_effects", True, {"a": (0, 3)}, '''
counter := ?a
next :: fn -> int do
    counter += 1
    ret counter
end
first :: next()
second :: next()
start :: fn do
    print(first)
    print(second)
end
'''),
("init_chain", True, {"a": (0, 3)}, '''
start :: fn do
    print(c)
    print(b)
end
c :: b + a
b :: a * 2
a :: ?a
'''),
("fn_assigns_global_during_init", True, {"a": (0, 3)}, '''
start :: fn do
    print(x)
    print(a)
end
a :: f()
f :: fn -> int do
    x = x + ?a + 1
    ret 5
end
x := 0
'''),
("fn_only_assigns_global_during_init", True, {"a": (0, 3)}, '''
start :: fn do
    print(x)
    print(a)
end
a :: f()
f :: fn -> int do
    x = ?a + 1
    ret 5
end
x := 0
'''),
("fn_compound_assigns_global_during_init", True, {"a": (0, 3)}, '''
start :: fn do
    print(x)
    print(a)
end
a :: f()
f :: fn -> int do
    x += ?a + 1
    ret 5
end
x := 10
'''),
("param_field_of_later_blob", False, {"a": (0, 3)}, '''
start :: fn do
    print(get(X { b: B { v: ?a } }))
end
get :: fn x: X -> int do
    ret x.b.nonexistent
end
X :: blob {
    b: B,
}
B :: blob {
    v: int,
}
'''),
("fn_reads_global_during_init", True, {"a": (0, 3)}, '''
start :: fn do
    print(v)
end
v :: g(2)
g :: fn n: int -> int do ret n * k + ?a end
k :: 10
'''),
("types_before_declaration", True, {"a": (0, 3)}, '''
start :: fn do
    p := mk(?a)
    print(p.x)
    print(e)
end
mk :: fn n: int -> P do ret P { x: n, q: Q { y: n + 1 } } end
e :: E.A 3
P :: blob {
    x: int,
    q: Q,
}
Q :: blob {
    y: int,
}
E :: enum
    A int,
    B,
end
'''),
("cyclic_initialisers", False, {"a": (0, 3)}, '''
start :: fn do
    print(a)
end
a :: b + 1
b :: c + ?a
c :: a * 2
'''),
("cycle_through_function", False, {"a": (0, 3)}, '''
start :: fn do
    print(v)
end
v :: f() + ?a
f :: fn -> int do ret v end
'''),
("closure_global_and_loop_condition", True, {"a": (0, 3)}, '''
start :: fn do
    print(count())
end
count :: fn -> int do
    i := 0
    loop i < limit do i += step end
    ret i
end
limit :: ?a + 1
step :: 1
'''),
("nested_field_of_later_blob", False, {"a": (0, 3)}, '''
start :: fn do
    x := X { b: B { v: ?a } }
    print(x.b.nonexistent)
end
X :: blob {
    b: B,
}
B :: blob {
    v: int,
}
'''),
("case_else_reads_global", True, {"a": (0, 3)}, '''
start :: fn do
    print(area(S.Sq 2))
    print(area(S.Other))
end
area :: fn s: S -> int do
    case s do
        Sq n -> n * n end
        else dflt + ?a end
    end
end
S :: enum
    Sq int,
    Other,
end
dflt :: 7
'''),
("higher_order_init", False, {"a": (0, 3)}, '''
start :: fn do
    print(limit)
end
apply :: fn f: fn int -> int, v: int -> int do ret f(v) end
next :: fn v: int -> int do ret v + limit end
limit :: apply(next, ?a) + 5
'''),
]


def permuted(seed, tier):
    rnd = random.Random(seed)
    out = []; groups = {}
    bases = list(BASES)
    for t in templates_core.CATALOGUE:
        if "global_use" in t["tags"]: bases.append((t["name"], True, t["dom"], t["text"]))
    for name, expect_accept, dom, text in bases:
        prog = SP.strip_parens(SP.parse_program(text))
        n = len(prog)
        perms = list(itertools.permutations(range(n)))
        cap = 6 if tier == "quick" else 24
        if len(perms) > cap:
            keep = [perms[0], perms[-1]] + rnd.sample(perms[1:-1], cap - 2)
        else: keep = perms
        for pi, perm in enumerate(keep):
            ptxt = A.to_text([prog[i] for i in perm])
            nm = "%s#%s" % (name, "".join(map(str, perm)))
            # every order is validated against the denotation of the FIRST order: behaviour must be identical in every order
            out.append({"name": nm, "role": "top-level-order(%s)" % name, "text": ptxt, "ref_text": A.to_text(prog), "dom": dom, "group": name, "expect_accept": expect_accept})
            groups.setdefault(name, []).append(nm)
    return out, groups


# multi-file programs: the top-level statements of main.sy (imports included) in every order, natively; acceptance and the printed values must not depend on the order
_UF = {"a/util.sy": "answer :: 1\nonly_in_a :: 10\n", "b/util.sy": "answer :: 2\n", "x.sy": "v :: 3\n", "y.sy": "v :: 4\nw :: 5\n", "set.sy": "answer :: 6\n"}
IMPORT_ORDER = [
    ("two_files_one_namespace_name", ["use a/util", "use b/util", "start :: fn do\n    print(util.answer)\nend"]),
    ("two_files_one_namespace_name_member_of_one", ["use a/util", "use b/util", "start :: fn do\n    print(util.only_in_a)\nend"]),
    ("two_files_one_alias", ["use x as m", "use y as m", "start :: fn do\n    print(m.v)\nend"]),
    ("two_files_one_alias_member_of_one", ["use x as m", "use y as m", "start :: fn do\n    print(m.w)\nend"]),
    ("same_name_from_two_files", ["from a/util use answer", "from b/util use answer", "start :: fn do\n    print(answer)\nend"]),
    ("project_file_named_like_a_bundled_namespace", ["use /set", "k :: set.answer", "start :: fn do\n    print(k)\nend"]),
    ("namespace_and_global_of_one_name", ["use a/util", "util :: 5", "start :: fn do\n    print(util)\nend"]),
    ("distinct_aliases_and_dependent_globals", ["use a/util as ua", "use b/util as ub", "k :: ua.answer + ub.answer", "j :: k * 2", "start :: fn do\n    print(j)\n    print(ua.only_in_a)\nend"]),
    ("same_file_imported_twice", ["use x", "use x as again", "start :: fn do\n    print(x.v + again.v)\nend"]),
]


def import_orders(sylt, fnd):
    from luasym.luaparse import parse
    from luasym import runner
    n = 0
    for name, chunks in IMPORT_ORDER:
        seen = {}
        for perm in itertools.permutations(range(len(chunks))):
            text = "\n".join(chunks[i] for i in perm) + "\n"
            rc, lua, out = common.compile_sy(sylt, dict(_UF, **{"main.sy": text})); n += 1
            if rc != 0 or lua is None: key = ("rejected",)
            else:
                try: events, outcome, it = runner.run_concrete(parse(lua)); key = ("accepted", tuple(e[1] for e in events if e[0] == "print"), outcome[0])
                except Exception as e: key = ("accepted", "chunk does not load: %s" % str(e)[:80])
            seen.setdefault(key, (perm, text, out[-200:].replace("\n", " ")))
        if len(seen) > 1:
            ks = sorted(seen, key=str)
            fnd.report("order-dependent-imports:" + name, "%s: in order %s the program is %s, in order %s it is %s" % (name, "".join(map(str, seen[ks[0]][0])), ks[0], "".join(map(str, seen[ks[1]][0])), ks[1]),
                       dict(_UF, **{"main.sy": seen[ks[0]][1], "main_reordered.sy": seen[ks[1]][1]}), cmd="sylt -o a.lua main.sy; sylt -o b.lua main_reordered.sy")
    # long acyclic dependency chains: the same definitions written use-before-definition, definition-before-use and shuffled
    import random
    for kind, mk in (("constants", lambda i, N: "c%d :: %s" % (i, ("c%d + 1" % (i + 1)) if i + 1 < N else "1")), ("functions", lambda i, N: "f%d :: fn -> int do ret %s end" % (i, ("f%d() + 1" % (i + 1)) if i + 1 < N else "1"))):
        for N in (300, 1200):
            defs = [mk(i, N) for i in range(N)]
            tail = "start :: fn do\n    %s <=> %d\nend\n" % ("c0" if kind == "constants" else "f0()", N)
            orders = {"use_before_definition": defs, "definition_before_use": defs[::-1], "shuffled": random.Random(N).sample(defs, N)}
            seen = {}
            for on, ds in orders.items():
                rc, lua, out = common.compile_sy(sylt, {"main.sy": "\n".join(ds) + "\n" + tail}, extra=["--no-std"], timeout=120); n += 1
                seen[on] = (rc == 0 and lua is not None, out[-160:].replace("\n", " "))
            if not any(v[0] for v in seen.values()): fnd.undecided("chain of %d %s: rejected in every order (%s)" % (N, kind, list(seen.values())[0][1]))
            if len(set(v[0] for v in seen.values())) > 1:
                acc = [k for k, v in seen.items() if v[0]]; rej = [k for k, v in seen.items() if not v[0]]
                fnd.report("order-dependent-acceptance:chain-of-%s" % kind, "a chain of %d %s each using the next one is accepted written %s and rejected written %s (%s)" % (N, kind, acc[0].replace("_", " "), rej[0].replace("_", " "), seen[rej[0]][1]),
                           {"gen.txt": "N = %d; definition i is `%s`; see the description for the two orders" % (N, mk(0, N))}, cmd="python3 gen.py > main.sy   # then reverse the lines; sylt --no-std -o out.lua main.sy")
    return n


def run(tier):
    t0 = time.time()
    art = common.artifacts()
    templates, groups = permuted(common.seed(), tier)
    results = tvrun.run_templates(art["sylt"], templates, tier)
    by = {r["name"]: r for r in results}
    fnd = common.Findings("C11")
    agg = tvrun.summarize(results)
    confirmed = 0; samples = []
    for g, names in groups.items():
        sts = {n: by[n]["status"] for n in names}
        acc = [n for n in names if sts[n] in ("ok", "diff", "undecided", "load_error", "stuck")]
        rej = [n for n in names if sts[n] == "rejected"]
        if acc and rej:
            confirmed += 1
            a, r = by[acc[0]], by[rej[0]]
            fnd.report("order-dependent-acceptance:" + g, "program %s is accepted in order %s and rejected in order %s (%s)" % (g, acc[0].split("#")[1], rej[0].split("#")[1], r.get("compiler_output", "")[:200].replace("\n", " ")),
                       {"accepted/main.sy": a.get("source", ""), "rejected/main.sy": r.get("source", "")}, cmd="sylt -o a.lua accepted/main.sy ; sylt -o b.lua rejected/main.sy   # same exit status expected")
        expect = [t for t in templates if t["name"] == names[0]][0]["expect_accept"]
        if acc and not expect and not rej:
            confirmed += 1
            fnd.report("accepted-without-denotation:" + g, "program %s (cyclic initialisers / missing field: must be rejected) is accepted in every explored order" % g, {"main.sy": by[acc[0]].get("source", "")})
        for n in names:
            r = by[n]
            if r["status"] == "stuck" and not expect: continue          # reported through the acceptance rules above
            if r["status"] == "diff":
                for d in r["diffs"]:
                    if d.get("replayed") is True:
                        confirmed += 1; info = d.get("replay", {})
                        fnd.report("order-dependent-behaviour:" + g, "program %s in order %s with holes %s: source denotes %s, emitted Lua does %s" % (g, n.split("#")[1], d["holes"], str(info.get("ref"))[:200], str(info.get("lua_trace"))[:200]),
                                   {"main.sy": info.get("source", ""), "out.lua": info.get("lua", "")})
                        break
                    else: fnd.undecided("%s: counterexample did not reproduce" % n)
            elif r["status"] == "load_error":
                confirmed += 1
                fnd.report("order-dependent-behaviour:" + g, "program %s in order %s: emitted Lua does not load: %s" % (g, n.split("#")[1], r["load_error"]), {"main.sy": r["source"]})
            elif r["status"] in ("engine_error", "template_error", "stuck", "undecided"):
                fnd.undecided("%s: %s %s" % (n, r["status"], str(r.get("why"))[:200]))
        if len(samples) < 4: samples.append({"base": g, "orders": [n.split("#")[1] for n in names][:6], "statuses": sorted(set(sts.values()))})
    nimp = import_orders(art["sylt"], fnd)
    cov = {"programs": agg["programs"], "disagreements_checked": confirmed, "samples": samples, "base_programs": len(groups), "multi_file_orders_compiled": nimp,
           "status_counts": {k: agg.get(k, 0) for k in ("ok", "diff", "rejected", "load_error", "undecided", "stuck", "engine_error", "template_error")},
           "paths_lua": agg["paths_lua"], "cut_paths": agg["cut_paths"], "solver": {k: agg[k] for k in ("queries", "sat", "unsat", "unknown", "solver_s")},
           "functions_encoded": ["emitted chunk + preamble.lua (luasym)", "reference: syltsem/ref.py (globals forced on demand: order independent)"],
           "known_findings_seen": sorted(fnd.seen_known)}
    rc = fnd.finish()
    common.write_evidence("C11", tier, "translation_validation", cov, tvrun.TV_ASSUMPTIONS + ["permutations: all up to %d per base program, else first, last and a seeded sample" % (6 if tier == "quick" else 24), "symbolic part: single-file programs; %d multi-file programs with every order of main.sy's top-level statements (imports included) are compared natively; the partition of a program into files is C12's" % len(IMPORT_ORDER)], time.time() - t0, len(fnd.violations))
    print("C11: %d base programs, %d permutations, %d confirmed, wall %.1fs" % (len(groups), len(templates), confirmed, time.time() - t0))
    return rc
