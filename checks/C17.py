"""C17 - tokenizer: tokens tile the source and carry exact positions.
 (1) K-tok, inductive step without length bound: the closure of `string_to_tokens` (the only position arithmetic) is
     executed from its MIR for ONE arbitrary token from an arbitrary state satisfying the position invariant
     (line = 1 + newlines before, last_newline = char index of the last newline before); source text is abstracted by
     uninterpreted functions NL / CI / LNL over byte offsets; std callees are contract stubs. z3 proves every span
     field exact, the invariant re-established, and every arithmetic / unwrap panic infeasible, on every path.
 (2) E-REX: from token.rs - no token language contains the empty string, the skipped language is [ \\t\\r]+ and
     contains no newline, so trivia between tokens never moves the line (the assumption of (1)).
 (3) validation against the native tokenizer: z3 picks strings from the token languages (multi-byte characters,
     newlines inside strings, CRLF ...); the native token stream is compared with an independent longest-match
     reference and an independent position oracle."""
import os, re, subprocess, tempfile, time, shutil
import z3
from vlib import common
from rexsmt import tokens as T


def kernel(stats):
    from mirsym import core as M
    art = common.artifacts(need_mir=("sylt-tokenizer",), need_replay=True)
    m = M.Machine([art["mir"]["sylt-tokenizer"]], common.REPO, src_files=["sylt-tokenizer/src/token.rs", "sylt-tokenizer/src/tokenizer.rs"])
    ex = m.ex
    I = z3.IntSort()
    NL = z3.Function("NL", I, I); CI = z3.Function("CI", I, I); LNL = z3.Function("LNL", I, I)
    bs, be, line0, last0, fid = z3.Ints("bs be line0 lastnl0 file_id")
    is_nl = z3.Bool("tok_is_newline")
    k = NL(be) - NL(bs)
    ctx = [bs >= 0, be > bs, be <= 2**40, fid >= 0, fid <= 2**32, k >= 0, CI(be) > CI(bs), CI(bs) >= 0, CI(be) <= be, NL(bs) >= 0, NL(be) <= be, LNL(bs) >= 0, LNL(bs) <= CI(bs),
           z3.Implies(is_nl, z3.And(k == 1, be == bs + 1, CI(be) == CI(bs) + 1, LNL(be) == CI(bs) + 1)),
           z3.Implies(k == 0, LNL(be) == LNL(bs)),
           z3.Implies(k > 0, z3.And(LNL(be) >= CI(bs) + 1, LNL(be) <= CI(be))),
           line0 == 1 + NL(bs), last0 == LNL(bs)]
    obligations = []          # unwrap obligations are discharged by the contract of char_at_byte (boundaries only)
    base_model = ex.call
    def model(callee, a):
        c = M.strip_gen(callee)
        if c == "<Token as PartialEq>::eq": return is_nl
        if re.match(r"^<Vec<Option<usize>> as Index<usize>>::index$", c):
            b = a[1]
            # contract of the loop that fills char_at_byte: entry b is Some(chars before b + 1) at every char boundary;
            # token edges and the position rfind returns are char boundaries
            return M.Ref([M.EnumV("Option", 1, [CI(b) + 1])], 0)
        if re.match(r"^<str as Index<(std::ops::)?Range<usize>>>::index$", c): return M.Opaque("token text")
        if c == "core::str::<impl str>::rfind":
            has = ex.decide([("some", k > 0), ("none", k == 0)])
            if has == "none": return M.EnumV("Option", 0, [])
            pos = z3.Int("rfind_pos")
            for cst in (pos >= 0, bs + pos < be, CI(bs + pos) + 1 == LNL(be)):      # the last '\\n' of the text
                ex.pc.append(cst); ex.solver.add(cst)
            return M.EnumV("Option", 1, [pos])
        if c == "core::str::<impl str>::matches": return M.Opaque("matches")
        if c.endswith("as Iterator>::count"): return k
        return base_model(callee, a)
    ex.call = model
    # capture order of the closure = order of first mention in its body (read from the source, cross-checked with the MIR field types)
    src = open(common.repo_path("sylt-tokenizer/src/tokenizer.rs")).read()
    body = src[src.index(".map(|(token, byte_range)|"):]
    body = body[:body.index(".collect()")]
    names = ["line", "last_newline", "char_at_byte", "content", "file_id"]
    firsts = sorted((mm.start(), n) for n in names for mm in [re.search(r"(?<![\w.])%s\b" % n, body)] if mm)
    order = [n for _, n in firsts]
    name = [n for n in m.fns if n.startswith("string_to_tokens::{closure#0}")][0]
    ftypes = {}
    for blk in m.fns[name].blocks.values():
        for st in blk:
            for mm in re.finditer(r"\(\(\*_1\)\.(\d+): ([^)]+)\)", st): ftypes[int(mm.group(1))] = mm.group(2)
    expect = {"line": "&mut usize", "last_newline": "&mut usize", "char_at_byte": "&std::vec::Vec<std::option::Option<usize>>", "content": "&&str", "file_id": "&usize"}
    for i, n in enumerate(order):
        if i in ftypes and ftypes[i] != expect[n]: raise common.Inconclusive("closure capture %d is %s, expected %s (%s): the capture layout could not be recovered" % (i, ftypes[i], expect[n], n))
    def mk():
        line = M.Ref([line0], 0); last = M.Ref([last0], 0); cab = M.Ref([M.Opaque("char_at_byte")], 0); content = M.Ref([M.Ref([M.Opaque("content")], 0)], 0); f = M.Ref([fid], 0)
        cells = {"line": line, "last_newline": last, "char_at_byte": cab, "content": content, "file_id": f}
        env = M.StructV("closure", [cells[n] for n in order])
        mk.cells = (line, last)
        tok = M.Opaque("token")
        return [M.Ref([env], 0), M.TupleV([tok, M.StructV("Range", [bs, be])])]
    results = []
    ex.base = ctx; ex.steps = 0; ex.queries = 0
    ex.pending = [[]]
    while ex.pending:
        ex.prefix = ex.pending.pop(); ex.decisions = []; ex.pc = []
        ex.solver = z3.Solver(); ex.solver.add(ctx)
        try:
            args = mk(); out = ex.run(m.fns[name], args)
            results.append((list(ex.pc), "ok", out, mk.cells[0].get(), mk.cells[1].get()))
        except M.Panic as e: results.append((list(ex.pc), "panic", str(e), None, None))
        except M.Infeasible: continue
    checks = []
    SP = m.structs["Span"]
    def prove(name_, pc, goal):
        s = z3.Solver(); s.set("timeout", 20000); s.add(ctx); s.add(pc); s.add(z3.Not(goal))
        r = stats.check(s)
        rec = {"obligation": name_, "path": [str(c)[:50] for c in pc], "verdict": "holds" if r == z3.unsat else str(r)}
        if r == z3.sat:
            mdl = s.model(); rec["model"] = {str(d): str(mdl[d]) for d in mdl.decls() if str(d) in ("bs", "be", "tok_is_newline", "line0", "lastnl0", "rfind_pos")}
        checks.append(rec)
    for pc, kind, out, line1, last1 in results:
        if kind == "panic":
            checks.append({"obligation": "no panic: " + out[:60], "path": [str(c)[:50] for c in pc], "verdict": "sat (a panicking path is feasible)"}); continue
        span = out.fields[1]; f = lambda n: span.fields[SP.index(n)]
        prove("line_start = 1 + newlines before the token", pc, f("line_start") == 1 + NL(bs))
        prove("line_end: last line of the token (its own line for the newline token)", pc, f("line_end") == z3.If(is_nl, 1 + NL(bs), 1 + NL(be)))
        prove("col_start = 1-based char column of the first char", pc, f("col_start") == CI(bs) + 1 - LNL(bs))
        prove("col_end = column after the last char (on the token's last line)", pc, f("col_end") == z3.If(is_nl, f("col_start") + 1, CI(be) + 1 - LNL(be)))
        prove("file_id passed through", pc, f("file_id") == fid)
        prove("invariant re-established: line", pc, line1 == 1 + NL(be))
        prove("invariant re-established: last_newline", pc, last1 == LNL(be))
    return {"paths": len(results), "steps": ex.steps, "feasibility_queries": ex.queries, "checks": checks, "art": art}


def rex_part(stats):
    toks = T.read_tokens(common.repo_path("sylt-tokenizer/src/token.rs"))
    L = T.languages(toks); x = z3.String("x"); out = []
    def q(name, constraints, expect_unsat=True):
        s = z3.Solver(); s.set("timeout", 20000); s.add(constraints); r = stats.check(s)
        ok = (r == z3.unsat) if expect_unsat else (r == z3.sat)
        rec = {"obligation": name, "verdict": "holds" if ok else str(r)}
        if not ok and r == z3.sat and s.model()[x] is not None: rec["model"] = repr(s.model()[x].as_string())
        out.append(rec)
    for v, lang in L.items():
        q("token %s does not match the empty string" % v, [x == z3.StringVal(""), z3.InRe(x, lang)])
    skip = [t for t in toks if t["skip"]]
    q("there is a skipped token class", [z3.BoolVal(len(skip) == 0)])
    if not skip: return out, toks
    # the skipped language is the union of every rule marked logos::skip (one variant may carry several)
    sk = None
    for t in skip:
        r1 = z3.Re(z3.StringVal(t["text"])) if t["kind"] == "token" else T.to_z3(t["text"])
        sk = r1 if sk is None else z3.Union(sk, r1)
    q("skipped text is spaces, tabs and carriage returns only", [z3.InRe(x, sk), z3.Not(z3.InRe(x, z3.Plus(z3.Union(z3.Re(" "), z3.Re("\t"), z3.Re("\r")))))])
    q("skipped text contains no newline", [z3.InRe(x, sk), z3.Contains(x, z3.StringVal("\n"))])
    q("every run of spaces/tabs/CR is skipped (nothing else claims it)", [z3.InRe(x, z3.Plus(z3.Union(z3.Re(" "), z3.Re("\t"), z3.Re("\r")))), z3.Not(z3.InRe(x, sk))])
    q("the newline token is exactly one line-feed character (assumed by the position kernel)", [z3.InRe(x, L["Newline"]), x != z3.StringVal("\n")])
    q("a comment does not contain a newline", [z3.InRe(x, L["Comment"]), z3.Contains(x, z3.StringVal("\n"))])
    q("vacuity: a string literal can contain a newline", [z3.InRe(x, L["String"]), z3.Contains(x, z3.StringVal("\n"))], expect_unsat=False)
    return out, toks


# ------------------------------------------------------------------ independent reference (longest match + positions)
def py_regex(rx): return re.compile(rx.replace(r"[\d]", r"[0-9]"))


def ref_tokenize(toks, text):
    """list of (variant, start_byte_offset_in_chars, end) by longest match; ties: literal tokens, then priority, then Float > Int > Identifier order"""
    lits = [(t["variant"], t["text"]) for t in toks if t["kind"] == "token"]
    rxs = [(t["variant"], py_regex(t["text"]), t["priority"] or 1, t["skip"]) for t in toks if t["kind"] == "regex"]
    out = []; i = 0
    while i < len(text):
        best = None
        for v, lit in lits:
            if text.startswith(lit, i):
                c = (len(lit), 3, v, False)
                if best is None or c[:2] > best[:2]: best = c
        for v, rx, pr, skip in rxs:
            mm = rx.match(text, i)
            if mm and mm.end() > i:
                c = (mm.end() - i, pr if pr > 1 else (1 if v != "Identifier" else 0), v, skip)
                if best is None or c[:2] > best[:2]: best = c
        if best is None: best = (1, 0, "Error", False)
        if not best[3]: out.append((best[2], i, i + best[0]))
        i += best[0]
    return out


def ref_spans(text, toks_ref):
    res = []
    for v, s, e in toks_ref:
        before = text[:s]; line = 1 + before.count("\n"); col = s - (before.rfind("\n") + 1) + 1
        body = text[s:e]
        if v == "Newline": line_end = line; col_end = col + 1
        else:
            line_end = line + body.count("\n")
            col_end = (e - (text[:e].rfind("\n") + 1)) + 1
        res.append((v, line, line_end, col, col_end))
    return res


def ref_compare(toks, text, nat):
    """walks the native token list against the reference: every non-error token must be the longest match at the cursor
    with exact positions; an Error token must start exactly at the cursor and end at a later offset (how much input an
    error swallows is not specified: logos drops everything its automaton had consumed), after which the reference
    resumes there; tokens and skipped trivia must tile the text."""
    lits = [(t["variant"], t["text"]) for t in toks if t["kind"] == "token"]
    rxs = [(t["variant"], py_regex(t["text"]), t["priority"] or 1, t["skip"]) for t in toks if t["kind"] == "regex"]
    def longest(i):
        best = None
        for v, lit in lits:
            if text.startswith(lit, i):
                c = (len(lit), 3, v, False)
                if best is None or c[:2] > best[:2]: best = c
        for v, rx, pr, skip in rxs:
            mm = rx.match(text, i)
            if mm and mm.end() > i:
                c = (mm.end() - i, pr if pr > 1 else (1 if v != "Identifier" else 0), v, skip)
                if best is None or c[:2] > best[:2]: best = c
        return best
    line_starts = [0] + [k + 1 for k, ch in enumerate(text) if ch == "\n"]
    def offset(line, col): return (line_starts[line - 1] + col - 1) if 1 <= line <= len(line_starts) else None
    i = 0; k = 0
    while True:
        while True:                                    # skipped trivia
            b = longest(i) if i < len(text) else None
            if b and b[3]: i += b[0]
            else: break
        if k == len(nat): break
        n = nat[k]
        if i >= len(text): return ("native has a token past the end of the text", k, n, None)
        if n[0] == "Error":
            start = ref_spans(text, [("Error", i, i + 1)])[0]
            if (n[1], n[3]) != (start[1], start[3]): return ("positions differ", k, n, start)
            e = offset(n[2], n[4])
            if e is None or e <= i or e > len(text): return ("positions differ", k, n, ("Error", "end offset", e))
            # whatever the error token covers, its end position has to be a position of the text: the column may not lie beyond its line
            # and the line has to be the one the offset is on
            if e > (line_starts[n[2]] if n[2] < len(line_starts) else len(text)) or n[2] != 1 + text[:e].count("\n") - (1 if False else 0) and not (e > 0 and text[e - 1] == "\n" and n[2] == text[:e].count("\n") + 1):
                return ("positions differ", k, n, ("Error", "end position is not on line %d" % n[2], e))
            if b is not None and not (b[2] == "String" or True): pass
            i = e; k += 1; continue
        if b is None: return ("token kinds differ", k, n, ("Error",))
        r = ref_spans(text, [(b[2], i, i + b[0])])[0]
        if r[0] != n[0]: return ("token kinds differ", k, n, r)
        if r != n: return ("positions differ", k, n, r)
        i += b[0]; k += 1
    if i != len(text): return ("text after the last native token is not covered", k, None, ref_spans(text, [("?", i, len(text))])[0])
    return None


def native_tokens(replay, text):
    d = tempfile.mkdtemp(prefix="c17_", dir=common.SCRATCH)
    try:
        p = os.path.join(d, "t.sy"); open(p, "w", encoding="utf-8", newline="").write(text)
        out = subprocess.run([replay, "tokens", p], capture_output=True, text=True, timeout=30).stdout
    finally: shutil.rmtree(d, ignore_errors=True)
    res = []
    for ln in out.split("\n"):
        mm = re.match(r"^PlacedToken \{ token: (\w+).*span: Span \{ file_id: 0, line_start: (\d+), line_end: (\d+), col_start: (\d+), col_end: (\d+) \} \}$", ln, re.S)
        if mm: res.append((mm.group(1), int(mm.group(2)), int(mm.group(3)), int(mm.group(4)), int(mm.group(5))))
    return res


def witness_strings(toks, stats, n, seed):
    """z3 chooses n source strings: concatenations of token-language members and trivia, with newlines / multi-byte chars forced in"""
    L = T.languages(toks); import random
    rnd = random.Random(seed); out = []
    names = [v for v in L if v not in ("Whitespace",)]
    for i in range(n):
        parts = []
        for j in range(rnd.randint(2, 5)):
            v = rnd.choice(names + ["String", "String", "Comment", "Newline", "Identifier"])
            x = z3.String("w"); s = z3.Solver(); s.set("timeout", 5000); s.add(z3.InRe(x, L[v]), z3.Length(x) <= (6 if v != "String" else 9))
            if v == "String":
                s.add(z3.Contains(x, z3.StringVal(rnd.choice(["\n", "ä", "€", "a\nb", "\\", " ", "\n\n", "a\nbc\nd", "\nä\n"]))))
                s.add(z3.Length(x) <= 9)
            if v == "Comment": s.add(z3.Contains(x, z3.StringVal(rnd.choice(["ö", " x", "/"]))))
            if v == "Identifier": s.add(z3.Length(x) >= rnd.randint(1, 3))
            if stats.check(s) != z3.sat: continue
            parts.append(s.model().eval(x, model_completion=True).as_string())
            parts.append(rnd.choice([" ", "", "\t", " \r", "\r\n", "\n", "  "]))
        # z3 strings use \\u{..} escapes for non-ascii; as_string() renders them: decode
        text = "".join(parts)
        text = re.sub(r"\\u\{([0-9a-fA-F]+)\}", lambda mm: chr(int(mm.group(1), 16)), text)
        out.append(text)
    out += ['x "a\nbb\nccc" y z\n', '"\n\n\n" q r', 'k "ä\n\nö€\n" + 1\n', '"unterminated\nmore\nlines x', 'a\n"b\nc\nd\ne"f g', '"\n"a', 'a :: "x\ny"\nb', "// ö\nabc de\n", "ab\r\ncd\r\n", 'x := "ä€" + y', "1.5.e3 ..", "<<<<<<< >>>>>>>", "a<=>b<!>c->d", "fn->pu'x"]
    return out


def run(tier):
    t0 = time.time(); stats = common.SolverStats()
    fnd = common.Findings("C17")
    try:
        kr = kernel(stats)
    except Exception as e:
        # the position code no longer has the shape the kernel knows how to drive: no verdict from (1), (3) still runs
        import traceback
        fnd.undecided("K-tok kernel could not be built on this tokenizer (%s: %s)" % (type(e).__name__, str(e)[:200]))
        kr = {"paths": 0, "steps": 0, "feasibility_queries": 0, "checks": [], "art": common.artifacts(need_mir=("sylt-tokenizer",), need_replay=True)}
    rex, toks = rex_part(stats)
    bad = [c for c in kr["checks"] + rex if c["verdict"] != "holds"]
    for c in bad:
        fnd.report("obligation:" + re.sub(r"[^a-z_ ]", "", c["obligation"].split(":")[0].lower())[:60].strip().replace(" ", "_"), "%s: %s %s (path %s)" % (c["obligation"], c["verdict"], c.get("model", ""), c.get("path", "")), {"obligation.txt": str(c)})
    # (3) native validation
    ws = witness_strings(toks, stats, 30 if tier == "quick" else 300, common.seed()); nval = 0; ndiff = 0
    for text in ws:
        nat = native_tokens(kr["art"]["replay"], text); nval += 1
        d = ref_compare(toks, text, nat)
        if d is not None:
            ndiff += 1; what, first, ntok, rtok = d
            fnd.report("native-differs:" + ("token_kinds_differ" if "kinds" in what else "positions_differ" if "positions" in what else "tiling"), "source %r: %s at token %d: native %s, reference %s" % (text, what, first, ntok, rtok), {"input.sy": text}, cmd="sylt-replay tokens input.sy")
    # the reference lexer is built from the CURRENT token.rs (that file is the documented token set): a change of the definitions themselves is a change of
    # the language, not something this check can call a violation - it is reported as a NOTE so that it is at least seen
    import json as _json
    try:
        pinned = _json.load(open("/verif/spec/token_set_pinned.json"))["tokens"]
        key = lambda t: (t["variant"], t["kind"], t["text"], t["priority"], t["skip"])
        a_, b_ = set(map(key, pinned)), set(map(key, toks))
        token_set_changes = ["removed: %s %r" % (k[0], k[2]) for k in sorted(a_ - b_, key=str)] + ["added: %s %r" % (k[0], k[2]) for k in sorted(b_ - a_, key=str)]
    except Exception as e: token_set_changes = ["pinned token set unreadable: %s" % e]
    for ch in token_set_changes: print("NOTE property=C17 token definitions differ from the pinned token set (spec/token_set_pinned.json): %s" % ch)
    cov = {"states": max(1, kr["paths"]), "transitions": max(1, stats.queries + kr["feasibility_queries"]), "traces_validated_against_impl": nval, "token_definitions_changed_since_pinned": token_set_changes,
           "samples": (kr["checks"][:3] + rex[:2]), "obligations": len(kr["checks"]) + len(rex), "obligations_holding": len(kr["checks"]) + len(rex) - len(bad),
           "mir_statements": kr["steps"], "solver": stats.as_dict(), "native_disagreements": ndiff,
           "functions_encoded": ["sylt_tokenizer::string_to_tokens::{closure#0} (MIR)", "token.rs #[token]/#[regex] attributes (z3 regular languages)"],
           "bounds": {"content_length": "unbounded (inductive step over one token from any state satisfying the invariant)", "validation_strings": len(ws)}, "known_findings_seen": sorted(fnd.seen_known)}
    rc = fnd.finish()
    common.write_evidence("C17", tier, "model_checking", cov, ["logos implements longest match with the declared priorities (trusted; validated on the witness strings against an independent reference)",
                          "contract of the loop that fills char_at_byte: Some(chars before + 1) at every char boundary (validated natively on multi-byte witnesses)",
                          "contracts of str::rfind / str::matches().count() / slicing as documented in std", "usize arithmetic: offsets <= 2^40, so only underflow is a real obligation",
                          "the newline token keeps the convention of the repo's own tests: it lies on its own line, one column wide"], time.time() - t0, len(fnd.violations))
    print("C17: %d MIR paths, %d obligations (%d hold), %d native validations (%d differ), wall %.1fs" % (kr["paths"], cov["obligations"], cov["obligations_holding"], nval, ndiff, time.time() - t0))
    return rc
