"""Type perturbations of well-typed templates (C02/C03 families): small edits that make a program ill typed or
push a use out of its scope. The compiler should reject them; the ones it accepts are executed symbolically and
must not reach a dynamic type error."""
import random
from syltsem import ast as A

EXPR_TAGS = {"int", "float", "str", "bool", "nil", "hole", "var", "bin", "assert_eq", "neg", "not", "call", "tuple", "list", "index", "field", "blob",
             "variant", "fn", "if", "case", "paren"}
LITS = [("int", 7), ("str", "zz"), ("bool", True), ("nil",), ("float", 1.5), ("tuple", [("int", 1), ("int", 2)]), ("list", [("int", 1)])]


def nodes(t, path=()):
    """yield (path, node) for every expression node"""
    if isinstance(t, tuple):
        if t and isinstance(t[0], str) and t[0] in EXPR_TAGS and len(path) > 0: yield path, t
        for i, x in enumerate(t):
            if i == 0 and isinstance(x, str): continue
            if i == 1 and t and t[0] == "assign": continue          # assignment targets stay assignable
            yield from nodes(x, path + (i,))
    elif isinstance(t, list):
        for i, x in enumerate(t): yield from nodes(x, path + (i,))


def replace(t, path, new):
    if not path: return new
    i = path[0]
    if isinstance(t, tuple): return t[:i] + (replace(t[i], path[1:], new),) + t[i + 1:]
    l = list(t); l[i] = replace(t[i], path[1:], new); return l


def stmt_lists(t, path=()):
    """yield (path, list) for every statement list"""
    if isinstance(t, list):
        if t and all(isinstance(x, tuple) and x and isinstance(x[0], str) and x[0] in ("def", "assign", "expr", "loop", "break", "continue", "ret", "unreachable", "block") for x in t):
            yield path, t
        for i, x in enumerate(t): yield from stmt_lists(x, path + (i,))
    elif isinstance(t, tuple):
        for i, x in enumerate(t):
            if i == 0 and isinstance(x, str): continue
            yield from stmt_lists(x, path + (i,))


def declared_in(stmts):
    out = []
    for s in stmts:
        if s[0] == "def" and s[4][0] != "fn": out.append(s[1])
    return out


def perturb_once(prog, rnd):
    """returns (new program, description) or None"""
    k = rnd.random()
    ns = list(nodes(prog))
    if not ns: return None
    if k < 0.30:
        # literal / expression -> literal of another type
        path, n = rnd.choice(ns)
        lit = rnd.choice([l for l in LITS if l[0] != n[0]])
        if n[0] == "fn": return None
        return replace(prog, path, lit), "expr %s -> literal %s" % (n[0], lit[0])
    if k < 0.45:
        bins = [(p, n) for p, n in ns if n[0] == "bin"]
        if not bins: return None
        path, n = rnd.choice(bins)
        classes = [["+", "-", "*"], ["<", "<=", ">", ">="], ["==", "!="], ["and", "or"]]
        other = [o for c in classes if n[1] not in c for o in c]
        op = rnd.choice(other)
        return replace(prog, path, ("bin", op, n[2], n[3])), "operator %s -> %s" % (n[1], op)
    if k < 0.55:
        path, n = rnd.choice(ns)
        if n[0] == "fn": return None
        w = rnd.choice(["neg", "not"])
        return replace(prog, path, (w, n)), "wrap in " + w
    if k < 0.65:
        ifs = [(p, n) for p, n in ns if n[0] == "if" and len(n[1]) > 1 and n[1][-1][0] is None]
        if not ifs: return None
        path, n = rnd.choice(ifs)
        return replace(prog, path, ("if", n[1][:-1])), "drop else branch"
    if k < 0.75:
        calls = [(p, n) for p, n in ns if n[0] == "call" and n[1] != ("var", "print")]
        if not calls: return None
        path, n = rnd.choice(calls)
        if rnd.random() < 0.5 and n[2]: new = ("call", n[1], n[2][:-1]); d = "drop last argument"
        elif rnd.random() < 0.5: new = ("call", n[1], n[2] + [rnd.choice(LITS)]); d = "extra argument"
        else: new = ("call", rnd.choice(LITS[:3]), n[2]); d = "call of a non-function"
        return replace(prog, path, new), d
    if k < 0.9:
        # use a block-local variable after its block
        sls = list(stmt_lists(prog))
        rnd.shuffle(sls)
        for path, sl in sls:
            for i, s in enumerate(sl):
                inner = None
                if s[0] == "expr" and s[1][0] == "if":
                    for c, body in s[1][1]:
                        ds = declared_in(body)
                        if ds: inner = ds
                elif s[0] == "block": inner = declared_in(s[1]) or None
                elif s[0] == "loop": inner = [d for d in declared_in(s[2])] or None
                if inner:
                    v = rnd.choice(inner)
                    new = sl[:i + 1] + [A.pr(A.V(v))] + sl[i + 1:]
                    return replace(prog, path, new), "use of %s after its block" % v
        return None
    # ret without value in a function that returns a value
    rets = [(p, sl) for p, sl in stmt_lists(prog) if any(s[0] == "ret" and s[1] is not None for s in sl)]
    if not rets: return None
    path, sl = rnd.choice(rets)
    i = rnd.choice([j for j, s in enumerate(sl) if s[0] == "ret" and s[1] is not None])
    new = sl[:i] + [("ret", None)] + sl[i + 1:] if rnd.random() < 0.5 else sl[:i] + sl[i + 1:]
    if not new: return None
    return replace(prog, path, new), "value-less ret / dropped ret"


def perturbations(prog, rnd, n, maxk=2):
    out = []
    tries = 0
    while len(out) < n and tries < n * 6:
        tries += 1
        p = prog; descs = []
        for _ in range(rnd.randint(1, maxk)):
            r = perturb_once(p, rnd)
            if r is None: continue
            p, d = r; descs.append(d)
        if not descs: continue
        try: text = A.to_text(p)
        except Exception: continue
        out.append((text, "; ".join(descs)))
    return out
