"""C14 - call/return sugar and layout never change meaning.
 (A) K-sugar: in well- and ill-typed templates every call / return / loop site is a z3 choice between its surface forms
     (`f(a, b)` | `f' a, b` | `a -> f(b)` | `a -> f' b`; `ret e` | trailing `e`; `loop do` | `loop true do`; `e` | `(e)`),
     each form parsed by the real parser (natively), and the other symbolic positions (literal kinds) are shared between
     the forms. Resolver, dependency order, type checker and IR lowering run from MIR. For every pair of explored paths
     with different outcomes (accepted/rejected/IR) the query  pc_p AND pc_q[sugar selectors renamed]  must be unsat:
     there is no assignment of the shared positions for which the choice of surface form changes the result.
 (B) K-layout: the real parser (`module`, from MIR) runs on the token vector of a program in which every layout site
     (every token boundary inside brackets; before and after every statement-ending newline) carries a filler token
     whose kind is a z3 variable over {Comment, Newline}; all explored paths must be accepted and give the same AST
     modulo spans and attached comments, and the same AST as the token vector without fillers.
 (C) native: counterexamples are rendered to text and confirmed on the binary (acceptance, emitted bytes modulo the line
     number inside `<!>` messages); for every template the plain and the fully sugared / laid-out spelling are compared."""
import multiprocessing as mp, os, random, re, time, traceback
import z3
from vlib import common

HEAD = '''add :: fn a: int, b: int -> int do
    ret a + b
end
inc :: fn a: int -> int do
    ret a + 1
end
cat :: fn a: str, b: str -> str do
    ret a + b
end
'''
SUGAR = {
"call_forms": HEAD + '''start :: fn do
    x := __ealts1(add(1, 2), (add' 1, 2), 1 -> add(2), 1 -> add' 2)
    pr(x)
    pr(__ealts2(add(x, __lit1), (add' x, __lit1), x -> add(__lit1), (x) -> add(__lit1)))
end
''',
"call_forms_around_a_function_literal_in_a_blob_field": HEAD + '''Inner :: blob {
    n: int,
    get: fn -> int,
}
Outer :: blob {
    n: int,
    make: fn -> int,
}
wrap :: fn f: fn -> int -> fn -> int do
    ret f
end
start :: fn do
    o := Outer { n: 1, make: fn -> int do
        i := Inner { n: 2, get: __ealts1(wrap(fn -> int do ret self.n end), (wrap' fn -> int do ret self.n end), (fn -> int do ret self.n end) -> wrap(), wrap((fn -> int do ret self.n end))) }
        ret i.get()
    end }
    pr(o.make())
end
''',
"nested_calls": HEAD + '''start :: fn do
    z := __ealts1(add(add(1, 2), inc(3)), (add' add(1, 2), inc(3)), add(1, 2) -> add(inc(3)), (add' 1, 2) -> add(inc' 3), add(1, 2) -> add(3 -> inc()))
    w := __ealts2(inc(inc(z)), z -> inc() -> inc(), inc(z) -> inc(), (inc' inc(z)), (inc' (inc' z)))
    pr(w)
end
''',
"arrow_in_operator_context": HEAD + '''start :: fn do
    a := __ealts1(add(1, 2) + 1, 1 -> add(2) + 1, (1 -> add(2)) + 1, 1 -> (add(2)) + 1)
    b := __ealts2(inc(add(a, 2)) * 2 - 1, a -> add(2) -> inc() * 2 - 1, (a -> add(2)) -> inc() * 2 - 1)
    pr(b)
end
''',
"arrow_in_comparison": HEAD + '''start :: fn do
    b := 2
    pr(__ealts3(add(b, __lit1) == 3, b -> add(__lit1) == 3, (b -> add(__lit1)) == 3))
    pr(__ealts4(3 < add(b, 1) and true, 3 < b -> add(1) and true))
end
''',
"local_recursive_function_in_parentheses": HEAD + '''start :: fn do
    fac :: __ealts1(fn n: int -> int do
        if n < 1 do
            ret 1
        end
        ret n * fac(n - 1)
    end, (fn n: int -> int do
        if n < 1 do
            ret 1
        end
        ret n * fac(n - 1)
    end))
    pr(fac(3))
    pr(__ealts2((fn g: fn int -> int, y: int -> int do ret g(y) end)((fn q: int -> int do ret q + 1 end), 2), (fn q: int -> int do ret q + 1 end) -> (fn g: fn int -> int, y: int -> int do ret g(y) end)(2)))
end
''',
"nested_calls_str": HEAD + '''start :: fn do
    pr(__ealts3(cat(cat("a", "b"), __lit1), "a" -> cat("b") -> cat(__lit1), (cat' (cat' "a", "b"), __lit1)))
end
''',
"ret_forms": HEAD + '''f :: __ealts1(fn a: int -> int do ret add(a, 1) end, fn a: int -> int do add(a, 1) end)
g :: __ealts2(fn a: int -> str do
    if a > 0 do
        ret "p"
    end
    ret __lit1
end, fn a: int -> str do
    if a > 0 do
        ret "p"
    end
    __lit1
end)
start :: fn do
    pr(f(1))
    pr(g(1))
end
''',
"ret_of_if_expression": HEAD + '''h :: __ealts1(fn a: int -> int do
    ret if a > 0 do
        ret __lit1
    else do
        2
    end
end, fn a: int -> int do
    if a > 0 do
        ret __lit1
    else do
        2
    end
end)
k :: __ealts2(fn a: int -> int do
    b := a + 1
    ret if b > 2 do __lit1 else 0 end
end, fn a: int -> int do
    b := a + 1
    if b > 2 do __lit1 else 0 end
end)
start :: fn do
    pr(h(1))
    pr(k(1))
end
''',
"ret_in_case_branch": HEAD + '''En :: enum
    A int,
    B,
end
c :: __ealts1(fn e: En -> int do
    ret case e do
        A v -> ret __lit1 end
        else 0 end
    end
end, fn e: En -> int do
    case e do
        A v -> ret __lit1 end
        else 0 end
    end
end)
start :: fn do
    pr(c(En.A 1))
end
''',
"closure_calls": HEAD + '''ap :: fn f: fn int -> int, v: int -> int do
    ret __ealts1(f(v), (f' v), v -> f())
end
start :: fn do
    q := __ealts2(fn v: int -> int do ret v * 2 end, fn v: int -> int do v * 2 end)
    pr(__ealts3(ap(q, 3), (ap' q, 3), q -> ap(3)))
end
''',
"lambda_bodies": HEAD + '''ap :: fn f: fn int -> int, v: int -> int do
    ret f(v)
end
start :: fn do
    pr(ap(__ealts4(fn v: int -> int do ret inc(v) end, fn v: int -> int do inc(v) end, fn v: int -> int do v -> inc() end, fn v: int -> int do ret (inc' v) end), __lit1))
end
''',
"loop_forms": HEAD + '''start :: fn do
    i := 0
    __alts1(fn do
        loop do
            i += 1
            if i > 3 do
                break
            end
        end
    end, fn do
        loop true do
            i += 1
            if i > 3 do
                break
            end
        end
    end, fn do
        loop (true) do
            i += 1
            if (i > 3) do
                break
            end
        end
    end)
    pr(i)
end
''',
"parens_arith": HEAD + '''start :: fn do
    a := __ealts1(1 + 2 * 3, 1 + (2 * 3), (1 + 2 * 3), ((1) + ((2) * (3))))
    b := __ealts2(add(a, 1) + 2, (add(a, 1)) + 2, (add((a), (1)) + 2))
    pr(b)
end
''',
"parens_tuple": HEAD + '''start :: fn do
    a := 1
    t := __ealts3((a, __lit1), ((a), (__lit1)), ((a, __lit1)))
    pr(__ealts4(t[0], (t)[0], (t[0])))
end
''',
}
SUGAR_THOROUGH = {
"all_call_forms_combined": HEAD + '''start :: fn do
    x := __ealts1(add(1, 2), (add' 1, 2), 1 -> add(2), 1 -> add' 2)
    z := __ealts2(add(add(x, 2), inc(3)), (add' add(x, 2), inc(3)), add(x, 2) -> add(inc(3)), (add' x, 2) -> add(inc' 3), add(x, 2) -> add(3 -> inc()))
    w := __ealts3(inc(inc(z)), z -> inc() -> inc(), inc(z) -> inc(), (inc' inc(z)), (inc' (inc' z)))
    pr(w)
end
''',
"call_forms_with_symbolic_argument_kind": HEAD + '''start :: fn do
    w := __ealts1(inc(2), 2 -> inc(), (inc' 2))
    pr(__ealts4(add(w, __lit1), (add' w, __lit1), w -> add(__lit1), w -> add' __lit1))
    pr(__ealts5(cat("a", __lit2), "a" -> cat(__lit2), (cat' "a", __lit2)))
end
''',
}

LAYOUT = {
"call": "x :: f(1, 2)\n",
"list": "l :: [1, 2, 3]\n",
"tuple": "t :: (1, \"a\")\n",
"blob_instance": "p :: P { a: 1, b: [2] }\n",
"assignment_target_with_brackets": "start :: fn do\n    at(1, 2).value = 3\n    at(x, [4]).value += f(5, 6)\n    q.w[0].v -= (1 + 2)\nend\n",
"one_tuple_and_trailing_commas": "t :: (42,)\nu :: ((1,), 2)\nw :: (1, 2,)\n",
"empty_tuple_and_grouping": "e :: ()\ng :: (42)\nh :: ((1 + 2), (3))\n",
"trailing_commas_in_list_and_call": "l :: [1, 2,]\nx :: f(1, 2,)\n",
"nested_call_arrow_parens": "y :: f(x -> f(1), (2 + 3) * 4)\n",
"prime_inside_brackets": "y :: g(f' 1, 2)\nz :: [f' 1]\n",
"prime_call_continuation": "x := add' 1,\n    2\ny := 3\n",
"blob_declaration": "P :: blob {\n    a: int,\n    b: [int],\n}\n",
"fn_signature_types": "f :: fn a: int, b: (int, str) -> [int] do\n    ret [a]\nend\n",
"type_arguments": "x: P(int, [str]) = p\ny: fn int, (int, str) -> P(int) = q\n",
"fn_block_inside_call": "q :: f(fn do\n    x\nend, 2)\n",
"index_and_access": "z :: l[0] + (t)[1]\n",
"statements": "start :: fn do\n    i := 0\n    i = 1\n    pr(i)\nend\n",
"loops": "start :: fn do\n    loop do\n        break\n    end\n    i = 1\n    loop i < 3 do\n        i += 1\n    end\nend\n",
"if_else": "g :: fn a: int -> int do\n    if a > 0 do\n        ret 1\n    else do\n        ret 2\n    end\nend\n",
"enum_and_case": "En :: enum\n    A int,\n    B,\nend\nq :: fn e: En -> int do\n    case e do\n        A v -> ret v end\n        else ret 0 end\n    end\nend\n",
"do_block_and_top_level": "a :: 1\nb := 2\nstart :: fn do\n    do\n        pr(a)\n    end\nend\n",
}
_CTX = {}


# ------------------------------------------------------------------ (A) K-sugar
def sugar_work(job):
    name, text = job
    try:
        from mirsym import ktc, macros as X
        k = _CTX.get("k")
        if k is None: k = _CTX["k"] = ktc.Kernel()
        t0 = time.time()
        # sugar selectors are spelled __ealts<k> / __alts<k> so that they can be told from the shared ones
        r = k.explore(text, with_ir=True, lit_kinds=["int", "float", "str", "bool"])
        if "error" in r: return {"name": name, "status": "template_error", "why": r["error"]}
        S = r["sels"]; sugar = [n for n in S if re.match(r"^(ealt|alt)s", n)]; shared = [n for n in S if n not in sugar]
        outs = []
        for pc, (kind, out) in r["paths"]:
            if kind != "ok": o = "panic:" + str(out)[:80]
            elif not out["accepted"]: o = "rejected"
            else: o = "ir:" + repr(out["ir"])
            outs.append((pc, o))
        ren = [(S[n][0], z3.Int("other_" + n)) for n in sugar]
        bad = []; nq = 0; accepted = sum(1 for _, o in outs if o.startswith("ir:"))
        for i in range(len(outs)):
            for j in range(i + 1, len(outs)):
                if outs[i][1] == outs[j][1]: continue
                s = z3.Solver(); s.set("timeout", 10000); s.add(r["base"]); s.add(outs[i][0])
                for c in outs[j][0] + r["base"]: s.add(z3.substitute(c, *ren))
                nq += 1; res = s.check()
                if res == z3.sat:
                    mdl = s.model()
                    a = ktc.model_assignment(mdl, S); b = dict(a)
                    for n in sugar: b[n] = S[n][1][mdl.eval(z3.Int("other_" + n), model_completion=True).as_long()]
                    bad.append({"a": a, "b": b, "out_a": outs[i][1][:60], "out_b": outs[j][1][:60], "text_a": X.render_concrete(ktc.PRELUDE + fix(text), unfix(a)), "text_b": X.render_concrete(ktc.PRELUDE + fix(text), unfix(b))})
                elif res != z3.unsat: bad.append({"unknown": True})
        return {"name": name, "status": "ok", "paths": len(outs), "accepted": accepted, "sugar_sites": len(sugar), "shared": len(shared), "bad": bad[:6], "queries": nq + r["queries"], "steps": r["steps"], "wall_s": time.time() - t0}
    except Exception as e:
        return {"name": name, "status": "engine_error", "why": "%s: %s %s" % (type(e).__name__, str(e)[:300], traceback.format_exc()[-600:])}


def fix(text): return text          # macro names are used as written (render_concrete keys: 'ealts1', 'alts1')
def unfix(a): return a


# ------------------------------------------------------------------ (B) K-layout
def layout_sites(toks):
    """indices i such that a filler may be inserted BEFORE toks[i]; kind 'in' (inside brackets), 'pre' (before a statement-ending
    newline), 'post' (after one: the filler is followed by an extra Newline)"""
    sites = []; stack = []
    OPEN = {"LeftParen": "RightParen", "LeftBracket": "RightBracket", "LeftBrace": "RightBrace"}
    BLOCK_OPEN = ("Do", "Enum"); prev = None
    for i, (k, v) in enumerate(toks):
        inside = bool(stack) and stack[-1] in OPEN
        if k in OPEN.values() or k == "End":
            if inside and prev not in OPEN: sites.append((i, "in"))
            if stack: stack.pop()
        elif inside and prev is not None: sites.append((i, "in"))
        elif k == "Newline" and not inside and prev not in (None, "Newline"): sites.append((i, "pre"))
        if prev == "Newline" and not inside and k not in ("EOF",) and not (stack and stack[-1] in OPEN): sites.append((i, "post"))
        if k in OPEN or k in BLOCK_OPEN: stack.append(k)
        prev = k
    return sites


def strip(M, v):
    if isinstance(v, M.StructV):
        if v.ty == "Span": return "S"
        fs = [strip(M, x) for x in v.fields]
        if v.ty == "Statement" and len(fs) == 3: fs = fs[:2]
        return (v.ty, fs)
    if isinstance(v, M.EnumV): return (v.ty, v.disc, [strip(M, x) for x in v.fields])
    if isinstance(v, (M.TupleV, M.BoxV)): return [strip(M, x) for x in v.fields]
    if isinstance(v, M.VecV):
        # blank lines parse to EmptyStatement, which the resolver drops (name_resolution.rs `SK::EmptyStatement => None`)
        return [strip(M, x) for x in v.items if not (isinstance(x, M.StructV) and x.ty == "Statement" and isinstance(x.fields[1], M.EnumV) and x.fields[1].disc == _CTX.get("empty"))]
    if isinstance(v, M.Ref): return strip(M, v.get())
    if isinstance(v, M.MapV): return ("map", sorted((repr(strip(M, k)), repr(strip(M, val))) for k, val in v.d.values()))
    if isinstance(v, M.SetV): return ("set", sorted(repr(strip(M, x)) for x in v.items))
    return v


def layout_work(job):
    name, text, window = job
    try:
        from mirsym import core as M
        from checks import C07
        m = C07.parser_machine(); T = m.enums["Token"]; art = C07._CTX["art"]
        _CTX["empty"] = M.QENUMS[("sylt_parser", "StatementKind")].index("EmptyStatement")
        toks = [t for t in C07.native_tokens_of(art["replay"], text)]
        sites = layout_sites(toks); chosen = dict((i, kind) for i, kind in window)
        iC, iN = T.index("Comment"), T.index("Newline")
        sel = {}; base = []
        def payload(k, v):
            if v is None: return []
            if k in ("Identifier", "String", "Comment"): return [v.strip('"')]
            if k == "Int": return [int(v)]
            if k == "Float": return [float(v)]
            if k == "Bool": return [v == "true"]
            return [v]
        def mk(with_fillers=True):
            out = []
            def put(tok): out.append(M.StructV("PlacedToken", [tok, M.StructV("Span", [0, len(out) + 1, len(out) + 1, 1, 2])]))
            for i, (k, v) in enumerate(toks):
                if with_fillers and i in chosen:
                    for kind in chosen[i]:
                        d = z3.Int("fill_%d_%s" % (i, kind)); sel[(i, kind)] = d
                        put(M.EnumV("Token", d, ["c"]))
                        if kind == "post": put(M.EnumV("Token", iN, []))
                put(M.EnumV("Token", T.index(k), payload(k, v)))
            return [M.Ref([M.EnumV("FileOrLib", 0, ["main.sy"])], 0), 0, M.Opaque("root"), out]
        mk(); base = [z3.Or(d == iC, d == iN) for d in sel.values()]
        t0 = time.time()
        ref = m.explore("module", lambda: mk(False), [])
        (pc0, (k0, v0)), = ref
        if k0 != "ok" or v0.fields[1].disc != 0: return {"name": name, "status": "template_error", "why": "the template without fillers is not accepted by the parser kernel: %s" % str(v0)[:200]}
        want = repr(strip(M, v0.fields[1].fields[0]))
        res = m.explore("module", mk, base)
        bad = []
        for pc, (k, v) in res:
            verdict = None
            if k != "ok": verdict = "panic: " + str(v)[:100]
            elif v.fields[1].disc != 0: verdict = "rejected"
            elif repr(strip(M, v.fields[1].fields[0])) != want: verdict = "different AST"
            if verdict:
                s = z3.Solver(); s.add(base); s.add(pc); s.check(); mdl = s.model()
                fills = {"%d:%s" % key: ("comment" if mdl.eval(d, model_completion=True).as_long() == iC else "newline") for key, d in sel.items()}
                bad.append({"verdict": verdict, "fills": fills, "text": render_layout(text, toks, chosen, fills)})
        return {"name": name, "status": "ok", "paths": len(res), "sites": len(sel), "bad": bad[:6], "steps": m.ex.steps, "queries": m.ex.queries, "wall_s": time.time() - t0}
    except Exception as e:
        return {"name": name, "status": "engine_error", "why": "%s: %s %s" % (type(e).__name__, str(e)[:300], traceback.format_exc()[-600:])}


def token_src(k, v):
    from checks import C07
    if k == "Identifier": return v.strip('"')
    if k == "String": return v
    if k in ("Int", "Float", "Bool"): return v
    if k == "Newline": return "\n"
    return C07.token_text(k)


def render_layout(text, toks, chosen, fills, indent=None):
    """token vector + fillers -> source text (tokens separated by one blank; fillers as `// c` + newline or a bare newline)"""
    out = ""
    for i, (k, v) in enumerate(toks):
        if k == "EOF": break
        for kind in chosen.get(i, ()):
            f = fills.get("%d:%s" % (i, kind), "comment")
            # a Comment token ends at the end of its line; inside brackets and before a newline the following line break is part of the rendering
            if f == "comment": out += " // c" + ("\n" if kind != "pre" else "")
            else: out += "\n"
            if kind == "post" and f == "newline": out += "\n"
            elif kind == "post": pass
        s = token_src(k, v)
        out += s if k == "Newline" else ((" " if out and not out.endswith("\n") else "") + s)
    return out


def windows(sites, width, tier, rnd):
    """groups of layout sites: consecutive windows (all sites are covered) + random scattered groups"""
    by_idx = {}
    for i, kind in sites: by_idx.setdefault(i, []).append(kind)
    items = sorted(by_idx.items()); out = []; cur = []; n = 0
    for i, kinds in items:
        if n + len(kinds) > width and cur: out.append(cur); cur = []; n = 0
        cur.append((i, kinds)); n += len(kinds)
    if cur: out.append(cur)
    for _ in range(2 if tier == "quick" else 8):
        pick = sorted(rnd.sample(items, min(len(items), width // 2)))
        out.append(pick)
    return out


# ------------------------------------------------------------------ native
def norm(lua): return re.sub(r"on line \d+", "on line N", lua or "")


def native_same(sylt, a, b):
    ra = common.compile_sy(sylt, {"main.sy": a}, extra=["--no-std"]); rb = common.compile_sy(sylt, {"main.sy": b}, extra=["--no-std"])
    if (ra[0] == 0) != (rb[0] == 0): return "acceptance differs (exit %d vs %d): %s" % (ra[0], rb[0], (ra[2] + rb[2])[-160:].replace("\n", " "))
    if ra[0] == 0 and norm(ra[1]) != norm(rb[1]): return "emitted Lua differs"
    return None


def native_ast_same(replay, a, b):
    """parser-level comparison on the binary's own tokenizer + parser: acceptance and AST modulo spans / attached comments"""
    import subprocess, tempfile, shutil
    outs = []
    for text in (a, b):
        d = tempfile.mkdtemp(prefix="c14_", dir=common.SCRATCH)
        try:
            open(os.path.join(d, "main.sy"), "w").write(text)
            o = subprocess.run([replay, "ast", "main.sy", "--no-std"], cwd=d, capture_output=True, text=True, timeout=60).stdout
        finally: shutil.rmtree(d, ignore_errors=True)
        outs.append(o)
    oka, okb = outs[0].startswith("OK "), outs[1].startswith("OK ")
    if oka != okb: return "the parser accepts one spelling and rejects the other: %s" % (outs[0] if not oka else outs[1])[:200].replace("\n", " ")
    if not oka: return None
    n = lambda o: re.sub(r"comments: \[[^\]]*\]", "comments: []", re.sub(r"Span \{[^}]*\}", "Span", o))
    E = "Statement { span: Span, kind: EmptyStatement, comments: [] }"
    n0 = n; n = lambda o: n0(o).replace(E + ", ", "").replace(", " + E, "").replace(E, "")
    return None if n(outs[0]) == n(outs[1]) else "the parser builds different syntax trees"


FACT = "    if n < 1 do\n            ret 1\n        end\n        ret n * fac(n - 1)\n"
NATIVE_PAIRS = [
    # what a comment contains is insignificant, whatever it is: code-like text, brackets, quotes, a carriage return, comment starters
    ("comment_contents", HEAD + "start :: fn do\n    x := 1\n    pr(x)\nend\n",
     HEAD + "// ) oops ( [ } \" ' end do\nstart :: fn do // fn do\n    x := 1 // was: \r x = 2\n    // note\r    x = 3\n    pr(x) // <<<<<<< //// \\ \t ret\r\nend // end\n//\r\n//\rpr(1)\n"),
    ("arrow_call_followed_by_operator", HEAD + "start :: fn do\n    pr(add(1, 2) + 1)\n    pr(inc(add(1, 2)) * 2 - 1)\nend\n", HEAD + "start :: fn do\n    pr(1 -> add(2) + 1)\n    pr(1 -> add(2) -> inc() * 2 - 1)\nend\n"),
    ("arrow_call_in_comparison", HEAD + "start :: fn do\n    pr(add(1, 2) == 3)\n    pr(add(1, 2) < inc(3) and true)\nend\n", HEAD + "start :: fn do\n    pr(1 -> add(2) == 3)\n    pr(1 -> add(2) < 3 -> inc() and true)\nend\n"),
    ("parenthesised_arrow_target", HEAD + "start :: fn do\n    pr(add(1, 2))\nend\n", HEAD + "start :: fn do\n    pr(1 -> (add(2)))\nend\n"),
    ("parenthesised_local_recursive_function", "start :: fn do\n    fac :: fn n: int -> int do\n    " + FACT + "    end\n    pr(fac(3))\nend\n", "start :: fn do\n    fac :: (fn n: int -> int do\n    " + FACT + "    end)\n    pr(fac(3))\nend\n"),
    ("arrow_onto_lambda_callee", "start :: fn do\n    pr((fn g: fn int -> int, y: int -> int do ret g(y) end)((fn q: int -> int do ret q + 1 end), 2))\nend\n", "start :: fn do\n    pr((fn q: int -> int do ret q + 1 end) -> (fn g: fn int -> int, y: int -> int do ret g(y) end)(2))\nend\n"),
    ("blank_line_in_prime_call_continuation", HEAD + "start :: fn do\n    x := add' 1,\n        2\n    pr(x)\nend\n", HEAD + "start :: fn do\n    x := add' 1,\n\n        2\n    pr(x)\nend\n"),
    ("parenthesised_method_literal", "Ab :: blob {\n    x: int,\n    get: fn -> int,\n}\nstart :: fn do\n    a := Ab { x: 3, get: fn -> int do ret self.x end }\n    pr(a.get())\nend\n", "Ab :: blob {\n    x: int,\n    get: fn -> int,\n}\nstart :: fn do\n    a := Ab { x: 3, get: (fn -> int do ret self.x end) }\n    pr(a.get())\nend\n"),
    ("parenthesised_index_literal", "start :: fn do\n    t := (1, 2)\n    pr(t[0] + t[1])\nend\n", "start :: fn do\n    t := (1, 2)\n    pr(t[(0)] + t[((1))])\nend\n"),
    ("prime_call_of_parenthesised_callee_in_operator_context", HEAD + "start :: fn do\n    pr(1 + add(1, 2))\n    pr(1 -> add(2))\nend\n", HEAD + "start :: fn do\n    pr(1 + (add)' 1, 2)\n    pr(1 -> (add)' 2)\nend\n"),
    ("blank_and_comment_lines_before_leading_comma_continuation", HEAD + "start :: fn do\n    x := add' 1\n        , 2\n    pr(x)\nend\n", HEAD + "start :: fn do\n    x := add' 1\n\n        // the second one\n\n        , 2\n    pr(x)\nend\n"),
    ("comment_line_in_prime_call_continuation", HEAD + "start :: fn do\n    x := add' 1,\n        2\n    pr(x)\nend\n", HEAD + "start :: fn do\n    x := add' 1,\n        // the second one\n        2\n    pr(x)\nend\n"),
    ("prime_in_arrow_in_multiline_args", HEAD + "start :: fn do\n    pr(add(add(1, 2), inc(3)))\nend\n", HEAD + "start :: fn do\n    pr(\n        (add' 1, 2) -> add(\n            // the second argument\n            inc' 3\n        )\n    )\nend\n"),
    ("indentation_and_blank_lines", HEAD + "start :: fn do\n    x := add(1, 2)\n    if x > 1 do\n        pr(x)\n    end\nend\n", HEAD + "\n\nstart :: fn do\n\n  x := add(1,2)\n\n\t\tif x > 1 do // c\n// c\n pr( x )\n\n            end\n// c\nend\n\n// c\n"),
    ("comment_after_loop", "start :: fn do\n    i := 0\n    loop do\n        i += 1\n        if i > 2 do\n            break\n        end\n    end\n    pr(i)\nend\n", "start :: fn do\n    i := 0\n    loop true do\n        i += 1\n        if i > 2 do\n            break\n        end\n    end\n    // after the loop\n    pr(i)\nend\n"),
    ("trailing_if_expression", HEAD + "sg :: fn a: int -> int do\n    ret if a > 0 do 1 else 0 end\nend\nstart :: fn do\n    pr(sg(1))\nend\n", HEAD + "sg :: fn a: int -> int do\n    if a > 0 do 1 else 0 end\nend\nstart :: fn do\n    pr(sg' 1)\nend\n"),
    ("collections_over_lines", "start :: fn do\n    l := [1, 2, 3]\n    t := (1, \"a\", [2])\n    pr(l, t)\nend\n", "start :: fn do\n    l := [\n        1,\n        2, // two\n        3\n    ]\n    t := (\n        1,\n        \"a\",\n        [\n            2\n        ]\n    )\n    pr(\n        l,\n        t\n    )\nend\n"),
]


# ------------------------------------------------------------------ the repo's own programs under layout changes (thorough tier)
def corpus_layout(art, fnd, limit=None):
    """every accepted program of tests/**/*.sy is re-laid-out (blank line / comment line before every line, trailing comment on every
    line, deeper indentation - never inside a multi-line token) and must still compile to the same Lua (modulo the line of <!>)"""
    import shutil, subprocess, tempfile
    from luasym import runner
    from checks import C07
    root = common.repo_path("tests")
    work = tempfile.mkdtemp(prefix="c14c_", dir=common.SCRATCH)
    n = 0
    try:
        shutil.copytree(root, os.path.join(work, "tests"))
        files = runner.corpus(os.path.join(work, "tests"))
        if limit: files = files[:: max(1, len(files) // limit)]
        def one(f):
            res = []
            text = open(f, errors="surrogateescape").read()
            base = subprocess.run([art["sylt"], "-o", "-", f], cwd=work, capture_output=True, text=True, errors="surrogateescape", timeout=120)
            if base.returncode != 0: return res
            # a program that some module imports back under its own file name cannot be compiled under another name
            stem = os.path.basename(f)[:-3]; d_ = os.path.dirname(f)
            if stem == "exports": return res          # a folder's exports.sy is addressed by its file name (`use /`)
            for g_ in os.listdir(d_):
                if g_.endswith(".sy") and not g_.startswith("c14_") and g_ != os.path.basename(f) and re.search(r"^(use|from)\s+[/\w]*\b%s\b" % re.escape(stem), open(os.path.join(d_, g_), errors="replace").read(), re.M): return res
            out = subprocess.run([art["replay"], "tokens", f], capture_output=True, text=True, errors="surrogateescape", timeout=60).stdout
            inside = set()
            for mm in re.finditer(r"line_start: (\d+), line_end: (\d+)", out):
                a, b = int(mm.group(1)), int(mm.group(2))
                for l in range(a + 1, b + 1): inside.add(l)          # these lines begin inside a multi-line token
                if b > a:
                    for l in range(a, b): inside.add(-l)             # and these lines end inside one
            lines = text.split("\n")
            def variant(kind):
                o = []
                for i, ln in enumerate(lines, 1):
                    if kind == "blank" and i not in inside: o.append("")
                    if kind == "comment_line" and i not in inside: o.append("// c14")
                    if kind == "indent" and i not in inside and ln.strip(): ln = "  " + ln
                    if kind == "trailing_comment" and -i not in inside and ln.strip() and not ln.lstrip().startswith("//"): ln = ln + " // c14"
                    o.append(ln)
                return "\n".join(o)
            for kind in ("blank", "comment_line", "indent", "trailing_comment"):
                g = os.path.join(os.path.dirname(f), "c14_%s_%s" % (kind, os.path.basename(f)))
                open(g, "w", errors="surrogateescape").write(variant(kind))
                r = subprocess.run([art["sylt"], "-o", "-", g], cwd=work, capture_output=True, text=True, errors="surrogateescape", timeout=120)
                os.remove(g)
                if r.returncode != 0: res.append((kind, f, "rejected: " + (r.stdout + r.stderr)[-200:].replace("\n", " "), variant(kind), text))
                elif norm(r.stdout) != norm(base.stdout): res.append((kind, f, "emitted Lua differs", variant(kind), text))
            return res
        from concurrent.futures import ThreadPoolExecutor
        with ThreadPoolExecutor(16) as tp: allres = list(tp.map(one, files))
        n = 4 * len(files)
        for res in allres:
            for kind, f, why, vtext, text in res:
                fnd.report("corpus-layout:%s" % kind, "tests/%s with a %s on every line: %s" % (os.path.relpath(f, os.path.join(work, "tests")), kind.replace("_", " "), why), {"plain.sy": text, "variant.sy": vtext}, cmd="sylt -o a.lua plain.sy; sylt -o b.lua variant.sy; cmp a.lua b.lua")
    finally: shutil.rmtree(work, ignore_errors=True)
    return n


def run(tier):
    t0 = time.time()
    from mirsym import pipeline
    art = common.artifacts(need_mir=pipeline.CRATES, need_replay=True)
    rnd = random.Random(common.seed())
    from checks import C07
    C07.parser_machine()
    jobs_a = list(SUGAR.items()) + (list(SUGAR_THOROUGH.items()) if tier == "thorough" else [])
    width = 6 if tier == "quick" else 8
    jobs_b = []
    for name, text in LAYOUT.items():
        toks = C07.native_tokens_of(art["replay"], text); sites = layout_sites(toks)
        for w in windows(sites, width, tier, rnd): jobs_b.append((name, text, w))
    with mp.get_context("fork").Pool(16) as pool:
        ra = pool.map_async(sugar_work, jobs_a, chunksize=1); rb = pool.map_async(layout_work, jobs_b, chunksize=1)
        ra = ra.get(); rb = rb.get()
    fnd = common.Findings("C14"); tot = {"paths": 0, "queries": 0, "steps": 0}; samples = []; nat = 0
    for r in ra:
        if r["status"] != "ok": fnd.undecided("sugar %s: %s %s" % (r["name"], r["status"], r.get("why", "")[:500])); continue
        for k in tot: tot[k] += r[k]
        if r["accepted"] == 0: fnd.undecided("vacuity: sugar template %s has no accepted path" % r["name"])
        for b in r["bad"]:
            if b.get("unknown"): fnd.undecided("sugar %s: solver returned unknown" % r["name"]); continue
            why = native_same(art["sylt"], "pr: fn *X -> void : external\n" + b["text_a"].split("\n", 1)[1], "pr: fn *X -> void : external\n" + b["text_b"].split("\n", 1)[1]); nat += 1
            diff = sorted(k for k in b["a"] if b["a"][k] != b["b"][k])
            if why: fnd.report("sugar:%s:%s" % (r["name"], ",".join(diff)), "template %s: the surface forms %s vs %s at %s give different results (%s) for %s" % (r["name"], [b["a"][k] for k in diff], [b["b"][k] for k in diff], diff, why, {k: v for k, v in b["a"].items() if k not in diff and k.startswith("lit")}), {"a.sy": b["text_a"], "b.sy": b["text_b"]}, cmd="sylt --no-std -o a.lua a.sy; sylt --no-std -o b.lua b.sy; cmp a.lua b.lua")
            else: fnd.undecided("sugar %s: kernel outcomes differ (%s vs %s) for forms %s but the binary treats both spellings alike" % (r["name"], b["out_a"], b["out_b"], diff))
        if len(samples) < 3: samples.append({"template": r["name"], "surface_sites": r["sugar_sites"], "shared_symbolic_positions": r["shared"], "paths": r["paths"], "accepted_paths": r["accepted"]})
    nl = 0
    for r in rb:
        if r["status"] != "ok": fnd.undecided("layout %s: %s %s" % (r["name"], r["status"], r.get("why", "")[:500])); continue
        for k in tot: tot[k] += r[k]
        nl += 1
        for b in r["bad"]:
            why = native_ast_same(art["replay"], LAYOUT[r["name"]], b["text"]); nat += 1
            kinds = sorted(set(k.split(":")[1] + "=" + v for k, v in b["fills"].items()))
            if why: fnd.report("layout:%s:%s" % (r["name"], b["verdict"].split(":")[0]), "template %s: a layout variant (fillers %s) is %s by the parser; natively: %s" % (r["name"], kinds, b["verdict"], why), {"plain.sy": LAYOUT[r["name"]], "variant.sy": b["text"]}, cmd="sylt-replay ast plain.sy --no-std; sylt-replay ast variant.sy --no-std   # same tree modulo spans")
            else: fnd.undecided("layout %s: kernel says %s for %s but the binary treats the rendered text like the plain one" % (r["name"], b["verdict"], b["fills"]))
    if len(samples) < 5 and rb: samples.append({"layout_template": rb[0]["name"], "filler_sites": rb[0].get("sites"), "paths": rb[0].get("paths")})
    for name, a, b in NATIVE_PAIRS:
        why = native_same(art["sylt"], "pr: fn *X -> void : external\n" + a, "pr: fn *X -> void : external\n" + b); nat += 1
        if why: fnd.report("native-pair:" + name, "%s: %s" % (name, why), {"a.sy": a, "b.sy": b})
    for name, text in SUGAR.items():
        from mirsym import macros as X
        # all-plain vs all-last-form spelling of every sugar template
        sels = set(re.findall(r"__(ealts\w*|alts\w*)\(", text)); lits = set(re.findall(r"__(lit\w*)", text))
        first = {s: 0 for s in sels}; first.update({l: "int" if "cat" not in name else "str" for l in lits})
        a = X.render_concrete(text, dict(first))
        for alt in (1, 2, 3):
            cnt = {s: alt for s in sels}; cnt.update({l: first[l] for l in lits})
            try: b = X.render_concrete(text, cnt)
            except IndexError: continue
            why = native_same(art["sylt"], "pr: fn *X -> void : external\n" + a, "pr: fn *X -> void : external\n" + b); nat += 1
            if why: fnd.report("sugar:%s:native" % name, "template %s: plain spelling vs surface form #%d at every site: %s" % (name, alt, why), {"a.sy": a, "b.sy": b})
    nat += corpus_layout(art, fnd, limit=24 if tier == "quick" else None)
    cov = {"states": max(1, tot["paths"]), "transitions": max(1, tot["queries"]), "traces_validated_against_impl": nat, "samples": samples or [{"note": "none"}], "sugar_templates": len(jobs_a), "layout_jobs": nl, "mir_statements": tot["steps"],
           "functions_encoded": ["sylt_parser::module (+ statement, expression, assignable_call, arrow_call, Context::skip/prev/push_skip_newlines ..)", "name_resolution::resolve", "dependency::initialization_order", "typechecker::solve", "intermediate::compile"],
           "bounds": {"surface_sites_per_template": "<= 4, each over 2..5 forms (all combinations)", "layout_fillers_per_job": width, "filler_kinds": ["Comment", "Newline"], "literal_kinds": ["int", "float", "str", "bool"]}, "known_findings_seen": sorted(fnd.seen_known)}
    rc = fnd.finish()
    common.write_evidence("C14", tier, "model_checking", cov, ["each surface form is parsed by the real parser natively (sugar kernel) or from MIR (layout kernel); the Lua emitter is a deterministic function of the IR, so byte identity is asserted on the IR and confirmed natively per template",
                          "indentation and blanks never reach the parser (the tokenizer drops Whitespace; C17 covers the tokenizer); they are exercised natively only",
                          "layout fillers are placed only where the statement declares layout insignificant: inside (), [], {} and at statement-ending newlines"], time.time() - t0, len(fnd.violations))
    print("C14: %d sugar templates, %d layout jobs, %d paths, %d queries, %d native pairs, wall %.1fs" % (len(jobs_a), nl, tot["paths"], tot["queries"], nat, time.time() - t0))
    return rc
