"""Type-directed random template generator over the core language (C01/C02/C10 families).
Everything printed is well typed by the documented rules; literals become holes with small domains so that the
solver decides every value and every control path they induce. Deterministic in VERIF_SEED."""
import random
from syltsem import ast as A

INT, BOOL, STR, TUP = "int", "bool", "str", "(int, int)"


class G:
    def __init__(self, rnd):
        self.r = rnd; self.nvar = 0; self.nhole = 0; self.dom = {}; self.max_holes = 3
        self.funcs = []          # (name, [param types], ret type)
        self.loop_depth = 0; self.in_fn_ret = None

    def fresh(self, p="v"):
        self.nvar += 1; return "%s%d" % (p, self.nvar)
    def hole(self, lo=0, hi=3):
        if self.nhole >= self.max_holes: return A.I(self.r.randint(lo, hi))
        self.nhole += 1; n = "h%d" % self.nhole; self.dom[n] = (lo, hi); return A.H(n)
    def lit(self, ty):
        r = self.r
        if ty == INT: return self.hole() if r.random() < 0.35 else A.I(r.randint(0, 9))
        if ty == BOOL: return A.B(r.random() < 0.5)
        if ty == STR: return A.S(r.choice(["", "a", "b", "ab", "x y"]))
        if ty == TUP: return ("tuple", [self.lit(INT), self.lit(INT)])
        raise ValueError(ty)
    def vars_of(self, env, ty, mutable=None):
        return [n for n, (t, m) in env.items() if t == ty and (mutable is None or m == mutable)]
    def expr(self, ty, env, d):
        r = self.r
        vs = self.vars_of(env, ty)
        if d <= 0 or r.random() < 0.25:
            if vs and r.random() < 0.7: return A.V(r.choice(vs))
            return self.lit(ty)
        k = r.random()
        if ty == INT:
            if k < 0.35: return A.bin_(r.choice(["+", "-", "+", "*"]) if d > 1 else "+", self.expr(INT, env, d - 1), self.expr(INT, env, d - 1))
            if k < 0.45: return ("neg", self.expr(INT, env, d - 1))
            if k < 0.6: return ("if", [(self.expr(BOOL, env, d - 1), [A.ex(self.expr(INT, env, d - 1))]), (None, [A.ex(self.expr(INT, env, d - 1))])])
            if k < 0.75:
                fs = [f for f in self.funcs if f[2] == INT]
                if fs:
                    f = r.choice(fs); return A.call(f[0], *[self.expr(t, env, d - 1) for t in f[1]])
            if k < 0.85:
                ts = self.vars_of(env, TUP)
                if ts: return ("index", A.V(r.choice(ts)), A.I(r.randint(0, 1)))
            return A.V(r.choice(vs)) if vs else self.lit(INT)
        if ty == BOOL:
            if k < 0.45: return A.bin_(r.choice(["<", "<=", ">", ">=", "==", "!="]), self.expr(INT, env, d - 1), self.expr(INT, env, d - 1))
            if k < 0.55: return A.bin_(r.choice(["==", "!=", "<"]), self.expr(STR, env, d - 1), self.expr(STR, env, d - 1))
            if k < 0.8: return A.bin_(r.choice(["and", "or"]), self.expr(BOOL, env, d - 1), self.expr(BOOL, env, d - 1))
            if k < 0.9: return ("not", self.expr(BOOL, env, d - 1))
            return A.bin_(r.choice(["==", "<", "<="]), self.expr(TUP, env, d - 1), self.expr(TUP, env, d - 1))
        if ty == STR:
            if k < 0.4: return A.bin_("+", self.expr(STR, env, d - 1), self.expr(STR, env, d - 1))
            if k < 0.6: return A.call("as_str", self.expr(INT, env, d - 1))
            if k < 0.75: return ("if", [(self.expr(BOOL, env, d - 1), [A.ex(self.expr(STR, env, d - 1))]), (None, [A.ex(self.expr(STR, env, d - 1))])])
            return A.V(r.choice(vs)) if vs else self.lit(STR)
        if ty == TUP:
            if k < 0.4: return A.bin_(r.choice(["+", "-", "*"]), self.expr(TUP, env, d - 1), self.expr(TUP, env, d - 1))
            if k < 0.8: return ("tuple", [self.expr(INT, env, d - 1), self.expr(INT, env, d - 1)])
            return A.V(r.choice(vs)) if vs else self.lit(TUP)
        raise ValueError(ty)
    def block(self, env, n, d, same_scope=False):
        if not same_scope: env = dict(env)
        out = []
        for _ in range(n): out.extend(self.stmt(env, d))
        # a block in statement position must not end in a value-producing expression (branch types must agree)
        last = out[-1]
        if last[0] == "expr" and not (last[1][0] == "call" and last[1][1] == ("var", "print")):
            out.append(A.pr(A.S("end of block")))
        return out
    def stmt(self, env, d):
        r = self.r; k = r.random()
        ty = r.choice([INT, INT, BOOL, STR, TUP])
        if k < 0.25:
            cands = [x for x in env if x[0] in "vg"]
            n = self.fresh() if r.random() < 0.8 or not cands else r.choice(cands)      # sometimes shadow / redeclare
            mut = r.random() < 0.7
            e = self.expr(ty, env, 2)
            env[n] = (ty, mut)
            return [A.defn(n, e, ":=" if mut else "::")]
        if k < 0.45:
            ms = [n for n, (t, m) in env.items() if m]
            if ms:
                n = r.choice(ms); t = env[n][0]
                op = "=" if t in (BOOL,) or r.random() < 0.5 else r.choice(["+=", "-=", "*="] if t in (INT, TUP) else ["+="])
                return [A.asg(A.V(n), self.expr(t, env, 2), op)]
        if k < 0.65:
            return [A.pr(self.expr(ty, env, 2))]
        if k < 0.8 and d > 0:
            arms = [(self.expr(BOOL, env, 2), self.block(env, r.randint(1, 3), d - 1))]
            if r.random() < 0.3: arms.append((self.expr(BOOL, env, 1), self.block(env, r.randint(1, 2), d - 1)))
            if r.random() < 0.6: arms.append((None, self.block(env, r.randint(1, 2), d - 1)))
            return [A.ex(("if", arms))]
        if k < 0.9 and d > 0 and self.loop_depth < 2:
            c = self.fresh("c"); bound = r.randint(1, 3)
            self.loop_depth += 1
            benv = dict(env); benv[c] = (INT, False)         # the counter is only touched by the loop skeleton
            body = [A.asg(A.V(c), A.I(1), "+=")] + self.block(benv, r.randint(1, 3), d - 1)
            if r.random() < 0.4:
                body.insert(r.randint(1, len(body)), A.ex(("if", [(self.expr(BOOL, benv, 1), [(r.choice([("break",), ("continue",)]))])])))
            self.loop_depth -= 1
            cond = A.bin_("<", A.V(c), A.I(bound)) if r.random() < 0.8 else None
            if cond is None: body.insert(1, A.ex(("if", [(A.bin_(">", A.V(c), A.I(bound)), [("break",)])])))
            return [A.defn(c, A.I(0)), ("loop", cond, body)]
        if k < 0.95 and d > 0:
            return [("block", self.block(env, r.randint(1, 3), d - 1))]
        return [A.ex(("assert_eq", self.expr(INT, env, 1), self.expr(INT, env, 1)))] if r.random() < 0.3 else [A.pr(self.expr(ty, env, 1))]
    def function(self, genv):
        """a top-level helper: annotated, may read/assign globals, may recurse on its first int parameter"""
        r = self.r
        name = self.fresh("f"); nparams = r.randint(1, 2)
        params = [(self.fresh("p"), INT) for _ in range(nparams)]
        ret = r.choice([INT, INT, BOOL, STR])
        env = dict(genv)
        for p, t in params: env[p] = (t, False)
        body = []
        recursive = r.random() < 0.4 and ret == INT
        if recursive:
            p0 = params[0][0]
            body.append(A.ex(("if", [(A.bin_("<", A.V(p0), A.I(1)), [("ret", self.expr(ret, env, 1))])])))
        body += self.block(env, r.randint(1, 3), 1, same_scope=True)
        if r.random() < 0.5:
            body.append(A.ex(("if", [(self.expr(BOOL, env, 1), [("ret", self.expr(ret, env, 1))])])))
        tail = self.expr(ret, env, 2)
        if recursive:
            rec = A.call(name, A.bin_("-", A.V(params[0][0]), A.I(1)), *[self.expr(INT, env, 1) for _ in params[1:]])
            tail = A.bin_("+", tail, rec) if r.random() < 0.5 else A.bin_("+", rec, tail)
        body.append(("ret", tail))
        self.funcs.append((name, [t for _, t in params], ret))
        return A.defn(name, A.fn(params, body, ret=ret), "::")
    def program(self):
        r = self.r
        prog = []; genv = {}
        for _ in range(r.randint(0, 2)):
            n = self.fresh("g"); t = r.choice([INT, STR, BOOL]); mut = r.random() < 0.7
            prog.append(A.defn(n, self.lit(t) if t != INT else A.I(r.randint(0, 5)), ":=" if mut else "::")); genv[n] = (t, mut)
        for _ in range(r.randint(0, 2)): prog.append(self.function(genv))
        # recursion arguments are small: calls from start pass holes with domain 0..3
        body = self.block(genv, r.randint(3, 7), 2)
        prog.append(A.defn("start", A.fn([], body), "::"))
        return prog


def random_templates(seed, n):
    out = []
    for i in range(n):
        rnd = random.Random((seed * 1000003 + i) & 0xffffffff)
        g = G(rnd)
        prog = g.program()
        out.append({"name": "rand_%d_%d" % (seed, i), "role": "random-core-program", "text": A.to_text(prog), "dom": dict(g.dom)})
    return out
