"""C10 - function activations and closures do not interfere (re-entrancy).
Translation validation on the recursion/closure-dense family: every value held across a call that re-enters the
same function, closures created per activation / per loop iteration, closures sharing a captured variable."""
import random, time
from vlib import common
from syltsem import ast as A
from checks import tvrun, templates_core

# expression contexts E[.] that hold a value while a recursive call runs; `X` = the held value, `R` = the call
CONTEXTS = [
    ("plus_left", "X + R"), ("plus_right", "R + X"), ("mul_left", "X * 10 + R"), ("tuple_first", "((X, R)[0]) + ((X, R)[1])"),
    ("arg_first", "pair(X, R)"), ("arg_second", "pair(R, X)"), ("cmp", "if X < R do 1 else 2 end"), ("eq", "if X == R do 1 else 0 end"),
    ("nested", "X + (X + R) * 2"), ("neg", "-X + R"),
]
HELD = [
    ("if", "(if n > K do 10 else 20 end)"),
    ("if_no_paren_chain", "(if n > K do 10 elif n > 0 do 5 else 20 end)"),
    ("and_or", "(if n > K and n > 0 or n == 0 do 3 else 4 end)"),
    ("case", "(case (if n > K do E.A n else E.B n end) do\n        A x -> x * 100 end\n        B y -> y end\n    end)"),
    ("local", "n * 7"),
    ("call", "id(n * 3)"),
    ("tuple_index", "(n, n + 1)[1]"),
]
PROGRAM = '''
E :: enum
    A int,
    B int,
end
id :: fn v: int -> int do ret v end
pair :: fn a: int, b: int -> int do ret a * 1000 + b end
g :: fn h: fn int -> int, m: int -> int do
    if m < 1 do ret 2 end
    ret (if m > 1 do 7 else 9 end) + h(m - 1)
end
via :: fn h: fn int -> int, m: int -> int do ret h(m) end
f :: fn n: int -> int do
    if n < 1 do ret 1 end
    ret BODY
end
start :: fn do
    print(f(?a))
end
'''
CLOSURES = [
# a function that calls itself in tail position: every round is an activation of its own, closures made in one round keep that round's parameters
("closures_over_parameters_of_a_tail_recursive_function", '''
countdown :: fn n: int, acc: [fn -> int] -> [fn -> int] do
    if n == 0 do
        ret acc
    end
    acc -> list.push(fn -> int do ret n * 10 + ?m end)
    ret countdown(n - 1, acc)
end
chain :: fn n: int, prev: fn -> int -> fn -> int do
    if n == 0 do
        ret prev
    end
    ret chain(n - 1, fn -> int do ret prev() + n end)
end
start :: fn do
    fs :: countdown(3, [])
    fs -> for_each(fn f: fn -> int do print(f()) end)
    c :: chain(3, fn -> int do ret ?m end)
    print(c())
end
''', {"m": (0, 3)}),
# an assignment whose target is reached through a call that re-enters the same assignment statement: each activation stores ITS value
("assignment_through_a_recursive_call_in_the_target", '''
Box :: blob {
    v: int,
}
a :: Box { v: 0 }
b :: Box { v: 0 }
c :: Box { v: 0 }
pick :: fn n: int -> Box do
    if n == 1 do
        ret a
    end
    if n == 2 do
        ret b
    end
    ret c
end
fill :: fn n: int -> Box do
    if n > 1 do
        fill(n - 1).v = n * 10 + ?m
    end
    ret pick(n)
end
start :: fn do
    fill(3)
    print(a.v)
    print(b.v)
    print(c.v)
end
''', {"m": (0, 3)}),
("assignment_target_and_value_with_effects", '''
Box :: blob {
    v: int,
}
log := 0
b0 :: Box { v: 0 }
b1 :: Box { v: 0 }
at :: fn i: int -> Box do
    log = log * 10 + 1
    if i == 0 do
        ret b0
    end
    ret b1
end
val :: fn k: int -> int do
    log = log * 10 + 2
    ret k + ?m
end
start :: fn do
    at(0).v = val(5)
    print(log)
    at(1).v += val(6)
    print(log)
    print(b0.v)
    print(b1.v)
end
''', {"m": (0, 3)}),
# top-level functions are closures over the module's variables: all of them share ONE variable, wherever it is declared and however they write it
("module_variable_shared_by_top_level_functions", '''
set_it :: fn v: int do
    counter = v
end
bump :: fn do
    counter += 1
end
get_it :: fn -> int do
    ret counter
end
counter := 0
swap_in :: fn v: int -> int do
    old :: counter
    counter = v
    ret old
end
start :: fn do
    set_it(?m)
    print(get_it())
    bump()
    print(counter)
    print(swap_in(7))
    print(get_it())
    set_it(?m + 2)
    print(counter)
end
''', {"m": (0, 3)}),
("module_variable_overwritten_by_a_nested_closure", '''
install :: fn -> fn int -> void do
    ret fn v: int do
        slot = (v, v + 1)
    end
end
peek :: fn -> int do
    ret slot[0] + slot[1]
end
slot := (0, 0)
start :: fn do
    w :: install()
    w(?m)
    print(peek())
    print(slot)
    slot = (5, 5)
    print(peek())
end
''', {"m": (0, 3)}),
("closure_per_iteration_and_recursion", '''
mk :: fn n: int, acc: [fn -> int] -> void do
    if n < 1 do ret end
    i := 0
    loop i < 2 do
        v := n * 10 + i + ?m
        acc -> list.push(fn -> int do
            v += 1
            ret v
        end)
        i += 1
    end
    mk(n - 1, acc)
end
start :: fn do
    fs: [fn -> int] = []
    mk(2, fs)
    fs -> for_each(fn g: fn -> int do print(g()) end)
    fs -> for_each(fn g: fn -> int do print(g()) end)
end
''', {"m": (0, 5)}),
("closures_share_cell", '''
mk :: fn k: int -> (fn -> int, fn -> int) do
    c := k
    inc :: fn -> int do
        c += 1
        ret c
    end
    get :: fn -> int do ret c end
    ret (inc, get)
end
start :: fn do
    p :: mk(?a)
    q :: mk(?b)
    p[0]()
    p[0]()
    q[0]()
    print(p[1]())
    print(q[1]())
end
''', {"a": (0, 9), "b": (0, 9)}),
("closure_captures_param_across_recursion", '''
build :: fn n: int -> fn -> int do
    if n < 1 do ret fn -> int do ret 0 end end
    inner :: build(n - 1)
    ret fn -> int do ret n * 10 + inner() end
end
start :: fn do
    print(build(?a)())
end
''', {"a": (0, 3)}),
("if_value_closure_in_branch", '''
pick :: fn n: int -> fn -> int do
    r :: if n > 1 do
        w := n * 2
        fn -> int do ret w end
    else
        w := n + 100
        fn -> int do ret w end
    end
    ret r
end
start :: fn do
    a :: pick(?a)
    b :: pick(?b)
    print(a())
    print(b())
    print(a())
end
''', {"a": (0, 3), "b": (0, 3)}),
("higher_order_reentry", '''
twice :: fn g: fn int -> int, v: int -> int do
    ret g(v) + g(v + 1) * 100
end
f :: fn n: int -> int do
    if n < 1 do ret 1 end
    ret (if n > 1 do 2 else 3 end) + twice(fn k: int -> int do ret f(k - 2) end, n)
end
start :: fn do
    print(f(?a))
end
''', {"a": (0, 3)}),
]


def templates(seed, tier):
    out = [t for t in templates_core.CATALOGUE if "reent" in t["tags"] or t["name"] in ("closure_counter", "closure_shared", "loop_fresh_local", "recursion_fact", "nested_fn_scope", "blob_self")]
    combos = [(c, h) for c in CONTEXTS for h in HELD]
    rnd = random.Random(seed)
    for (cn, ctx), (hn, held) in combos:
        for K in ((1,) if tier == "quick" else (1, 2, 3)):
            body = ctx.replace("X", held.replace("K", str(K))).replace("R", "f(n - 1)")
            out.append({"name": "ctx_%s_%s_%d" % (cn, hn, K), "role": "value-held-across-recursive-call(%s in %s)" % (hn, cn),
                        "text": PROGRAM.replace("BODY", body), "dom": {"a": (0, 3)}})
    # the re-entering call is not a plain self call: mutual recursion (through a function that is handed `f`; two global functions that
    # name each other are a 'Dependency cycle' in this language), through a closure made in this activation, through a
    # higher-order function that is handed `f`, two re-entering calls in one expression
    routes = [("mutual", "g(f, n)"), ("closure", "(fn -> int do ret f(n - 1) end)()"), ("higher_order", "via(f, n - 1)"), ("binary", "(f(n - 1) + f(n - 2))"),
              ("closure_arg", "via(fn k: int -> int do ret f(k) + n end, n - 1)")]
    rc = [(c, h, r) for c in CONTEXTS for h in HELD for r in routes]
    if tier == "quick":
        rnd.shuffle(rc); rc = rc[:200]
    for (cn, ctx), (hn, held), (rn, route) in rc:
        body = ctx.replace("X", held.replace("K", "1")).replace("R", route)
        out.append({"name": "ctx_%s_%s_via_%s" % (cn, hn, rn), "role": "value-held-across-recursive-call(%s in %s, re-entered through %s)" % (hn, cn, rn),
                    "text": PROGRAM.replace("BODY", body), "dom": {"a": (0, 3)}})
    for name, text, dom in CLOSURES:
        out.append({"name": name, "role": name, "text": text, "dom": dom})
    # activations of the LIBRARY's higher-order functions are activations too: filter / map / fold / for_each re-entered from their own callbacks
    from checks import C18
    for t in C18.templates("quick"):
        if t["name"] == "list_nested_callbacks": out.append(dict(t, name="library_" + t["name"], role="library-higher-order-functions-re-entered-from-their-own-callbacks"))
    out.append({"name": "library_filter_inside_recursive_predicate", "role": "library-higher-order-functions-re-entered-through-user-recursion", "dom": {"a": (0, 3)}, "text": '''
smaller :: pu xs: [int], x: int -> [int] do
    ret xs -> filter(pu y: int -> bool do y < x end)
end
rank :: pu xs: [int], x: int -> int do
    ret (smaller(xs, x)) -> fold(0, pu v: int, acc: int -> int do acc + 1 end)
end
start :: fn do
    xs :: [3, ?a, 2, 5]
    print(xs -> filter(pu x: int -> bool do rank(xs, x) > 0 end))
    print(xs -> map(pu x: int -> int do rank(xs, x) end))
    print(xs -> filter(pu x: int -> bool do (xs -> filter(pu z: int -> bool do z > x end)) == [] end))
    print(xs -> fold(0, pu x: int, acc: int -> int do acc + rank(xs, x) end))
end
'''})
    # large activations: functions whose emitted Lua comes close to Lua's 200-locals limit (K = 94 filler definitions is the largest that
    # still loads on the pinned tree) - values held across the recursive calls must still be per activation
    for K in ((60, 90) if tier == "quick" else (40, 60, 80, 86, 90, 92, 94)):
        fill = "".join("    f%d := n + %d\n" % (i, i) for i in range(K))
        out.append({"name": "large_activation_%d" % K, "role": "value-held-across-recursive-call(function with %d local definitions)" % K, "dom": {"a": (0, 4)},
                    "text": "climb :: fn n: int -> int do\n    if n < 2 do\n        ret n\n    end\n" + fill + "    ret climb(n - 1) + climb(n - 2) * 2 + f%d - f0\nend\nstart :: fn do\n    print(climb(?a))\nend\n" % (K - 1)})
    return out


def run(tier):
    t0 = time.time()
    art = common.artifacts()
    return tvrun.tv_check("C10", tier, templates(common.seed(), tier), art["sylt"], t0,
                          assumptions=tvrun.TV_ASSUMPTIONS + ["recursion depth is driven by a hole in [0,3]; deeper interleavings are outside the claim"])
