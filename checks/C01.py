"""C01 - compiled Lua behaves as the Sylt source denotes (translation validation with symbolic inputs).
Also runs the engine's self-validation: every program of the repo's own corpus (tests/**/*.sy) is compiled by the real
compiler and executed by E-LUA in concrete mode; the outcome must agree with the expectation written in the file
(`// error: #...` = fails at run time, otherwise runs to completion with every `<=>` holding)."""
import multiprocessing as mp, os, time
from vlib import common
from checks import tvrun, templates_core, gen


def _val(job):
    from luasym import runner
    sylt, f, cwd = job
    def go():
        try: return (f,) + tuple(runner.validate_one(sylt, f, cwd))
        except Exception as e: return (f, "ENGINE-ERROR", "%s: %s" % (type(e).__name__, str(e)[:200]))
    return runner.in_thread(go)


def corpus_validation(sylt):
    from luasym import runner
    root = common.repo_path("tests")
    files = runner.corpus(root)
    with mp.get_context("fork").Pool(16) as pool: res = pool.map(_val, [(sylt, f, common.REPO) for f in files], chunksize=4)
    stats = {}; problems = []
    for f, v, msg in res:
        stats[v] = stats.get(v, 0) + 1
        if "DISAGREE" in v or v == "ENGINE-ERROR" or v.startswith("lua-does"): problems.append((os.path.relpath(f, root), v, msg[:200]))
    return stats, problems


def run(tier):
    t0 = time.time()
    art = common.artifacts()
    stats, problems = corpus_validation(art["sylt"])
    templates = list(templates_core.CATALOGUE)
    templates += gen.random_templates(common.seed(), 40 if tier == "quick" else 15000)
    for f, v, msg in problems: print("NOTE corpus program %s: %s %s" % (f, v, msg))
    rc = tvrun.tv_check("C01", tier, templates, art["sylt"], t0, assumptions=tvrun.TV_ASSUMPTIONS,
                        extra_cov={"engine_self_validation": {"corpus": "tests/**/*.sy compiled by the real compiler, run by E-LUA (concrete mode)", "outcomes": stats, "disagreements": problems[:10]}})
    if problems and rc == 0:
        print("INCONCLUSIVE property=C01 E-LUA and the expectations written in %d corpus programs disagree (engine fidelity or a compiler regression): %s" % (len(problems), problems[:3]))
        return 2
    return rc
