"""C01 - compiled Lua behaves as the Sylt source denotes (translation validation with symbolic inputs)."""
import time
from vlib import common
from checks import tvrun, templates_core, gen


def run(tier):
    t0 = time.time()
    art = common.artifacts()
    templates = list(templates_core.CATALOGUE)
    templates += gen.random_templates(common.seed(), 40 if tier == "quick" else 600)
    return tvrun.tv_check("C01", tier, templates, art["sylt"], t0, assumptions=tvrun.TV_ASSUMPTIONS)
